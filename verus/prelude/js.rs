// PRELUDE part 3 (trusted text): stubs for the wasm-bindgen / js-sys API surface used by oxmpl-js's callback wrappers.
// The specs say ONLY: a JavaScript call either returns a value or throws (`js_call1` / `js_call0` is Some / None),
// `as_bool` / `as_f64` are Some exactly for a JS boolean / number, property lookup and function casts may fail.  ASSUMED.
#[verifier::external_body]
pub struct JsValue { _p: u8 }
impl Clone for JsValue {
    #[verifier::external_body]
    fn clone(&self) -> (r: Self) ensures r == *self { unimplemented!() }
}
pub uninterp spec fn js_str_spec(s: &str) -> JsValue;
pub uninterp spec fn js_null_spec() -> JsValue;
pub uninterp spec fn js_as_bool(v: &JsValue) -> Option<bool>;
pub uninterp spec fn js_as_f64(v: &JsValue) -> Option<f64>;
pub uninterp spec fn js_get(target: &JsValue, key: &JsValue) -> Option<JsValue>;       // None: the lookup threw
pub uninterp spec fn js_call1(f: &js_sys::Function, this: &JsValue, arg: &JsValue) -> Option<JsValue>;   // None: the call threw
pub uninterp spec fn js_call0(f: &js_sys::Function, this: &JsValue) -> Option<JsValue>;
pub trait JsCastStub: Sized { spec fn cast(v: JsValue) -> Option<Self>; }
impl JsValue {
    #[verifier::external_body]
    pub fn from_str(s: &str) -> (r: JsValue) ensures r == js_str_spec(s) { unimplemented!() }
    #[verifier::external_body]
    pub fn as_bool(&self) -> (r: Option<bool>) ensures r == js_as_bool(self) { unimplemented!() }
    #[verifier::external_body]
    pub fn as_f64(&self) -> (r: Option<f64>) ensures r == js_as_f64(self) { unimplemented!() }
    #[verifier::external_body]
    pub fn dyn_into<T: JsCastStub>(self) -> (r: Result<T, JsValue>) ensures (r is Ok) == (T::cast(self) is Some), r is Ok ==> r->Ok_0 == T::cast(self)->Some_0 { unimplemented!() }
}
#[verifier::external_body]
pub fn jsvalue_null() -> (r: JsValue) ensures r == js_null_spec() { unimplemented!() }     // unit rule: JsValue::NULL
#[verifier::external_body]
pub fn js_str(s: &str) -> (r: JsValue) ensures r == js_str_spec(s) { unimplemented!() }     // unit rule: "..".into()
pub mod js_sys {
    use super::*;
    #[verifier::external_body]
    pub struct Function { _p: u8 }
    impl Clone for Function {
        #[verifier::external_body]
        fn clone(&self) -> (r: Self) ensures r == *self { unimplemented!() }
    }
    impl JsCastStub for Function { uninterp spec fn cast(v: JsValue) -> Option<Function>; }
    impl Function {
        #[verifier::external_body]
        pub fn call1(&self, this: &JsValue, arg: &JsValue) -> (r: Result<JsValue, JsValue>)
            ensures (r is Ok) == (js_call1(self, this, arg) is Some), r is Ok ==> r->Ok_0 == js_call1(self, this, arg)->Some_0
        { unimplemented!() }
        #[verifier::external_body]
        pub fn call0(&self, this: &JsValue) -> (r: Result<JsValue, JsValue>)
            ensures (r is Ok) == (js_call0(self, this) is Some), r is Ok ==> r->Ok_0 == js_call0(self, this)->Some_0
        { unimplemented!() }
    }
    pub struct Reflect;
    impl Reflect {
        #[verifier::external_body]
        pub fn get(target: &JsValue, key: &JsValue) -> (r: Result<JsValue, JsValue>)
            ensures (r is Ok) == (js_get(target, key) is Some), r is Ok ==> r->Ok_0 == js_get(target, key)->Some_0
        { unimplemented!() }
    }
}
pub mod console {
    use super::*;
    #[verifier::external_body]
    pub fn warn_1(a: &JsValue) { }
    #[verifier::external_body]
    pub fn error_2(a: &JsValue, b: &JsValue) { }
}
pub struct StateValidityCallback { pub v: JsValue }
pub mod rand { pub use super::Rng; }

/// conversion trait of oxmpl-js (js_state_convert.rs); mirrored signature plus spec views
pub trait JsStateConvert: Sized {
    spec fn to_js_spec(&self) -> JsValue;
    fn to_js_value(&self) -> (r: JsValue) ensures r == self.to_js_spec();
    spec fn from_js_spec(val: JsValue) -> Option<Self>;
    fn from_js_value(val: JsValue) -> (r: Result<Self, String>) ensures (r is Ok) == (Self::from_js_spec(val) is Some), r is Ok ==> r->Ok_0 == Self::from_js_spec(val)->Some_0;
}
#[verifier::external_body]
pub struct RealVectorState { _p: u8 }
impl State for RealVectorState { }
impl JsStateConvert for RealVectorState {
    uninterp spec fn to_js_spec(&self) -> JsValue;
    #[verifier::external_body]
    fn to_js_value(&self) -> (r: JsValue) { unimplemented!() }
    uninterp spec fn from_js_spec(val: JsValue) -> Option<Self>;
    #[verifier::external_body]
    fn from_js_value(val: JsValue) -> (r: Result<Self, String>) { unimplemented!() }
}
#[verifier::external_body]
pub struct SO2State { _p: u8 }
impl State for SO2State { }
impl JsStateConvert for SO2State {
    uninterp spec fn to_js_spec(&self) -> JsValue;
    #[verifier::external_body]
    fn to_js_value(&self) -> (r: JsValue) { unimplemented!() }
    uninterp spec fn from_js_spec(val: JsValue) -> Option<Self>;
    #[verifier::external_body]
    fn from_js_value(val: JsValue) -> (r: Result<Self, String>) { unimplemented!() }
}
#[verifier::external_body]
pub struct SO3State { _p: u8 }
impl State for SO3State { }
impl JsStateConvert for SO3State {
    uninterp spec fn to_js_spec(&self) -> JsValue;
    #[verifier::external_body]
    fn to_js_value(&self) -> (r: JsValue) { unimplemented!() }
    uninterp spec fn from_js_spec(val: JsValue) -> Option<Self>;
    #[verifier::external_body]
    fn from_js_value(val: JsValue) -> (r: Result<Self, String>) { unimplemented!() }
}
#[verifier::external_body]
pub struct SE2State { _p: u8 }
impl State for SE2State { }
impl JsStateConvert for SE2State {
    uninterp spec fn to_js_spec(&self) -> JsValue;
    #[verifier::external_body]
    fn to_js_value(&self) -> (r: JsValue) { unimplemented!() }
    uninterp spec fn from_js_spec(val: JsValue) -> Option<Self>;
    #[verifier::external_body]
    fn from_js_value(val: JsValue) -> (r: Result<Self, String>) { unimplemented!() }
}
#[verifier::external_body]
pub struct SE3State { _p: u8 }
impl State for SE3State { }
impl JsStateConvert for SE3State {
    uninterp spec fn to_js_spec(&self) -> JsValue;
    #[verifier::external_body]
    fn to_js_value(&self) -> (r: JsValue) { unimplemented!() }
    uninterp spec fn from_js_spec(val: JsValue) -> Option<Self>;
    #[verifier::external_body]
    fn from_js_value(val: JsValue) -> (r: Result<Self, String>) { unimplemented!() }
}
#[verifier::external_body]
pub struct CompoundState { _p: u8 }
impl State for CompoundState { }
impl JsStateConvert for CompoundState {
    uninterp spec fn to_js_spec(&self) -> JsValue;
    #[verifier::external_body]
    fn to_js_value(&self) -> (r: JsValue) { unimplemented!() }
    uninterp spec fn from_js_spec(val: JsValue) -> Option<Self>;
    #[verifier::external_body]
    fn from_js_value(val: JsValue) -> (r: Result<Self, String>) { unimplemented!() }
}

/// C20: fail-closed readings of a JS callback / method outcome
pub open spec fn js_fail_closed(outcome: Option<JsValue>) -> bool {
    match outcome { Some(v) => match js_as_bool(&v) { Some(b) => b, None => false }, None => false }
}
pub open spec fn js_method1(inst: &JsValue, name: &str, arg: &JsValue) -> Option<JsValue> {
    match js_get(inst, &js_str_spec(name)) {
        Some(fv) => match <js_sys::Function as JsCastStub>::cast(fv) { Some(f) => js_call1(&f, inst, arg), None => None },
        None => None,
    }
}
pub open spec fn js_method0(inst: &JsValue, name: &str) -> Option<JsValue> {
    match js_get(inst, &js_str_spec(name)) {
        Some(fv) => match <js_sys::Function as JsCastStub>::cast(fv) { Some(f) => js_call0(&f, inst), None => None },
        None => None,
    }
}
pub open spec fn js_fail_inf(outcome: Option<JsValue>) -> f64 {
    match outcome { Some(v) => match js_as_f64(&v) { Some(x) => x, None => spec_f64_infinity() }, None => spec_f64_infinity() }
}
impl From<StateValidityCallback> for JsValue {
    #[verifier::external_body]
    fn from(c: StateValidityCallback) -> JsValue { unimplemented!() }
}
impl From<JsValue> for js_sys::Function {
    #[verifier::external_body]
    fn from(c: JsValue) -> js_sys::Function { unimplemented!() }
}
