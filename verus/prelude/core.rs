#![feature(print_internals)]
#![allow(unused_imports, dead_code, unused_variables, unused_mut, unused_parens, unused_braces, non_snake_case)]
// PRELUDE (trusted text, /verif/verus/prelude/core.rs): contracts of the five oxmpl traits the
// planners are generic over, stubs for std / rand / clock, and the floating-point axiom sets.
// Nothing in here is code from /repo; everything in here is an ASSUMPTION and is listed as such
// in every evidence file.  Lines ending in `//@ id [tags]` are named clauses.
use vstd::prelude::*;
use std::sync::Arc;
use std::time::{Duration, Instant};
use std::collections::{HashMap, VecDeque};
use vstd::std_specs::ops::*;
use vstd::std_specs::cmp::*;
use core::cmp::Ordering;
verus! {

// ------------------------------------------------------------------ std stubs (trusted)
pub assume_specification [std::io::_print] (_0: std::fmt::Arguments<'_>);

#[verifier::external_type_specification]
#[verifier::external_body]
pub struct ExInstant(std::time::Instant);
// the clock: results are unconstrained, so every proof holds for every timing
pub assume_specification [std::time::Instant::now] () -> std::time::Instant;
pub assume_specification [std::time::Instant::elapsed] (_0: &std::time::Instant) -> std::time::Duration;
pub assume_specification [std::time::Duration::as_secs_f64] (_0: &std::time::Duration) -> f64;

pub assume_specification<T: PartialEq> [<[T]>::contains] (s: &[T], x: &T) -> (r: bool)
    ensures <T as PartialEqSpec>::obeys_eq_spec() ==> (r <==> exists|i: int| 0 <= i < s@.len() && (#[trigger] s@[i]).eq_spec(x));
// a Vec of non-zero-sized elements holds at most isize::MAX elements (std allocation invariant; ASSUMED)
pub axiom fn axiom_vec_len_bound<T>(v: &Vec<T>) ensures v@.len() <= isize::MAX as nat;
pub assume_specification<T> [<[T]>::reverse] (s: &mut [T])
    ensures final(s)@ == old(s)@.reverse();

#[verifier::external_body]
pub fn vec_extend_skip<T>(a: &mut Vec<T>, b: Vec<T>, k: usize)   // rule R6a: a.extend(b.into_iter().skip(k))
    ensures final(a)@ == old(a)@ + b@.skip(k as int)
{ a.extend(b.into_iter().skip(k)) }
#[verifier::external_body]
pub fn vec_extend<T>(a: &mut Vec<T>, b: Vec<T>)                  // rule R6b: a.extend(b)
    ensures final(a)@ == old(a)@ + b@
{ a.extend(b) }
#[verifier::external_body]
pub fn vecdeque_from_vec(v: &Vec<usize>) -> (r: VecDeque<usize>)  // rule R7: v.clone().into_iter().collect()
    ensures r@ == v@
{ v.clone().into_iter().collect() }
#[verifier::external_body]
pub fn vec_of_false(n: usize) -> (r: Vec<bool>)                   // rule R11: vec![false; n]
    ensures r@.len() == n, forall|i: int| 0 <= i < n ==> r@[i] == false
{ vec![false; n] }

// ------------------------------------------------------------------ floating point
// f64 operators are uninterpreted functions in Verus.  Exec `a < b` is tied to
// `partial_cmp_spec` once `obeys_partial_cmp_spec` is known; exec `a + b` to `add_spec` etc.
pub open spec fn flt(a: f64, b: f64) -> bool { a.partial_cmp_spec(&b) == Some(Ordering::Less) }
pub open spec fn fgt(a: f64, b: f64) -> bool { a.partial_cmp_spec(&b) == Some(Ordering::Greater) }
pub open spec fn feq(a: f64, b: f64) -> bool { a.partial_cmp_spec(&b) == Some(Ordering::Equal) }
pub open spec fn fle(a: f64, b: f64) -> bool { flt(a, b) || feq(a, b) }
pub open spec fn fge(a: f64, b: f64) -> bool { fgt(a, b) || feq(a, b) }
pub open spec fn fnan(a: f64) -> bool { a.partial_cmp_spec(&a) is None }

pub uninterp spec fn spec_ceil_to_usize(x: f64) -> usize;
pub uninterp spec fn spec_usize_to_f64(x: usize) -> f64;
pub uninterp spec fn spec_f64_infinity() -> f64;
#[verifier::external_body]
pub fn f64_ceil_to_usize(x: f64) -> (r: usize)    // rule R1: (x).ceil() as usize   (saturating cast)
    ensures r == spec_ceil_to_usize(x)
{ x.ceil() as usize }
#[verifier::external_body]
pub fn usize_to_f64(x: usize) -> (r: f64)         // rule R2: x as f64
    ensures r == spec_usize_to_f64(x)
{ x as f64 }
#[verifier::external_body]
pub fn f64_infinity() -> (r: f64)                 // rule R4: f64::INFINITY
    ensures r == spec_f64_infinity()
{ f64::INFINITY }
pub uninterp spec fn spec_f64_const(name: int) -> f64;
#[verifier::external_body] #[allow(non_snake_case)] pub fn f64_const_EPSILON() -> (r: f64) ensures r == spec_f64_const(1) { f64::EPSILON }       // rule R20
#[verifier::external_body] #[allow(non_snake_case)] pub fn f64_const_MAX() -> (r: f64) ensures r == spec_f64_const(2) { f64::MAX }
#[verifier::external_body] #[allow(non_snake_case)] pub fn f64_const_MIN() -> (r: f64) ensures r == spec_f64_const(3) { f64::MIN }
#[verifier::external_body] #[allow(non_snake_case)] pub fn f64_const_MIN_POSITIVE() -> (r: f64) ensures r == spec_f64_const(4) { f64::MIN_POSITIVE }
#[verifier::external_body] #[allow(non_snake_case)] pub fn f64_const_NAN() -> (r: f64) ensures r == spec_f64_const(5) { f64::NAN }
#[verifier::external_body] #[allow(non_snake_case)] pub fn f64_const_NEG_INFINITY() -> (r: f64) ensures r == spec_f64_const(6) { f64::NEG_INFINITY }

// f64 library methods: deterministic but otherwise UNINTERPRETED (so that code using them is accepted by the front end and
// any obligation that depends on their value fails instead of the unit becoming undecided)
pub uninterp spec fn f64_fn1(name: int, x: f64) -> f64;
pub uninterp spec fn f64_fn2(name: int, x: f64, y: f64) -> f64;
pub uninterp spec fn f64_pred(name: int, x: f64) -> bool;
pub assume_specification [f64::is_finite] (x: f64) -> (r: bool) ensures r == f64_pred(1, x);
pub assume_specification [f64::is_nan] (x: f64) -> (r: bool) ensures r == f64_pred(2, x);
pub assume_specification [f64::is_infinite] (x: f64) -> (r: bool) ensures r == f64_pred(3, x);
pub assume_specification [f64::abs] (x: f64) -> (r: f64) ensures r == f64_fn1(1, x);
pub assume_specification [f64::sqrt] (x: f64) -> (r: f64) ensures r == f64_fn1(2, x);
pub assume_specification [f64::floor] (x: f64) -> (r: f64) ensures r == f64_fn1(3, x);
pub assume_specification [f64::ceil] (x: f64) -> (r: f64) ensures r == f64_fn1(4, x);
pub assume_specification [f64::round] (x: f64) -> (r: f64) ensures r == f64_fn1(5, x);
pub assume_specification [f64::min] (x: f64, y: f64) -> (r: f64) ensures r == f64_fn2(1, x, y);
pub assume_specification [f64::max] (x: f64, y: f64) -> (r: f64) ensures r == f64_fn2(2, x, y);
pub uninterp spec fn f64_fn3(name: int, x: f64, y: f64, z: f64) -> f64;
// f64::clamp panics when !(min <= max) (NaN bounds included): that is its precondition here
pub assume_specification [f64::clamp] (x: f64, lo: f64, hi: f64) -> (r: f64)
    requires fle(lo, hi),      //@ f64.clamp.min_le_max [C08]
    ensures r == f64_fn3(1, x, lo, hi);
pub assume_specification [f64::powi] (x: f64, n: i32) -> (r: f64) ensures r == f64_fn2(3, x, spec_usize_to_f64(n as usize));

pub mod fax {
use super::*;
// EXACT set: IEEE-754 truths (each audited by the Layer-0 Kani/SMT harness of the same name).
// totality: Rust float operators never trap
pub broadcast axiom fn ax_add_req(a: f64, b: f64) ensures #[trigger] a.add_req(b);
pub broadcast axiom fn ax_sub_req(a: f64, b: f64) ensures #[trigger] a.sub_req(b);
pub broadcast axiom fn ax_mul_req(a: f64, b: f64) ensures #[trigger] a.mul_req(b);
pub broadcast axiom fn ax_div_req(a: f64, b: f64) ensures #[trigger] a.div_req(b);
pub broadcast group f64_total { ax_add_req, ax_sub_req, ax_mul_req, ax_div_req }
// determinism: the result of an operator is a function of its operands
pub axiom fn ax_f64_obeys()
    ensures <f64 as AddSpec>::obeys_add_spec(), <f64 as SubSpec>::obeys_sub_spec(),
            <f64 as MulSpec>::obeys_mul_spec(), <f64 as DivSpec>::obeys_div_spec(),
            <f64 as PartialOrdSpec<f64>>::obeys_partial_cmp_spec();
pub axiom fn ax_duration_obeys() ensures <Duration as PartialOrdSpec<Duration>>::obeys_partial_cmp_spec();
// order facts that hold for all f64 including NaN and infinities
pub axiom fn ax_lt_irrefl(a: f64) ensures !flt(a, a);
pub axiom fn ax_lt_trans(a: f64, b: f64, c: f64) requires flt(a, b), flt(b, c) ensures flt(a, c);
pub axiom fn ax_lt_gt(a: f64, b: f64) ensures flt(a, b) <==> fgt(b, a);
pub axiom fn ax_le_lt_trans(a: f64, b: f64, c: f64) requires fle(a, b), flt(b, c) ensures flt(a, c);
pub axiom fn ax_lt_le_trans(a: f64, b: f64, c: f64) requires flt(a, b), fle(b, c) ensures flt(a, c);
pub axiom fn ax_le_trans(a: f64, b: f64, c: f64) requires fle(a, b), fle(b, c) ensures fle(a, c);
pub axiom fn ax_eq_sym(a: f64, b: f64) ensures feq(a, b) <==> feq(b, a);
pub axiom fn ax_total_non_nan(a: f64, b: f64) requires !fnan(a), !fnan(b) ensures flt(a, b) || feq(a, b) || fgt(a, b);
pub axiom fn ax_cmp_nan(a: f64, b: f64) requires fnan(a) || fnan(b) ensures a.partial_cmp_spec(&b) is None;
pub axiom fn ax_refl(a: f64) requires !fnan(a) ensures feq(a, a);
pub axiom fn ax_eq_bits(a: f64, b: f64) requires a == b, !fnan(a) ensures feq(a, b);
// 0 <= m < d  ==>  0 <= m/d <= 1         (steer parameter)
pub axiom fn ax_div_unit(m: f64, d: f64) requires fle(0.0f64, m), flt(m, d) ensures fle(0.0f64, m.div_spec(d)), fle(m.div_spec(d), 1.0f64);
// x >= 0, y >= 0  ==>  x + y >= x  and  x + y >= 0, not NaN       (cost accumulation)
pub axiom fn ax_add_mono(x: f64, y: f64) requires fle(0.0f64, x), fle(0.0f64, y) ensures fle(x, x.add_spec(y)), fle(0.0f64, x.add_spec(y));
pub axiom fn ax_zero_refl() ensures feq(0.0f64, 0.0f64), !fnan(0.0f64);
// an order-preserving rank of non-NaN f64 into int (f64 is a finite totally ordered set without NaN)
pub uninterp spec fn ford(a: f64) -> int;
pub axiom fn ax_ford(a: f64, b: f64) ensures flt(a, b) ==> ford(a) < ford(b), feq(a, b) ==> ford(a) == ford(b), ford(a) >= 0;
}
pub use fax::*;
broadcast use fax::f64_total;

pub mod ideal {
use super::*;
// IDEAL set: "machine arithmetic treated as mathematical".  FALSE on hardware by up to one ulp per
// operation and silent about NaN / overflow.  Used only by clauses tagged `ideal`
// (C03 gap bound, C05 step bound, C17 cost bound); listed as an assumption wherever used.
pub uninterp spec fn rv(x: f64) -> real;
pub axiom fn ax_rv_add(a: f64, b: f64) ensures rv(a.add_spec(b)) == rv(a) + rv(b);
pub axiom fn ax_rv_sub(a: f64, b: f64) ensures rv(a.sub_spec(b)) == rv(a) - rv(b);
pub axiom fn ax_rv_mul(a: f64, b: f64) ensures rv(a.mul_spec(b)) == rv(a) * rv(b);
pub axiom fn ax_rv_div(a: f64, b: f64) requires rv(b) != 0real ensures rv(a.div_spec(b)) == rv(a) / rv(b);
pub axiom fn ax_rv_cmp(a: f64, b: f64) ensures flt(a, b) <==> rv(a) < rv(b), fgt(a, b) <==> rv(a) > rv(b), feq(a, b) <==> rv(a) == rv(b);
pub axiom fn ax_rv_usize(n: usize) ensures rv(spec_usize_to_f64(n)) == n as real;
pub axiom fn ax_rv_consts() ensures rv(0.1f64) == 0.1real, rv(0.0f64) == 0real, rv(1.0f64) == 1real;
// ceil: n = ceil(x) as usize, for 0 <= x (no saturation in the ideal world)
pub axiom fn ax_rv_ceil(x: f64) requires rv(x) >= 0real ensures (spec_ceil_to_usize(x) as real) >= rv(x), (spec_ceil_to_usize(x) as real) < rv(x) + 1real;
}
pub use ideal::*;

// ------------------------------------------------------------------ oxmpl error enums (mirrors of oxmpl/src/base/error.rs; conformance-checked)
#[derive(Debug)]
pub enum StateSamplingError { UnboundedDimension { dimension_index: usize }, ZeroVolume, GoalRegionUnsatisfiable, GoalSamplingTimeout { attempts: u32 } }
#[derive(Debug)]
pub enum PlanningError { Timeout, NoSolutionFound, PlannerUninitialised, InvalidStartState, UnsampledStateSpace }

// ------------------------------------------------------------------ rand stubs (trusted)
// Ghost provenance: `det()` is true for a generator created by `seed_from_u64` and preserved by
// every draw; false for OS-seeded and thread generators.  (C07)
// `seeded_mode()` is an arbitrary boolean constant: "this is a world in which planners are built
// with a seed".  Every draw REQUIRES a seed-derived generator in that world, so drawing from any
// other generator is a failed precondition at the draw site.
pub uninterp spec fn seeded_mode() -> bool;
pub trait Rng {
    spec fn det(&self) -> bool;
    fn random_bool(&mut self, p: f64) -> (r: bool)
        requires
            fle(0.0f64, p), fle(p, 1.0f64),        //@ rng.random_bool.range [C08]
            seeded_mode() ==> old(self).det(),     //@ rng.random_bool.det [C07]
        ensures final(self).det() == old(self).det(),
            feq(p, 0.0f64) ==> !r,
            feq(p, 1.0f64) ==> r;
}
#[verifier::external_body]
pub struct StdRng { _p: u8 }
impl Rng for StdRng {
    uninterp spec fn det(&self) -> bool;
    #[verifier::external_body]
    fn random_bool(&mut self, p: f64) -> (r: bool) { unimplemented!() }
}
impl<R: Rng> Rng for Box<R> {
    open spec fn det(&self) -> bool { (**self).det() }
    #[verifier::external_body]
    fn random_bool(&mut self, p: f64) -> (r: bool) { unimplemented!() }
}
impl StdRng {
    #[verifier::external_body]
    pub fn seed_from_u64(s: u64) -> (r: StdRng) ensures r.det() { unimplemented!() }
    #[verifier::external_body]
    pub fn from_os_rng() -> (r: StdRng) ensures !r.det() { unimplemented!() }
}
#[verifier::external_body]
pub struct ThreadRng { _p: u8 }
impl Rng for ThreadRng {
    uninterp spec fn det(&self) -> bool;
    #[verifier::external_body]
    fn random_bool(&mut self, p: f64) -> (r: bool) { unimplemented!() }
}
#[verifier::external_body]
pub fn rand_rng() -> (r: ThreadRng) ensures !r.det() { unimplemented!() }   // rule R10: rand::rng()

// ------------------------------------------------------------------ oxmpl trait contracts (assumptions on user-supplied parameters)
pub trait State {
}
// faithful Clone for user state types (assumption; explicit calls)
pub axiom fn axiom_state_clone<S: State + Clone>(a: S, b: S) requires cloned(a, b) ensures a == b;

pub trait StateSpace {
    type StateType: State;
    spec fn dist_spec(&self, a: &Self::StateType, b: &Self::StateType) -> f64;
    spec fn interp_spec(&self, a: &Self::StateType, b: &Self::StateType, t: f64) -> Self::StateType;
    spec fn lvsl_spec(&self) -> f64;
    spec fn in_bounds_spec(&self, a: &Self::StateType) -> bool;
    fn distance(&self, state1: &Self::StateType, state2: &Self::StateType) -> (r: f64)
        ensures r == self.dist_spec(state1, state2);
    fn interpolate(&self, from: &Self::StateType, to: &Self::StateType, t: f64, state: &mut Self::StateType)
        ensures *final(state) == self.interp_spec(from, to, t);
    fn enforce_bounds(&self, state: &mut Self::StateType);
    fn satisfies_bounds(&self, state: &Self::StateType) -> (r: bool)
        ensures r == self.in_bounds_spec(state);
    spec fn sample_set(&self, s: &Self::StateType) -> bool;      // the states sample_uniform can return
    fn sample_uniform<R: Rng>(&self, rng: &mut R) -> (r: Result<Self::StateType, StateSamplingError>)
        requires seeded_mode() ==> old(rng).det(),                  //@ space.sample_uniform.det [C07]
        ensures final(rng).det() == old(rng).det(),
            r is Ok ==> self.sample_set(&r->Ok_0);
    fn get_longest_valid_segment_length(&self) -> (r: f64)
        ensures r == self.lvsl_spec();
}

pub trait Goal<S: State> {
    spec fn sat(&self, s: &S) -> bool;
    fn is_satisfied(&self, state: &S) -> (r: bool) ensures r == self.sat(state);
}
pub trait GoalRegion<S: State>: Goal<S> {
    fn distance_goal(&self, state: &S) -> f64;
}
pub trait GoalSampleableRegion<S: State>: GoalRegion<S> {
    // documented contract: a returned sample satisfies the goal (ASSUMED; user code)
    spec fn goal_sample_set(&self, s: &S) -> bool;                // the states sample_goal can return
    fn sample_goal<R: Rng>(&self, rng: &mut R) -> (r: Result<S, StateSamplingError>)
        requires seeded_mode() ==> old(rng).det(),                  //@ goal.sample_goal.det [C07]
        ensures final(rng).det() == old(rng).det(),
            r is Ok ==> self.sat(&r->Ok_0),
            r is Ok ==> self.goal_sample_set(&r->Ok_0);
}

pub trait StateValidityChecker<S: State> {
    spec fn valid(&self, s: &S) -> bool;
    fn is_valid(&self, state: &S) -> (r: bool) ensures r == self.valid(state);
}

#[verifier::reject_recursive_types(S)]
#[verifier::reject_recursive_types(SP)]
#[verifier::reject_recursive_types(G)]
pub struct ProblemDefinition<S: State, SP: StateSpace<StateType = S>, G: Goal<S>> {
    pub space: Arc<SP>,
    pub start_states: Vec<S>,
    pub goal: Arc<G>,
}

pub struct Path<S: State>(pub Vec<S>);

pub struct PlannerConfig { pub seed: Option<u64> }

// ------------------------------------------------------------------ shared specification vocabulary
pub open spec fn t_of(i: usize, n: usize) -> f64 { spec_usize_to_f64(i).div_spec(spec_usize_to_f64(n)) }

/// number of sub-segments the real `check_motion` uses: ceil(d / (lvsl * 0.1)) as usize
pub open spec fn num_steps_spec<SP: StateSpace>(space: &SP, from: &SP::StateType, to: &SP::StateType) -> usize {
    spec_ceil_to_usize(space.dist_spec(from, to).div_spec(space.lvsl_spec().mul_spec(0.1f64)))
}

/// exact functional characterisation of a `true` result of `check_motion(from, to)`:
/// the checker accepted interp(from,to,i/n) for every i in 1..=n (when n > 1) and accepted `to` itself.
#[verifier::opaque]
pub open spec fn motion_checked<SP: StateSpace>(space: &SP, vc: &dyn StateValidityChecker<SP::StateType>, from: &SP::StateType, to: &SP::StateType) -> bool {
    let n = num_steps_spec(space, from, to);
    &&& (n > 1 ==> forall|i: usize| 1 <= i <= n ==> vc.valid(&#[trigger] space.interp_spec(from, to, t_of(i, n))))
    &&& vc.valid(to)
}
pub open spec fn seg_checked<SP: StateSpace>(space: &SP, vc: &dyn StateValidityChecker<SP::StateType>, a: &SP::StateType, b: &SP::StateType) -> bool {
    motion_checked(space, vc, a, b) || motion_checked(space, vc, b, a)
}

// premises on the space (spec predicates, never axioms); decided per concrete space by Engine K
#[verifier::opaque]
pub open spec fn metric_ok<SP: StateSpace>(sp: &SP) -> bool {
    forall|a: &SP::StateType, b: &SP::StateType| {
        &&& fle(0.0f64, #[trigger] sp.dist_spec(a, b))
        &&& sp.dist_spec(a, b) == sp.dist_spec(b, a)
    }
}
#[verifier::opaque]
pub open spec fn convex_ok<SP: StateSpace>(sp: &SP) -> bool {
    forall|a: &SP::StateType, b: &SP::StateType, t: f64|
        sp.in_bounds_spec(a) && sp.in_bounds_spec(b) && fle(0.0f64, t) && fle(t, 1.0f64)
            ==> sp.in_bounds_spec(&#[trigger] sp.interp_spec(a, b, t))
}
#[verifier::opaque]
pub open spec fn interp_speed_ok<SP: StateSpace>(sp: &SP) -> bool {
    &&& forall|a: &SP::StateType, b: &SP::StateType| rv(#[trigger] sp.dist_spec(a, b)) >= 0real
    &&& forall|a: &SP::StateType, b: &SP::StateType, s: f64, t: f64| 0real <= rv(s) <= rv(t) <= 1real
            ==> rv(#[trigger] sp.dist_spec(&sp.interp_spec(a, b, s), &sp.interp_spec(a, b, t))) == (rv(t) - rv(s)) * rv(sp.dist_spec(a, b))
    &&& forall|a: &SP::StateType, b: &SP::StateType, t: f64| 0real <= rv(t) <= 1real
            ==> rv(#[trigger] sp.dist_spec(a, &sp.interp_spec(a, b, t))) == rv(t) * rv(sp.dist_spec(a, b))
    &&& forall|a: &SP::StateType, b: &SP::StateType, t: f64| 0real <= rv(t) <= 1real
            ==> rv(#[trigger] sp.dist_spec(&sp.interp_spec(a, b, t), b)) == (1real - rv(t)) * rv(sp.dist_spec(a, b))
}

/// the steering rule: the sample itself when within `max`, otherwise the point at parameter max/d
pub open spec fn steer_spec<S: State, SP: StateSpace<StateType = S>>(sp: &SP, near: &S, q: &S, max: f64) -> S {
    let d = sp.dist_spec(near, q);
    if fgt(d, max) { sp.interp_spec(near, q, max.div_spec(d)) } else { *q }
}

// ------------------------------------------------------------------ Planner trait: property-level contracts
#[verifier::opaque]
pub open spec fn space_samples_in_bounds<SP: StateSpace>(sp: &SP) -> bool {
    forall|s: &SP::StateType| #[trigger] sp.sample_set(s) ==> sp.in_bounds_spec(s)
}
#[verifier::opaque]
pub open spec fn samples_in_bounds<S: State, SP: StateSpace<StateType = S>, G: GoalSampleableRegion<S>>(pd: &ProblemDefinition<S, SP, G>) -> bool {
    &&& space_samples_in_bounds(&*pd.space)
    &&& forall|s: &S| #[trigger] pd.goal.goal_sample_set(s) ==> pd.space.in_bounds_spec(s)
}

pub trait Planner<S: State, SP: StateSpace<StateType = S>, G: Goal<S>> {
    spec fn p_wf(&self) -> bool;           // typestate + tree/roadmap shape + root is the start state
    spec fn p_valid(&self) -> bool;        // every stored non-root state was accepted by the checker
    spec fn p_checked(&self) -> bool;      // every stored edge was motion-checked
    spec fn p_rng_ok(&self) -> bool;       // seeded_mode() ==> a seed-derived generator is stored
    spec fn p_is_setup(&self) -> bool;
    spec fn p_pd(&self) -> Arc<ProblemDefinition<S, SP, G>>;
    spec fn p_vc(&self) -> Arc<dyn StateValidityChecker<S>>;
    spec fn p_edges_le(&self, m: real) -> bool;   // every stored edge has ideal length <= m
    spec fn p_step_limit(&self) -> real;          // the planner's configured extension distance
    spec fn p_step_params_ok(&self) -> bool;      // parameters are usable (e.g. max_distance >= 0)
    spec fn p_in_bounds(&self) -> bool;           // every stored state satisfies the space bounds
    spec fn p_space_ok(&self, sp: &SP) -> bool;   // planner-specific premise on the space (RRT*: distances are >= 0 and never NaN; others: true)

    fn setup(&mut self, problem_def: Arc<ProblemDefinition<S, SP, G>>, validity_checker: Arc<dyn StateValidityChecker<S>>)
        requires old(self).p_wf(), old(self).p_valid(), old(self).p_checked(), old(self).p_rng_ok(),
            old(self).p_space_ok(&*problem_def.space),
        ensures
            final(self).p_wf(),                                         //@ setup.wf [C02,C08,C15]
            final(self).p_valid(),                                      //@ setup.valid [C01,C15]
            final(self).p_checked(),                                    //@ setup.checked [C03,C15]
            final(self).p_rng_ok(),                                     //@ setup.rng [C07]
            final(self).p_is_setup(),                                   //@ setup.is_setup [C02,C08]
            final(self).p_pd() == problem_def,                          //@ setup.pd [C02,C08]
            final(self).p_vc() == validity_checker,                     //@ setup.vc [C01,C08]
            forall|m: real| m >= 0real ==> final(self).p_edges_le(m),   //@ setup.edges [C05,C15]
            ;

    fn solve(&mut self, timeout: Duration) -> (r: Result<Path<S>, PlanningError>)
        requires old(self).p_wf(), old(self).p_valid(), old(self).p_checked(), old(self).p_rng_ok(),
        ensures
            final(self).p_wf(),                                                                       //@ solve.wf [C02,C08,C15]
            final(self).p_valid(),                                                                    //@ solve.valid [C01,C15]
            final(self).p_checked(),                                                                  //@ solve.checked [C03,C15]
            final(self).p_rng_ok(),                                                                   //@ solve.rng [C07]
            final(self).p_is_setup() == old(self).p_is_setup(),                                       //@ solve.frame_setup [C08]
            !old(self).p_is_setup() ==> r == Err::<Path<S>, PlanningError>(PlanningError::PlannerUninitialised),   //@ solve.uninit [C08]
            old(self).p_is_setup() ==> final(self).p_pd() == old(self).p_pd() && final(self).p_vc() == old(self).p_vc(),   //@ solve.frame_pd [C02,C08]
            r is Ok ==> old(self).p_vc().valid(&old(self).p_pd().start_states[0]),                    //@ solve.start_valid [C01]
            r is Ok ==> {
                let p = r->Ok_0.0;
                let pd = old(self).p_pd();
                let vc = old(self).p_vc();
                &&& p.len() >= 1                                                                      //@ solve.nonempty [C02]
                &&& pd.start_states.len() >= 1 && p[0] == pd.start_states[0]                          //@ solve.first_is_start [C02]
                &&& pd.goal.sat(&p[p.len() - 1])                                                      //@ solve.last_in_goal [C02]
                &&& forall|k: int| 0 <= k < p.len() ==> vc.valid(&#[trigger] p[k])                    //@ solve.path_valid [C01]
                &&& forall|k: int| #![trigger p[k]] 0 <= k < p.len() - 1 ==> seg_checked(&*pd.space, &*vc, &p[k], &p[k + 1])   //@ solve.path_checked [C03]
            },
            ;
}

/// C04 premises: convex bounds, samples in bounds, usable step
pub open spec fn in_bounds_premises<S: State, SP: StateSpace<StateType = S>, G: GoalSampleableRegion<S>>(pd: &ProblemDefinition<S, SP, G>, max: f64) -> bool {
    &&& convex_ok(&*pd.space)
    &&& samples_in_bounds(pd)
    &&& fle(0.0f64, max)
}
/// C05 (IDEAL): the steered state is at most `max` from the near state
pub proof fn lemma_steer_len<S: State, SP: StateSpace<StateType = S>>(sp: &SP, near: &S, q: &S, max: f64)
    requires interp_speed_ok(sp), fle(0.0f64, max)
    ensures rv(sp.dist_spec(near, &steer_spec(sp, near, q, max))) <= rv(max)
{
    reveal(interp_speed_ok);
    let d = sp.dist_spec(near, q);
    ax_rv_cmp(d, max); ax_rv_cmp(0.0f64, max); ax_rv_consts();
    if fgt(d, max) {
        assert(rv(d) > rv(max) >= 0real);
        ax_rv_div(max, d);
        let t = max.div_spec(d);
        assert(rv(t) == rv(max) / rv(d));
        assert(0real <= rv(t) <= 1real && rv(t) * rv(d) == rv(max)) by(nonlinear_arith)
            requires rv(t) == rv(max) / rv(d), rv(d) > rv(max), rv(max) >= 0real;
        assert(rv(sp.dist_spec(near, &sp.interp_spec(near, q, t))) == rv(t) * rv(sp.dist_spec(near, q)));
    }
}

/// a checked motion ends in a state the checker accepted
pub proof fn lemma_mc_valid<SP: StateSpace>(sp: &SP, vc: &dyn StateValidityChecker<SP::StateType>, a: &SP::StateType, b: &SP::StateType)
    requires motion_checked(sp, vc, a, b)
    ensures vc.valid(b)
{ reveal(motion_checked); }

/// C04: the steered state stays in bounds (convexity premise; steer parameter in [0,1] by EXACT ax_div_unit)
pub proof fn lemma_steer_in_bounds<S: State, SP: StateSpace<StateType = S>>(sp: &SP, near: &S, q: &S, max: f64)
    requires convex_ok(sp), fle(0.0f64, max), sp.in_bounds_spec(near), sp.in_bounds_spec(q)
    ensures sp.in_bounds_spec(&steer_spec(sp, near, q, max))
{
    reveal(convex_ok);
    let d = sp.dist_spec(near, q);
    if fgt(d, max) {
        ax_lt_gt(max, d);
        ax_div_unit(max, d);
    }
}
pub proof fn lemma_sample_in_bounds<S: State, SP: StateSpace<StateType = S>, G: GoalSampleableRegion<S>>(pd: &ProblemDefinition<S, SP, G>, q: &S)
    requires samples_in_bounds(pd), pd.space.sample_set(q) || pd.goal.goal_sample_set(q)
    ensures pd.space.in_bounds_spec(q)
{ reveal(samples_in_bounds); reveal(space_samples_in_bounds); }
pub proof fn lemma_space_sample_in_bounds<SP: StateSpace>(sp: &SP, q: &SP::StateType)
    requires space_samples_in_bounds(sp), sp.sample_set(q)
    ensures sp.in_bounds_spec(q)
{ reveal(space_samples_in_bounds); }
