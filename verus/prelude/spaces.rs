// PRELUDE part 4 (trusted text) for the state-space units: the type-erased component interface of
// oxmpl/src/base/spaces/any_state_space.rs as a contract (each method is a deterministic function of its arguments),
// and the compound state type.  The blanket `impl<T: StateSpace> AnyStateSpace for T` (downcasts) is covered by Engine K.
pub trait AnyStateSpace {
    spec fn dyn_dist(&self, a: &dyn State, b: &dyn State) -> f64;
    spec fn dyn_in_bounds(&self, a: &dyn State) -> bool;
    spec fn dyn_lvsl(&self) -> f64;
    spec fn dyn_accepts(&self, a: &dyn State) -> bool;      // the state has this component space's concrete type
    fn distance_dyn(&self, state1: &dyn State, state2: &dyn State) -> (r: f64)
        requires self.dyn_accepts(state1), self.dyn_accepts(state2),          //@ any.distance_dyn.typed [C13]
        ensures r == self.dyn_dist(state1, state2);
    fn satisfies_bounds_dyn(&self, state: &dyn State) -> (r: bool)
        requires self.dyn_accepts(state),                                      //@ any.satisfies_bounds_dyn.typed [C13]
        ensures r == self.dyn_in_bounds(state);
    fn get_longest_valid_segment_length_dyn(&self) -> (r: f64)
        ensures r == self.dyn_lvsl();
    /// `out` is the component space's interpolation result / enforced version (relations, because `dyn State` is unsized)
    spec fn dyn_interp_rel(&self, from: &dyn State, to: &dyn State, t: f64, out: &dyn State) -> bool;
    spec fn dyn_enforce_rel(&self, before: &dyn State, after: &dyn State) -> bool;
    fn interpolate_dyn(&self, from: &dyn State, to: &dyn State, t: f64, state: &mut dyn State)
        requires self.dyn_accepts(from), self.dyn_accepts(to), self.dyn_accepts(old(state)),     //@ any.interpolate_dyn.typed [C13]
        ensures self.dyn_interp_rel(from, to, t, final(state)), self.dyn_accepts(final(state));
    fn enforce_bounds_dyn(&self, state: &mut dyn State)
        requires self.dyn_accepts(old(state)),                                                    //@ any.enforce_bounds_dyn.typed [C13]
        ensures self.dyn_enforce_rel(old(state), final(state)), self.dyn_accepts(final(state));
}
pub struct CompoundState {
    pub components: Vec<Box<dyn State>>,
}
