// PRELUDE part 4 (trusted text) for the state-space units: the type-erased component interface of
// oxmpl/src/base/spaces/any_state_space.rs as a contract (each method is a deterministic function of its arguments),
// and the compound state type.  The blanket `impl<T: StateSpace> AnyStateSpace for T` (downcasts) is covered by Engine K.
pub trait AnyStateSpace {
    spec fn dyn_space_ok(&self) -> bool;                    // the component space's own well-formedness
    spec fn dyn_dist(&self, a: &dyn State, b: &dyn State) -> f64;
    spec fn dyn_in_bounds(&self, a: &dyn State) -> bool;
    spec fn dyn_lvsl(&self) -> f64;
    spec fn dyn_accepts(&self, a: &dyn State) -> bool;      // the state has this component space's concrete type
    fn distance_dyn(&self, state1: &dyn State, state2: &dyn State) -> (r: f64)
        requires self.dyn_accepts(state1), self.dyn_accepts(state2),          //@ any.distance_dyn.typed [C13]
        ensures r == self.dyn_dist(state1, state2);                          //@ any.distance_dyn.result [C13,C09]
    fn satisfies_bounds_dyn(&self, state: &dyn State) -> (r: bool)
        requires self.dyn_accepts(state),                                      //@ any.satisfies_bounds_dyn.typed [C13]
        ensures r == self.dyn_in_bounds(state);                               //@ any.satisfies_bounds_dyn.result [C13]
    fn get_longest_valid_segment_length_dyn(&self) -> (r: f64)
        requires self.dyn_space_ok(),                                          //@ any.lvsl_dyn.space_ok [C13]
        ensures r == self.dyn_lvsl();                                         //@ any.lvsl_dyn.result [C13]
    spec fn dyn_sample_set(&self, a: &dyn State) -> bool;   // the states the component's sampler can return
    fn sample_uniform_dyn(&self, rng: &mut dyn RngCore) -> (r: Result<Box<dyn State>, StateSamplingError>)
        ensures r is Ok ==> self.dyn_sample_set(&*r.unwrap()) && self.dyn_accepts(&*r.unwrap());
    /// `out` is the component space's interpolation result / enforced version (relations, because `dyn State` is unsized)
    spec fn dyn_interp_rel(&self, from: &dyn State, to: &dyn State, t: f64, out: &dyn State) -> bool;
    spec fn dyn_enforce_rel(&self, before: &dyn State, after: &dyn State) -> bool;
    fn interpolate_dyn(&self, from: &dyn State, to: &dyn State, t: f64, state: &mut dyn State)
        requires self.dyn_accepts(from), self.dyn_accepts(to), self.dyn_accepts(old(state)),     //@ any.interpolate_dyn.typed [C13]
        ensures self.dyn_interp_rel(from, to, t, final(state)), self.dyn_accepts(final(state));     //@ any.interpolate_dyn.result [C13,C10]
    fn enforce_bounds_dyn(&self, state: &mut dyn State)
        requires self.dyn_accepts(old(state)),                                                    //@ any.enforce_bounds_dyn.typed [C13]
        ensures self.dyn_enforce_rel(old(state), final(state)), self.dyn_accepts(final(state));     //@ any.enforce_bounds_dyn.result [C13,C11]
}
pub struct CompoundState {
    pub components: Vec<Box<dyn State>>,
}

pub struct SE2State(pub CompoundState);
pub struct SE3State(pub CompoundState);
impl State for CompoundState { }
impl State for SE2State { }
impl State for SE3State { }
pub trait RngCore { }
#[derive(Debug)]
pub enum StateSpaceError { DimensionMismatch { expected: usize, found: usize }, InvalidBound { lower: f64, upper: f64 }, ZeroDimensionUnbounded, InvalidAngularDistance { lower: f64 } }

// ---- std::any::Any downcasts of state objects as a spec function (TRUSTED): `dc::<S>(s)` is Some exactly when the object
// behind `s` has concrete type S, and then it is that object
pub uninterp spec fn dc<S>(s: &dyn State) -> Option<S>;
/// unit rule RD1: `(x as &dyn Any).downcast_ref::<S>()`
#[verifier::external_body]
pub fn downcast_state_ref<'a, S: State + 'static>(s: &'a dyn State) -> (r: Option<&'a S>)
    ensures match r { Some(x) => dc::<S>(s) == Some(*x), None => dc::<S>(s) is None },
{ unimplemented!() }
/// unit rule RD2: `(x as &mut dyn Any).downcast_mut::<S>().unwrap()`; the panic of `unwrap` is the precondition
#[verifier::external_body]
pub fn downcast_state_mut_unwrap<'a, S: State + 'static>(s: &'a mut dyn State) -> (r: &'a mut S)
    requires dc::<S>(old(s)) is Some,                                           //@ any.downcast_mut.is_some [C13,C08]
    ensures *r == dc::<S>(old(s)).unwrap(), dc::<S>(final(s)) == Some(*final(r)),
{ unimplemented!() }
/// the unsizing coercion `&CompoundState -> &dyn State` (done by the compiler in SE2/SE3 spaces) and its downcast
pub open spec fn up_compound(c: &CompoundState) -> &dyn State { c }
#[verifier::external_body]
pub proof fn ax_dc_compound(c: &CompoundState)
    ensures dc::<CompoundState>(up_compound(c)) == Some(*c),
{ }
/// unit rule RD3: `&mut x.0` passed where `&mut dyn State` is expected (Verus does not support the `&mut` unsizing coercion)
#[verifier::external_body]
pub fn compound_as_dyn_mut<'a>(s: &'a mut CompoundState) -> (r: &'a mut dyn State)
    ensures dc::<CompoundState>(r) == Some(*old(s)), dc::<CompoundState>(final(r)) == Some(*final(s)),
{ s }
/// unit rule RD4: `rng` (a `&mut R`, R: Rng) passed where `&mut dyn RngCore` is expected (Verus does not support the `&mut`
/// unsizing coercion); the generator's seed provenance is not changed by being used through the object
#[verifier::external_body]
pub fn rng_as_dyn<'a, R: Rng>(r: &'a mut R) -> (d: &'a mut dyn RngCore)
    ensures final(r).det() == old(r).det(),
{ unimplemented!() }
