// PRELUDE part 2 (trusted text): stubs for the pyo3 API surface used by oxmpl-py's callback wrappers and for the
// concrete oxmpl state types.  The specs say ONLY: a Python call either returns an object or raises
// (`call_outcome` / `method_outcome` is Some / None), `extract::<T>` succeeds exactly when the object converts
// (`FromPy::from_py` is Some), and allocation of a wrapper object may fail (`py_new_ok`).  Everything is ASSUMED.
use std::rc::Rc;
use std::marker::PhantomData;

#[verifier::external_body]
pub struct PyObject { _p: u8 }
#[verifier::external_body]
pub struct PyErr { _p: u8 }
#[derive(Clone, Copy)]
#[verifier::external_body]
pub struct Python { _p: u8 }
pub type PyResult<T> = Result<T, PyErr>;
#[verifier::external_body]
#[verifier::reject_recursive_types(T)]
pub struct Py<T> { _p: PhantomData<T> }

pub uninterp spec fn py_new_ok<T>(w: T) -> bool;
pub uninterp spec fn py_view<T>(p: Py<T>) -> T;
/// outcome of calling the Python callable `cb` with argument `a`: Some(returned object) or None (an exception was raised)
pub uninterp spec fn call_outcome<A>(cb: &PyObject, a: A) -> Option<PyObject>;
/// outcome of calling method `name` of `obj` (with / without one argument)
pub uninterp spec fn method_outcome1<A>(obj: &PyObject, name: &str, a: A) -> Option<PyObject>;
pub uninterp spec fn method_outcome0(obj: &PyObject, name: &str) -> Option<PyObject>;

pub trait FromPy: Sized {
    spec fn from_py(o: &PyObject) -> Option<Self>;    // None: the object is not of this type (extract raises TypeError)
}
impl FromPy for bool { uninterp spec fn from_py(o: &PyObject) -> Option<bool>; }
impl FromPy for f64 { uninterp spec fn from_py(o: &PyObject) -> Option<f64>; }

impl<T> Py<T> {
    #[verifier::external_body]
    pub fn new(py: Python, v: T) -> (r: PyResult<Py<T>>)
        ensures (r is Ok) == py_new_ok(v), r is Ok ==> py_view(r->Ok_0) == v
    { unimplemented!() }
}
impl PyObject {
    #[verifier::external_body]
    pub fn call1<A>(&self, py: Python, args: (Py<A>,)) -> (r: PyResult<PyObject>)
        ensures (r is Ok) == (call_outcome(self, py_view(args.0)) is Some), r is Ok ==> r->Ok_0 == call_outcome(self, py_view(args.0))->Some_0
    { unimplemented!() }
    #[verifier::external_body]
    pub fn call_method1<A>(&self, py: Python, name: &str, args: (A,)) -> (r: PyResult<PyObject>)
        ensures (r is Ok) == (method_outcome1(self, name, args.0) is Some), r is Ok ==> r->Ok_0 == method_outcome1(self, name, args.0)->Some_0
    { unimplemented!() }
    #[verifier::external_body]
    pub fn call_method0(&self, py: Python, name: &str) -> (r: PyResult<PyObject>)
        ensures (r is Ok) == (method_outcome0(self, name) is Some), r is Ok ==> r->Ok_0 == method_outcome0(self, name)->Some_0
    { unimplemented!() }
    #[verifier::external_body]
    pub fn extract<T: FromPy>(&self, py: Python) -> (r: PyResult<T>)
        ensures (r is Ok) == (T::from_py(self) is Some), r is Ok ==> r->Ok_0 == T::from_py(self)->Some_0
    { unimplemented!() }
    #[verifier::external_body]
    pub fn clone_ref(&self, py: Python) -> (r: PyObject)
        ensures r == *self
    { unimplemented!() }
}
impl PyErr {
    #[verifier::external_body]
    pub fn print(&self, py: Python) { }
}
impl Python {
    #[verifier::external_body]
    pub fn with_gil<R, F: FnOnce(Python) -> R>(f: F) -> (r: R)
        requires forall|py: Python| f.requires((py,)),
        ensures exists|py: Python| f.ensures((py,), r),
    { unimplemented!() }
}

// Result combinators used by goal.rs (std; specified here because vstd has no spec for them)
pub assume_specification<T, E, U, F: FnOnce(T) -> Result<U, E>> [Result::<T, E>::and_then] (r: Result<T, E>, f: F) -> (out: Result<U, E>)
    requires r is Ok ==> f.requires((r->Ok_0,)),
    ensures r is Ok ==> f.ensures((r->Ok_0,), out), r is Err ==> out is Err && out->Err_0 == r->Err_0;
pub assume_specification<T, E> [Result::<T, E>::unwrap_or] (r: Result<T, E>, d: T) -> (out: T)
    ensures out == (if r is Ok { r->Ok_0 } else { d });
// the six concrete oxmpl state types (opaque here) and their Python wrapper structs
pub mod state { pub use super::State; }
pub mod rand { pub use super::Rng; }
pub struct OxmplRealVectorState { pub values: Vec<f64> }      // the public fields of the real struct (a wrapper may read them)
impl State for OxmplRealVectorState { }
impl Clone for OxmplRealVectorState {
    #[verifier::external_body]
    fn clone(&self) -> (r: Self) ensures r == *self { unimplemented!() }     // #[derive(Clone)] on plain data: faithful (ASSUMED)
}
pub struct OxmplSO2State { pub value: f64 }
impl State for OxmplSO2State { }
impl Clone for OxmplSO2State {
    #[verifier::external_body]
    fn clone(&self) -> (r: Self) ensures r == *self { unimplemented!() }     // #[derive(Clone)] on plain data: faithful (ASSUMED)
}
pub struct OxmplSO3State { pub x: f64, pub y: f64, pub z: f64, pub w: f64 }
impl State for OxmplSO3State { }
impl Clone for OxmplSO3State {
    #[verifier::external_body]
    fn clone(&self) -> (r: Self) ensures r == *self { unimplemented!() }     // #[derive(Clone)] on plain data: faithful (ASSUMED)
}
#[verifier::external_body]
pub struct OxmplCompoundState { _p: u8 }
impl State for OxmplCompoundState { }
impl Clone for OxmplCompoundState {
    #[verifier::external_body]
    fn clone(&self) -> (r: Self) ensures r == *self { unimplemented!() }     // #[derive(Clone)] on plain data: faithful (ASSUMED)
}
#[verifier::external_body]
pub struct OxmplSE2State { _p: u8 }
impl State for OxmplSE2State { }
impl Clone for OxmplSE2State {
    #[verifier::external_body]
    fn clone(&self) -> (r: Self) ensures r == *self { unimplemented!() }     // #[derive(Clone)] on plain data: faithful (ASSUMED)
}
#[verifier::external_body]
pub struct OxmplSE3State { _p: u8 }
impl State for OxmplSE3State { }
impl Clone for OxmplSE3State {
    #[verifier::external_body]
    fn clone(&self) -> (r: Self) ensures r == *self { unimplemented!() }     // #[derive(Clone)] on plain data: faithful (ASSUMED)
}
pub struct PyRealVectorState(pub Arc<OxmplRealVectorState>);
pub struct PySO2State(pub Arc<OxmplSO2State>);
pub struct PySO3State(pub Arc<OxmplSO3State>);
pub struct PyCompoundState(pub Rc<OxmplCompoundState>);
pub struct PySE2State(pub Rc<OxmplSE2State>);
pub struct PySE3State(pub Rc<OxmplSE3State>);

/// C20: the fail-closed reading of a Python predicate outcome: true only if the call returned an object that IS the bool True
pub open spec fn fail_closed(outcome: Option<PyObject>) -> bool {
    match outcome { Some(o) => match <bool as FromPy>::from_py(&o) { Some(b) => b, None => false }, None => false }
}

/// conversion trait of oxmpl-py (py_state_convert.rs); mirrored signature plus spec views
pub trait PyStateConvert: Sized {
    type Wrapper: FromPy;
    spec fn to_wrapper_spec(&self) -> Self::Wrapper;
    fn to_py_wrapper(&self) -> (w: Self::Wrapper) ensures w == self.to_wrapper_spec();
    spec fn from_wrapper_spec(w: Self::Wrapper) -> Self;
    fn from_py_wrapper(wrapper: Self::Wrapper) -> (r: Self) ensures r == Self::from_wrapper_spec(wrapper);
}
/// fail-closed readings used by PyGoal
pub open spec fn fail_inf(outcome: Option<PyObject>) -> f64 {
    match outcome { Some(o) => match <f64 as FromPy>::from_py(&o) { Some(v) => v, None => spec_f64_infinity() }, None => spec_f64_infinity() }
}
