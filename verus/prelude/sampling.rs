// PRELUDE part (trusted text): rand's `random_range(lo..hi)` on f64 as a DETERMINISTIC FUNCTION OF THE GENERATOR STATE.
// `draw_f64(g, lo, hi)` is the value returned from state g, `after_draw(g)` the state afterwards.  ASSUMED (rand's contract):
// lo <= v < hi for finite lo < hi with finite width (otherwise rand panics: precondition), and -- not expressible here, used
// only in the explanation of C14 -- v is uniform on [lo, hi) and successive draws are independent.
pub uninterp spec fn draw_f64<R>(g: R, lo: f64, hi: f64) -> f64;
pub uninterp spec fn after_draw<R>(g: R) -> R;
/// the generator state after k draws
pub open spec fn nth_gen<R>(g: R, k: nat) -> R
    decreases k
{
    if k == 0 { g } else { after_draw(nth_gen(g, (k - 1) as nat)) }
}
#[verifier::external_body]
pub fn rng_random_range_f64<R: Rng>(rng: &mut R, lo: f64, hi: f64) -> (r: f64)      // unit rule RV2: rng.random_range(lo..hi)
    requires flt(lo, hi), f64_pred(1, hi.sub_spec(lo)),      //@ rng.random_range.nonempty_finite [C08]
             seeded_mode() ==> old(rng).det(),
    ensures final(rng).det() == old(rng).det(), fle(lo, r), flt(r, hi),
            r == draw_f64(*old(rng), lo, hi), *final(rng) == after_draw(*old(rng)),
{ unimplemented!() }
