#![feature(print_internals)]
#![allow(unused_imports, dead_code, unused_variables, unused_mut, unused_parens, unused_braces, non_snake_case)]
// PRELUDE (trusted text) for unit V-pybind: the oxmpl CORE as seen from oxmpl-py, and the pyo3 / std cell surface the wrappers use.
// Every core function is a deterministic UNINTERPRETED function of its arguments (`core_*` spec functions): the unit proves
// DELEGATION -- each wrapper returns exactly what the core function returns on exactly the wrapped arguments, and raises the
// documented exception kind exactly when the core returns an error.  What the core functions compute is C01-C18.
use vstd::prelude::*;
use std::sync::Arc;
use std::rc::Rc;
use std::time::Duration;
use std::marker::PhantomData;

verus! {

// ------------------------------------------------------------------ pyo3
#[verifier::external_body]
#[derive(Debug)]
pub struct PyErr { _p: u8 }
pub type PyResult<T> = Result<T, PyErr>;
#[verifier::external_body]
pub struct PyObject { _p: u8 }
/// 1 = ValueError, 2 = Exception, 3 = TypeError
pub uninterp spec fn err_kind(e: PyErr) -> int;
pub struct PyValueError;
impl PyValueError {
    #[verifier::external_body]
    pub fn new_err(msg: String) -> (r: PyErr) ensures err_kind(r) == 1 { unimplemented!() }
}
pub mod pyo3 {
    pub mod exceptions {
        use super::super::*;
        pub struct PyException;
        impl PyException {
            #[verifier::external_body]
            pub fn new_err(msg: String) -> (r: PyErr) ensures err_kind(r) == 2 { unimplemented!() }
        }
        pub struct PyValueError;
        impl PyValueError {
            #[verifier::external_body]
            pub fn new_err(msg: String) -> (r: PyErr) ensures err_kind(r) == 1 { unimplemented!() }
        }
    }
}
/// unit rule PB1: `e.to_string()` on a core error
#[verifier::external_body]
pub fn err_to_string<E>(e: &E) -> String { unimplemented!() }

// ------------------------------------------------------------------ std cells (interior mutability as a two-state view per call)
#[verifier::external_body]
#[verifier::reject_recursive_types(T)]
pub struct Mutex<T> { _p: std::marker::PhantomData<T> }
#[verifier::external_body]
#[verifier::reject_recursive_types(T)]
pub struct RefCell<T> { _p: std::marker::PhantomData<T> }
/// content of a cell when the wrapper method is entered / when it returns
pub uninterp spec fn mutex_val<T>(m: Mutex<T>) -> T;
pub uninterp spec fn mutex_after<T>(m: Mutex<T>) -> T;
pub uninterp spec fn refcell_val<T>(m: RefCell<T>) -> T;
pub uninterp spec fn refcell_after<T>(m: RefCell<T>) -> T;
impl<T> Mutex<T> {
    #[verifier::external_body]
    pub fn new(v: T) -> (r: Mutex<T>) ensures mutex_val(r) == v { unimplemented!() }
}
impl<T> RefCell<T> {
    #[verifier::external_body]
    pub fn new(v: T) -> (r: RefCell<T>) ensures refcell_val(r) == v { unimplemented!() }
}
/// unit rule PB2: `X.lock().unwrap()` used for reading (a poisoned mutex is not modelled: the wrappers never panic while holding it)
#[verifier::external_body]
pub fn mutex_ref<'a, T>(m: &'a Arc<Mutex<T>>) -> (r: &'a T) ensures *r == mutex_val(**m) { unimplemented!() }
/// unit rule PB3: `X.lock().unwrap()` used for writing
#[verifier::external_body]
pub fn mutex_mut<'a, T>(m: &'a Arc<Mutex<T>>) -> (r: &'a mut T) ensures *r == mutex_val(**m), mutex_after(**m) == *final(r) { unimplemented!() }
/// unit rule PB4 / PB5: `X.borrow()` / `X.borrow_mut()`
#[verifier::external_body]
pub fn refcell_ref<'a, T>(m: &'a Rc<RefCell<T>>) -> (r: &'a T) ensures *r == refcell_val(**m) { unimplemented!() }
#[verifier::external_body]
pub fn refcell_mut<'a, T>(m: &'a Rc<RefCell<T>>) -> (r: &'a mut T) ensures *r == refcell_val(**m), refcell_after(**m) == *final(r) { unimplemented!() }

// ------------------------------------------------------------------ the core, as uninterpreted deterministic functions
pub struct OxmplRealVectorState { pub values: Vec<f64> }
pub struct OxmplSO2State { pub value: f64 }
pub struct OxmplSO3State { pub x: f64, pub y: f64, pub z: f64, pub w: f64 }
#[verifier::external_body] pub struct OxmplCompoundState { _p: u8 }
#[verifier::external_body] pub struct OxmplSE2State { _p: u8 }
#[verifier::external_body] pub struct OxmplSE3State { _p: u8 }
pub uninterp spec fn core_rv_state_new(values: Seq<f64>) -> OxmplRealVectorState;
pub uninterp spec fn core_so2_state_new(v: f64) -> OxmplSO2State;
pub uninterp spec fn core_so3_state_new(x: f64, y: f64, z: f64, w: f64) -> OxmplSO3State;
pub uninterp spec fn core_se2_state_new(x: f64, y: f64, yaw: f64) -> OxmplSE2State;
pub uninterp spec fn core_se3_state_new(x: f64, y: f64, z: f64, r: OxmplSO3State) -> OxmplSE3State;
pub uninterp spec fn core_se2_get(s: OxmplSE2State, what: int) -> f64;            // 0 x, 1 y, 2 yaw
pub uninterp spec fn core_se3_get(s: OxmplSE3State, what: int) -> f64;            // 0 x, 1 y, 2 z
pub uninterp spec fn core_se2_translation(s: OxmplSE2State) -> OxmplRealVectorState;
pub uninterp spec fn core_se2_rotation(s: OxmplSE2State) -> OxmplSO2State;
pub uninterp spec fn core_se3_translation(s: OxmplSE3State) -> OxmplRealVectorState;
pub uninterp spec fn core_se3_rotation(s: OxmplSE3State) -> OxmplSO3State;
impl OxmplRealVectorState { #[verifier::external_body] pub fn new(vals: Vec<f64>) -> (r: Self) ensures r == core_rv_state_new(vals@) { unimplemented!() } }
impl OxmplSO2State { #[verifier::external_body] pub fn new(val: f64) -> (r: Self) ensures r == core_so2_state_new(val) { unimplemented!() } }
impl OxmplSO3State { #[verifier::external_body] pub fn new(x: f64, y: f64, z: f64, w: f64) -> (r: Self) ensures r == core_so3_state_new(x, y, z, w) { unimplemented!() } }
impl OxmplSE2State {
    #[verifier::external_body] pub fn new(x: f64, y: f64, yaw: f64) -> (r: Self) ensures r == core_se2_state_new(x, y, yaw) { unimplemented!() }
    #[verifier::external_body] pub fn get_x(&self) -> (r: f64) ensures r == core_se2_get(*self, 0) { unimplemented!() }
    #[verifier::external_body] pub fn get_y(&self) -> (r: f64) ensures r == core_se2_get(*self, 1) { unimplemented!() }
    #[verifier::external_body] pub fn get_yaw(&self) -> (r: f64) ensures r == core_se2_get(*self, 2) { unimplemented!() }
    #[verifier::external_body] pub fn get_translation(&self) -> (r: &OxmplRealVectorState) ensures *r == core_se2_translation(*self) { unimplemented!() }
    #[verifier::external_body] pub fn get_rotation(&self) -> (r: &OxmplSO2State) ensures *r == core_se2_rotation(*self) { unimplemented!() }
}
impl OxmplSE3State {
    #[verifier::external_body] pub fn new(x: f64, y: f64, z: f64, rotation: OxmplSO3State) -> (r: Self) ensures r == core_se3_state_new(x, y, z, rotation) { unimplemented!() }
    #[verifier::external_body] pub fn get_x(&self) -> (r: f64) ensures r == core_se3_get(*self, 0) { unimplemented!() }
    #[verifier::external_body] pub fn get_y(&self) -> (r: f64) ensures r == core_se3_get(*self, 1) { unimplemented!() }
    #[verifier::external_body] pub fn get_z(&self) -> (r: f64) ensures r == core_se3_get(*self, 2) { unimplemented!() }
    #[verifier::external_body] pub fn get_translation(&self) -> (r: &OxmplRealVectorState) ensures *r == core_se3_translation(*self) { unimplemented!() }
    #[verifier::external_body] pub fn get_rotation(&self) -> (r: &OxmplSO3State) ensures *r == core_se3_rotation(*self) { unimplemented!() }
}
// faithful Clone of the core state types (they derive Clone): ASSUMED
impl Clone for OxmplRealVectorState { #[verifier::external_body] fn clone(&self) -> (r: Self) ensures r == *self { unimplemented!() } }
impl Clone for OxmplSO2State { #[verifier::external_body] fn clone(&self) -> (r: Self) ensures r == *self { unimplemented!() } }
impl Clone for OxmplSO3State { #[verifier::external_body] fn clone(&self) -> (r: Self) ensures r == *self { unimplemented!() } }
impl Clone for OxmplCompoundState { #[verifier::external_body] fn clone(&self) -> (r: Self) ensures r == *self { unimplemented!() } }
impl Clone for OxmplSE2State { #[verifier::external_body] fn clone(&self) -> (r: Self) ensures r == *self { unimplemented!() } }
impl Clone for OxmplSE3State { #[verifier::external_body] fn clone(&self) -> (r: Self) ensures r == *self { unimplemented!() } }

#[verifier::external_body] #[derive(Debug)] pub struct StateSpaceError { _p: u8 }
pub trait CoreSpace: Sized {
    type St;
    spec fn core_dist(self, a: Self::St, b: Self::St) -> f64;
    spec fn core_extent(self) -> f64;
    spec fn core_set_lvsf(self, f: f64) -> Self;
}
#[verifier::external_body] pub struct OxmplRealVectorStateSpace { _p: u8 }
impl CoreSpace for OxmplRealVectorStateSpace {
    type St = OxmplRealVectorState;
    uninterp spec fn core_dist(self, a: OxmplRealVectorState, b: OxmplRealVectorState) -> f64;
    uninterp spec fn core_extent(self) -> f64;
    uninterp spec fn core_set_lvsf(self, f: f64) -> Self;
}
impl OxmplRealVectorStateSpace {
    #[verifier::external_body] pub fn distance(&self, state1: &OxmplRealVectorState, state2: &OxmplRealVectorState) -> (r: f64) ensures r == self.core_dist(*state1, *state2) { unimplemented!() }
    #[verifier::external_body] pub fn get_maximum_extent(&self) -> (r: f64) ensures r == self.core_extent() { unimplemented!() }
    #[verifier::external_body] pub fn set_longest_valid_segment_fraction(&mut self, fraction: f64) ensures *final(self) == old(self).core_set_lvsf(fraction) { unimplemented!() }
}
#[verifier::external_body] pub struct OxmplSO2StateSpace { _p: u8 }
impl CoreSpace for OxmplSO2StateSpace {
    type St = OxmplSO2State;
    uninterp spec fn core_dist(self, a: OxmplSO2State, b: OxmplSO2State) -> f64;
    uninterp spec fn core_extent(self) -> f64;
    uninterp spec fn core_set_lvsf(self, f: f64) -> Self;
}
impl OxmplSO2StateSpace {
    #[verifier::external_body] pub fn distance(&self, state1: &OxmplSO2State, state2: &OxmplSO2State) -> (r: f64) ensures r == self.core_dist(*state1, *state2) { unimplemented!() }
    #[verifier::external_body] pub fn get_maximum_extent(&self) -> (r: f64) ensures r == self.core_extent() { unimplemented!() }
    #[verifier::external_body] pub fn set_longest_valid_segment_fraction(&mut self, fraction: f64) ensures *final(self) == old(self).core_set_lvsf(fraction) { unimplemented!() }
}
#[verifier::external_body] pub struct OxmplSO3StateSpace { _p: u8 }
impl CoreSpace for OxmplSO3StateSpace {
    type St = OxmplSO3State;
    uninterp spec fn core_dist(self, a: OxmplSO3State, b: OxmplSO3State) -> f64;
    uninterp spec fn core_extent(self) -> f64;
    uninterp spec fn core_set_lvsf(self, f: f64) -> Self;
}
impl OxmplSO3StateSpace {
    #[verifier::external_body] pub fn distance(&self, state1: &OxmplSO3State, state2: &OxmplSO3State) -> (r: f64) ensures r == self.core_dist(*state1, *state2) { unimplemented!() }
    #[verifier::external_body] pub fn get_maximum_extent(&self) -> (r: f64) ensures r == self.core_extent() { unimplemented!() }
    #[verifier::external_body] pub fn set_longest_valid_segment_fraction(&mut self, fraction: f64) ensures *final(self) == old(self).core_set_lvsf(fraction) { unimplemented!() }
}
#[verifier::external_body] pub struct OxmplSE2StateSpace { _p: u8 }
impl CoreSpace for OxmplSE2StateSpace {
    type St = OxmplSE2State;
    uninterp spec fn core_dist(self, a: OxmplSE2State, b: OxmplSE2State) -> f64;
    uninterp spec fn core_extent(self) -> f64;
    uninterp spec fn core_set_lvsf(self, f: f64) -> Self;
}
impl OxmplSE2StateSpace {
    #[verifier::external_body] pub fn distance(&self, state1: &OxmplSE2State, state2: &OxmplSE2State) -> (r: f64) ensures r == self.core_dist(*state1, *state2) { unimplemented!() }
    #[verifier::external_body] pub fn get_maximum_extent(&self) -> (r: f64) ensures r == self.core_extent() { unimplemented!() }
    #[verifier::external_body] pub fn set_longest_valid_segment_fraction(&mut self, fraction: f64) ensures *final(self) == old(self).core_set_lvsf(fraction) { unimplemented!() }
}
#[verifier::external_body] pub struct OxmplSE3StateSpace { _p: u8 }
impl CoreSpace for OxmplSE3StateSpace {
    type St = OxmplSE3State;
    uninterp spec fn core_dist(self, a: OxmplSE3State, b: OxmplSE3State) -> f64;
    uninterp spec fn core_extent(self) -> f64;
    uninterp spec fn core_set_lvsf(self, f: f64) -> Self;
}
impl OxmplSE3StateSpace {
    #[verifier::external_body] pub fn distance(&self, state1: &OxmplSE3State, state2: &OxmplSE3State) -> (r: f64) ensures r == self.core_dist(*state1, *state2) { unimplemented!() }
    #[verifier::external_body] pub fn get_maximum_extent(&self) -> (r: f64) ensures r == self.core_extent() { unimplemented!() }
    #[verifier::external_body] pub fn set_longest_valid_segment_fraction(&mut self, fraction: f64) ensures *final(self) == old(self).core_set_lvsf(fraction) { unimplemented!() }
}
#[verifier::external_body] pub struct OxmplCompoundStateSpace { _p: u8 }
impl CoreSpace for OxmplCompoundStateSpace {
    type St = OxmplCompoundState;
    uninterp spec fn core_dist(self, a: OxmplCompoundState, b: OxmplCompoundState) -> f64;
    uninterp spec fn core_extent(self) -> f64;
    uninterp spec fn core_set_lvsf(self, f: f64) -> Self;
}
impl OxmplCompoundStateSpace {
    #[verifier::external_body] pub fn distance(&self, state1: &OxmplCompoundState, state2: &OxmplCompoundState) -> (r: f64) ensures r == self.core_dist(*state1, *state2) { unimplemented!() }
    #[verifier::external_body] pub fn get_maximum_extent(&self) -> (r: f64) ensures r == self.core_extent() { unimplemented!() }
    #[verifier::external_body] pub fn set_longest_valid_segment_fraction(&mut self, fraction: f64) ensures *final(self) == old(self).core_set_lvsf(fraction) { unimplemented!() }
}
pub uninterp spec fn core_rv_space_new(dimension: usize, bounds: Option<Seq<(f64, f64)>>) -> Result<OxmplRealVectorStateSpace, StateSpaceError>;
pub uninterp spec fn core_so2_space_new(bounds: Option<(f64, f64)>) -> Result<OxmplSO2StateSpace, StateSpaceError>;
pub uninterp spec fn core_so3_space_new(bounds: Option<(OxmplSO3State, f64)>) -> Result<OxmplSO3StateSpace, StateSpaceError>;
pub uninterp spec fn core_se2_space_new(weight: f64, bounds: Option<Seq<(f64, f64)>>) -> Result<OxmplSE2StateSpace, StateSpaceError>;
pub uninterp spec fn core_se3_space_new(weight: f64, bounds: Option<Seq<(f64, f64)>>) -> Result<OxmplSE3StateSpace, StateSpaceError>;
pub open spec fn opt_seq(b: Option<Vec<(f64, f64)>>) -> Option<Seq<(f64, f64)>> { match b { Some(v) => Some(v@), None => None } }
impl OxmplRealVectorStateSpace { #[verifier::external_body] pub fn new(dimension: usize, bounds_option: Option<Vec<(f64, f64)>>) -> (r: Result<Self, StateSpaceError>) ensures r == core_rv_space_new(dimension, opt_seq(bounds_option)) { unimplemented!() } }
impl OxmplSO2StateSpace { #[verifier::external_body] pub fn new(bounds_option: Option<(f64, f64)>) -> (r: Result<Self, StateSpaceError>) ensures r == core_so2_space_new(bounds_option) { unimplemented!() } }
impl OxmplSO3StateSpace { #[verifier::external_body] pub fn new(bounds_option: Option<(OxmplSO3State, f64)>) -> (r: Result<Self, StateSpaceError>) ensures r == core_so3_space_new(bounds_option) { unimplemented!() } }
impl OxmplSE2StateSpace { #[verifier::external_body] pub fn new(weight: f64, bounds_option: Option<Vec<(f64, f64)>>) -> (r: Result<Self, StateSpaceError>) ensures r == core_se2_space_new(weight, opt_seq(bounds_option)) { unimplemented!() } }
impl OxmplSE3StateSpace { #[verifier::external_body] pub fn new(weight: f64, bounds_option: Option<Vec<(f64, f64)>>) -> (r: Result<Self, StateSpaceError>) ensures r == core_se3_space_new(weight, opt_seq(bounds_option)) { unimplemented!() } }

pub struct OxmplPlannerConfig { pub seed: Option<u64> }

// ------------------------------------------------------------------ problem definition, path, planners (core)
pub struct ProblemDefinition<S, SP, G> { pub space: Arc<SP>, pub start_states: Vec<S>, pub goal: Arc<G> }
#[derive(Clone)]
pub struct OxmplPath<S>(pub Vec<S>);
#[verifier::external_body] #[derive(Debug)] pub struct PlanningError { _p: u8 }
// faithful Clone of the core space types (they derive Clone): ASSUMED
impl Clone for OxmplRealVectorStateSpace { #[verifier::external_body] fn clone(&self) -> (r: Self) ensures r == *self { unimplemented!() } }
impl Clone for OxmplSO2StateSpace { #[verifier::external_body] fn clone(&self) -> (r: Self) ensures r == *self { unimplemented!() } }
impl Clone for OxmplSO3StateSpace { #[verifier::external_body] fn clone(&self) -> (r: Self) ensures r == *self { unimplemented!() } }
impl Clone for OxmplSE2StateSpace { #[verifier::external_body] fn clone(&self) -> (r: Self) ensures r == *self { unimplemented!() } }
impl Clone for OxmplSE3StateSpace { #[verifier::external_body] fn clone(&self) -> (r: Self) ensures r == *self { unimplemented!() } }
impl Clone for OxmplCompoundStateSpace { #[verifier::external_body] fn clone(&self) -> (r: Self) ensures r == *self { unimplemented!() } }
// pyo3 types that only appear in signatures
#[verifier::external_body] pub struct PyType { _p: u8 }
#[verifier::external_body] #[verifier::reject_recursive_types(T)] pub struct Bound<'a, T> { _p: std::marker::PhantomData<&'a T> }
pub uninterp spec fn dur_f32(s: f32) -> Duration;
/// Duration::from_secs_f32 panics on negative / non-finite / overflowing input: NOT modelled (listed as not covered)
pub assume_specification [Duration::from_secs_f32] (s: f32) -> (r: Duration) ensures r == dur_f32(s);

/// `setup` / `solve` / `construct_roadmap` of a core planner as deterministic functions of the planner value and the arguments
pub uninterp spec fn core_setup<P, PD, VC>(p: P, pd: PD, vc: VC) -> P;
pub uninterp spec fn core_solve<P, S>(p: P, timeout: Duration) -> (Result<OxmplPath<S>, PlanningError>, P);
pub uninterp spec fn core_construct<P>(p: P) -> (Result<(), PlanningError>, P);
pub uninterp spec fn core_planner_new2<P>(a: f64, b: f64, seed: Option<u64>) -> P;
pub uninterp spec fn core_planner_new3<P>(a: f64, b: f64, c: f64, seed: Option<u64>) -> P;

#[verifier::external_body]
#[verifier::reject_recursive_types(S)]
#[verifier::reject_recursive_types(SP)]
#[verifier::reject_recursive_types(G)]
pub struct RRT<S, SP, G> { _p: std::marker::PhantomData<(S, SP, G)> }
impl<S, SP, G> RRT<S, SP, G> {
    #[verifier::external_body]
    pub fn new(max_distance: f64, goal_bias: f64, config: &OxmplPlannerConfig) -> (r: Self) ensures r == core_planner_new2::<Self>(max_distance, goal_bias, config.seed) { unimplemented!() }
    #[verifier::external_body]
    pub fn setup(&mut self, problem_def: Arc<ProblemDefinition<S, SP, G>>, validity_checker: Arc<PyStateValidityChecker>)
        ensures *final(self) == core_setup(*old(self), problem_def, validity_checker.callback) { unimplemented!() }
    #[verifier::external_body]
    pub fn solve(&mut self, timeout: Duration) -> (r: Result<OxmplPath<S>, PlanningError>)
        ensures r == core_solve::<Self, S>(*old(self), timeout).0, *final(self) == core_solve::<Self, S>(*old(self), timeout).1 { unimplemented!() }
}

#[verifier::external_body]
#[verifier::reject_recursive_types(S)]
#[verifier::reject_recursive_types(SP)]
#[verifier::reject_recursive_types(G)]
pub struct RRTConnect<S, SP, G> { _p: std::marker::PhantomData<(S, SP, G)> }
impl<S, SP, G> RRTConnect<S, SP, G> {
    #[verifier::external_body]
    pub fn new(max_distance: f64, goal_bias: f64, config: &OxmplPlannerConfig) -> (r: Self) ensures r == core_planner_new2::<Self>(max_distance, goal_bias, config.seed) { unimplemented!() }
    #[verifier::external_body]
    pub fn setup(&mut self, problem_def: Arc<ProblemDefinition<S, SP, G>>, validity_checker: Arc<PyStateValidityChecker>)
        ensures *final(self) == core_setup(*old(self), problem_def, validity_checker.callback) { unimplemented!() }
    #[verifier::external_body]
    pub fn solve(&mut self, timeout: Duration) -> (r: Result<OxmplPath<S>, PlanningError>)
        ensures r == core_solve::<Self, S>(*old(self), timeout).0, *final(self) == core_solve::<Self, S>(*old(self), timeout).1 { unimplemented!() }
}

#[verifier::external_body]
#[verifier::reject_recursive_types(S)]
#[verifier::reject_recursive_types(SP)]
#[verifier::reject_recursive_types(G)]
pub struct RRTStar<S, SP, G> { _p: std::marker::PhantomData<(S, SP, G)> }
impl<S, SP, G> RRTStar<S, SP, G> {
    #[verifier::external_body]
    pub fn new(max_distance: f64, goal_bias: f64, search_radius: f64, config: &OxmplPlannerConfig) -> (r: Self) ensures r == core_planner_new3::<Self>(max_distance, goal_bias, search_radius, config.seed) { unimplemented!() }
    #[verifier::external_body]
    pub fn setup(&mut self, problem_def: Arc<ProblemDefinition<S, SP, G>>, validity_checker: Arc<PyStateValidityChecker>)
        ensures *final(self) == core_setup(*old(self), problem_def, validity_checker.callback) { unimplemented!() }
    #[verifier::external_body]
    pub fn solve(&mut self, timeout: Duration) -> (r: Result<OxmplPath<S>, PlanningError>)
        ensures r == core_solve::<Self, S>(*old(self), timeout).0, *final(self) == core_solve::<Self, S>(*old(self), timeout).1 { unimplemented!() }
}

#[verifier::external_body]
#[verifier::reject_recursive_types(S)]
#[verifier::reject_recursive_types(SP)]
#[verifier::reject_recursive_types(G)]
pub struct PRM<S, SP, G> { _p: std::marker::PhantomData<(S, SP, G)> }
impl<S, SP, G> PRM<S, SP, G> {
    #[verifier::external_body]
    pub fn new(timeout: f64, connection_radius: f64, config: &OxmplPlannerConfig) -> (r: Self) ensures r == core_planner_new2::<Self>(timeout, connection_radius, config.seed) { unimplemented!() }
    #[verifier::external_body]
    pub fn setup(&mut self, problem_def: Arc<ProblemDefinition<S, SP, G>>, validity_checker: Arc<PyStateValidityChecker>)
        ensures *final(self) == core_setup(*old(self), problem_def, validity_checker.callback) { unimplemented!() }
    #[verifier::external_body]
    pub fn solve(&mut self, timeout: Duration) -> (r: Result<OxmplPath<S>, PlanningError>)
        ensures r == core_solve::<Self, S>(*old(self), timeout).0, *final(self) == core_solve::<Self, S>(*old(self), timeout).1 { unimplemented!() }
    #[verifier::external_body]
    pub fn construct_roadmap(&mut self) -> (r: Result<(), PlanningError>)
        ensures r == core_construct::<Self>(*old(self)).0, *final(self) == core_construct::<Self>(*old(self)).1 { unimplemented!() }
}
// the two callback wrapper structs (oxmpl-py/src/base/state_validity_checker.rs, goal.rs; their trait impls are units V-py / C20)
pub struct PyStateValidityChecker { pub callback: PyObject }
pub struct PyGoal<State> { pub instance: PyObject, pub _phantom: std::marker::PhantomData<State> }
