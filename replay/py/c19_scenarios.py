#!/usr/bin/env python3
"""Bounded differential family for C19: the REAL oxmpl_py module (built from the tree under check) against the core's own
answers (`oxmpl-replay pyref <seed>` output, one JSON object per line in the file given as argv[2]).

usage: c19_scenarios.py <seed> <pyref.jsonl>
prints one JSON line per violating input; exit 0 = none, 1 = some.  Never decides the property (bounded stand-in)."""
import contextlib
import io
import json
import math
import sys

from oxmpl_py.base import (PlannerConfig, ProblemDefinition, RealVectorState, RealVectorStateSpace, SE2StateSpace, SE3StateSpace,
                           SO2State, SO2StateSpace, SO3State, SO3StateSpace)
from oxmpl_py.geometric import RRT, RRTConnect, RRTStar

HITS = []


def report(scenario, seed, what):
    HITS.append(1)
    if len(HITS) <= 30:
        print(json.dumps(dict(scenario=scenario, seed=seed, what=what)), flush=True)


class CentreGoal:
    """mirror of replay/src/pyref.rs: membership through the core's distance, deterministic `sampler`"""

    def __init__(self, space, centre, r):
        self.space, self.c, self.r = space, centre, r

    def is_satisfied(self, s):
        return self.space.distance(self.c, s) <= self.r

    def distance_goal(self, s):
        return max(self.space.distance(self.c, s) - self.r, 0.0)

    def sample_goal(self):
        return self.c


def rv_valid(s):
    x, y = s.values
    return not (x >= 4.75 and x <= 5.25 and y >= 2.0 and y <= 8.0)


def so2_valid(s):
    return not (s.value >= 0.4 and s.value <= 0.9)


def make(planner, pd, seed, step, bias, radius):
    cfg = PlannerConfig(seed=seed)
    if planner == "RRT":
        return RRT(max_distance=step, goal_bias=bias, problem_definition=pd, planner_config=cfg)
    if planner == "RRTConnect":
        return RRTConnect(max_distance=step, goal_bias=bias, problem_definition=pd, planner_config=cfg)
    return RRTStar(max_distance=step, goal_bias=bias, search_radius=radius, problem_definition=pd, planner_config=cfg)


def solve(p, checker):
    try:
        with contextlib.redirect_stdout(io.StringIO()):
            p.setup(checker)
            path = p.solve(timeout_secs=5.0)
        return path
    except BaseException as e:
        return "error: " + str(e)


def planners(ref, seed0):
    for case in ref:
        if case["case"] == "rv":
            space = RealVectorStateSpace(dimension=2, bounds=[(0.0, 10.0), (0.0, 10.0)])
            pd = ProblemDefinition.from_real_vector(space, RealVectorState([1.0, 5.0]), CentreGoal(space, RealVectorState([9.0, 5.0]), 0.5))
            out = solve(make(case["planner"], pd, case["seed"], 0.5, case["bias"], 1.0), rv_valid)
            got = out if isinstance(out, str) else [list(s.values) for s in out.states]
        elif case["case"] == "so2":
            space = SO2StateSpace()
            pd = ProblemDefinition.from_so2(space, SO2State(-0.5), CentreGoal(space, SO2State(2.0), 0.1))
            out = solve(make(case["planner"], pd, case["seed"], 0.2, case["bias"], 0.5), so2_valid)
            got = out if isinstance(out, str) else [[s.value] for s in out.states]
        else:
            continue
        want = case["path"]
        tag = "C19 %s %s goal_bias=%s seed=%d" % (case["planner"], case["case"], case["bias"], case["seed"])
        if isinstance(want, str) or isinstance(got, str):
            if not (isinstance(want, str) and isinstance(got, str)):
                report("py-differential", seed0, "%s: core gives %s, Python gives %s" % (tag, str(want)[:80], str(got)[:80]))
            continue
        if got != want:
            k = next((i for i in range(min(len(got), len(want))) if got[i] != want[i]), min(len(got), len(want)))
            report("py-differential", seed0, "%s: paths differ at state %d (core %d states, Python %d states): core %r, Python %r" % (
                tag, k, len(want), len(got), want[k] if k < len(want) else None, got[k] if k < len(got) else None))


def values(ref, seed0):
    v = {}
    for case in ref:
        if case["case"] == "values":
            v.update(case)
    sp = RealVectorStateSpace(dimension=3, bounds=[(-1.0, 2.0), (0.0, 10.0), (-5.0, 5.0)])
    d = sp.distance(RealVectorState([0.1, 0.2, 0.3]), RealVectorState([1.5, -2.25, 4.0]))
    if d != v["rv_distance"] or sp.get_maximum_extent() != v["rv_extent"]:
        report("py-values", seed0, "C19 RealVectorStateSpace: distance %r / extent %r, core %r / %r" % (d, sp.get_maximum_extent(), v["rv_distance"], v["rv_extent"]))
    so2 = SO2StateSpace(bounds=(-1.0, 2.0))
    d = so2.distance(SO2State(3.0), SO2State(-3.0))
    if d != v["so2_distance"] or so2.get_maximum_extent() != v["so2_extent"]:
        report("py-values", seed0, "C19 SO2StateSpace: distance %r / extent %r, core %r / %r" % (d, so2.get_maximum_extent(), v["so2_distance"], v["so2_extent"]))
    got = [SO2State(7.0).value, SO2State(-7.0).value, SO2State(math.pi).value, SO2State(100.0).value]
    if got != v["so2_norm"]:
        report("py-values", seed0, "C19 SO2State canonicalisation: %r, core %r" % (got, v["so2_norm"]))


def constructors(seed0):
    """ValueError exactly where the core constructor returns an error (the core's documented rules, C12)"""
    nan, inf = float("nan"), float("inf")
    vals = [nan, -inf, -10.0, -math.pi, -1.0, 0.0, 1.0, math.pi, 4.0, inf]

    def raises(f):
        try:
            f()
            return None
        except ValueError:
            return "ValueError"
        except BaseException as e:
            return type(e).__name__

    for lo in vals:
        for hi in vals:
            # R^1 with one bound: Ok iff lo < hi (NaN rejected)
            want = None if lo < hi else "ValueError"
            got = raises(lambda: RealVectorStateSpace(dimension=1, bounds=[(lo, hi)]))
            if got != want:
                report("py-ctor", seed0, "C19 RealVectorStateSpace(1, [(%r, %r)]): %s, the core %s" % (lo, hi, got or "returns a space", want or "returns a space"))
            # SO(2): Ok iff lo < hi and the interval clamped to [-PI, PI] is non-empty
            want = None if (lo < hi and max(lo, -math.pi) < min(hi, math.pi)) else "ValueError"
            got = raises(lambda: SO2StateSpace(bounds=(lo, hi)))
            if got != want:
                report("py-ctor", seed0, "C19 SO2StateSpace((%r, %r)): %s, the core %s" % (lo, hi, got or "returns a space", want or "returns a space"))
    for dim, nb in [(0, None), (2, 1), (2, 3), (3, 3), (1, 0)]:
        want = "ValueError" if (nb is None and dim == 0) or (nb is not None and nb != dim) else None
        got = raises(lambda: RealVectorStateSpace(dimension=dim, bounds=None if nb is None else [(-1.0, 1.0)] * nb))
        if got != want:
            report("py-ctor", seed0, "C19 RealVectorStateSpace(%d, %s bounds): %s, the core %s" % (dim, nb, got or "returns a space", want or "returns a space"))
    for r in [nan, -1.0, 0.0, 1.0, 10.0]:
        want = "ValueError" if r < 0.0 else None
        got = raises(lambda: SO3StateSpace(bounds=(SO3State.identity(), r)))
        if got != want:
            report("py-ctor", seed0, "C19 SO3StateSpace(radius %r): %s, the core %s" % (r, got or "returns a space", want or "returns a space"))
    for nb in [None, 1, 3, 4]:
        want = None if nb in (None, 3) else "ValueError"
        for cls in (SE2StateSpace, SE3StateSpace):
            got = raises(lambda: cls(1.0, None if nb is None else [(-1.0, 1.0)] * nb))
            if got != want:
                report("py-ctor", seed0, "C19 %s(1.0, %s bounds): %s, the core %s" % (cls.__name__, nb, got or "returns a space", want or "returns a space"))


def main():
    seed = int(sys.argv[1]) if len(sys.argv) > 1 else 0
    ref = [json.loads(l) for l in open(sys.argv[2]) if l.startswith("{")]
    planners(ref, seed)
    values(ref, seed)
    constructors(seed)
    sys.exit(1 if HITS else 0)


if __name__ == "__main__":
    main()
