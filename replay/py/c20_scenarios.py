#!/usr/bin/env python3
"""Scenario family for C20 against the REAL oxmpl-py bindings (built from the tree under check) and the real CPython:
user callbacks that raise, return None or return truthy non-booleans must fail closed.

usage: c20_scenarios.py <seed>          (the directory holding oxmpl_py.so must be on sys.path / the cwd)
prints one JSON line per violating input: {"scenario":..,"seed":..,"what":..}; exit 0 = none, 1 = some.
Never decides the property: it only attaches a concrete failing input to a failed / undecided obligation and serves as
a bounded stand-in (labelled so)."""
import contextlib
import io
import json
import math
import random
import sys

from oxmpl_py.base import PlannerConfig, ProblemDefinition, RealVectorState, RealVectorStateSpace, SO2State, SO2StateSpace, SO3State, SO3StateSpace
from oxmpl_py.geometric import PRM, RRT, RRTConnect, RRTStar

HITS = []


def report(scenario, seed, what):
    HITS.append(1)
    if len(HITS) <= 30:
        print(json.dumps(dict(scenario=scenario, seed=seed, what=what)), flush=True)


class Boom(Exception):
    pass


def in_bad_region(x, y):
    """a band the straight line from start to goal has to cross unless the planner goes around it"""
    return 4.0 <= x <= 6.0 and 2.0 <= y <= 10.0


class Goal:
    def __init__(self, space, x, y, r, mode="ok", rng_seed=7):
        self.space, self.c, self.r, self.mode = space, RealVectorState([x, y]), r, mode
        self.rng = random.Random(rng_seed)
        self.failed_on = []

    def inside(self, s):
        return self.space.distance(self.c, s) <= self.r

    def is_satisfied(self, s):
        if self.mode == "sat_raises_inside" and self.inside(s):
            self.failed_on.append(tuple(s.values))
            raise Boom("is_satisfied failed")
        if self.mode == "sat_truthy":
            return 1 if self.inside(s) else 0          # truthy / falsy non-booleans: never `True`
        if self.mode == "sat_none":
            return None
        if self.mode == "sat_str":
            return "yes"
        if self.mode == "sat_false":
            return False
        return self.inside(s)

    def distance_goal(self, s):
        if self.mode.startswith("sat_") or self.mode == "dist_raises":
            # a distance that claims the goal is reached: must not be used to override a failing is_satisfied
            if self.mode == "dist_raises":
                raise Boom("distance_goal failed")
            return 0.0
        return max(0.0, self.space.distance(self.c, s) - self.r)

    def sample_goal(self):
        if self.mode == "sample_raises":
            raise Boom("sample_goal failed")
        if self.mode == "sample_wrong_type":
            return [1.0, 2.0]
        a = self.rng.uniform(0, 2 * math.pi)
        rr = self.r * math.sqrt(self.rng.uniform(0, 1))
        return RealVectorState([self.c.values[0] + rr * math.cos(a), self.c.values[1] + rr * math.sin(a)])


def make(planner, pd, seed):
    cfg = PlannerConfig(seed=seed)
    if planner == "RRT":
        return RRT(max_distance=0.5, goal_bias=0.05, problem_definition=pd, planner_config=cfg)
    if planner == "RRTConnect":
        return RRTConnect(max_distance=0.5, goal_bias=0.05, problem_definition=pd, planner_config=cfg)
    if planner == "RRTStar":
        return RRTStar(max_distance=0.5, goal_bias=0.05, search_radius=1.0, problem_definition=pd, planner_config=cfg)
    return PRM(timeout=0.6, connection_radius=1.0, problem_definition=pd, planner_config=cfg)


def run(planner, pd, seed, checker, timeout=4.0):
    """returns ('path', [states]) | ('error', text)"""
    p = make(planner, pd, seed)
    try:
        with contextlib.redirect_stdout(io.StringIO()):
            p.setup(checker)
            if planner == "PRM":
                p.construct_roadmap()
            path = p.solve(timeout_secs=timeout)
        return "path", [tuple(s.values) for s in path.states]
    except BaseException as e:          # pyo3 turns Rust panics into PanicException (a BaseException)
        return "error", "%s: %s" % (type(e).__name__, str(e)[:120])


PLANNERS = ["RRT", "RRTConnect", "RRTStar", "PRM"]


def fam_validity(seed):
    space = RealVectorStateSpace(dimension=2, bounds=[(0.0, 10.0), (0.0, 10.0)])
    start = RealVectorState([1.0, 5.0])
    for planner in PLANNERS:
        for mode in ("raises", "none", "truthy_int", "truthy_str", "truthy_list", "float"):
            failed = []

            def checker(s, mode=mode, failed=failed):
                x, y = s.values
                if in_bad_region(x, y):
                    failed.append((x, y))
                    if mode == "raises":
                        raise Boom("validity callback failed")
                    if mode == "none":
                        return None
                    if mode == "truthy_int":
                        return 1
                    if mode == "truthy_str":
                        return "valid"
                    if mode == "truthy_list":
                        return [True]
                    return 1.0
                return True

            def ref_checker(s):
                x, y = s.values
                return not in_bad_region(x, y)

            goal = Goal(space, 9.0, 5.0, 0.5)
            pd = ProblemDefinition.from_real_vector(space, start, goal)
            with contextlib.redirect_stderr(io.StringIO()):
                kind, out = run(planner, pd, seed, checker)
            goal2 = Goal(space, 9.0, 5.0, 0.5)
            pd2 = ProblemDefinition.from_real_vector(space, start, goal2)
            kind2, out2 = run(planner, pd2, seed, ref_checker)
            tag = "C20 %s validity callback mode=%s" % (planner, mode)
            if kind == "path":
                bad = [s for s in out if in_bad_region(*s)]
                if bad:
                    report("py-validity", seed, "%s: the returned path goes through %r on which the callback %s" % (tag, bad[0], "raised" if mode == "raises" else "did not return a bool"))
            if "Panic" in str(out) and kind == "error":
                report("py-validity", seed, "%s: the planner panicked instead of failing closed: %s" % (tag, out))
            # with a deterministic world the outcome must be the one obtained with `return False` on the failing states
            if planner != "PRM" and (kind, out) != (kind2, out2) and not (kind == "error" and kind2 == "error"):
                report("py-validity", seed, "%s: result differs from the run whose callback returns False on those states (%s vs %s)" % (tag, kind + ":" + str(out)[:80], kind2 + ":" + str(out2)[:80]))


def fam_goal(seed):
    space = RealVectorStateSpace(dimension=2, bounds=[(0.0, 10.0), (0.0, 10.0)])
    start = RealVectorState([1.0, 5.0])

    def ok(s):
        return True

    for planner in PLANNERS:
        for mode in ("sat_raises_inside", "sat_truthy", "sat_none", "sat_str"):
            goal = Goal(space, 3.0, 5.0, 0.7, mode=mode)
            pd = ProblemDefinition.from_real_vector(space, start, goal)
            with contextlib.redirect_stderr(io.StringIO()):
                kind, out = run(planner, pd, seed, ok, timeout=0.4)
            # reference: the same goal whose is_satisfied returns False on exactly the states on which the failing one fails
            ref = Goal(space, 3.0, 5.0, 0.7, mode="sat_false")
            pd2 = ProblemDefinition.from_real_vector(space, start, ref)
            kind2, out2 = run(planner, pd2, seed, ok, timeout=0.4)
            tag = "C20 %s goal.is_satisfied mode=%s" % (planner, mode)
            if kind == "error" and "Panic" in out:
                report("py-goal", seed, "%s: the planner panicked instead of failing closed: %s" % (tag, out))
            if kind == "path" and kind2 != "path":
                report("py-goal", seed, "%s: a path ending at %r was returned; with is_satisfied returning False on those states there is none (%s)" % (tag, out[-1], out2[:60]))
            elif kind == "path" and kind2 == "path" and planner != "PRM" and out != out2:
                report("py-goal", seed, "%s: the path differs from the one obtained with is_satisfied returning False on those states" % tag)
        for mode in ("sample_raises", "sample_wrong_type", "dist_raises"):
            goal = Goal(space, 3.0, 5.0, 0.7, mode=mode)
            pd = ProblemDefinition.from_real_vector(space, start, goal)
            with contextlib.redirect_stderr(io.StringIO()):
                kind, out = run(planner, pd, seed, ok, timeout=0.6)
            tag = "C20 %s goal mode=%s" % (planner, mode)
            if kind == "path":
                if not goal.inside(RealVectorState(list(out[-1]))):
                    report("py-goal", seed, "%s: path ends at %r outside the goal" % (tag, out[-1]))


class PartialGoal(Goal):
    """is_satisfied fails only on its k-th call, or only on the half of the goal disc that faces the start"""

    def __init__(self, space, x, y, r, kind, k=0, fail_mode="raise", reference=False):
        super().__init__(space, x, y, r)
        self.kind, self.k, self.fail_mode, self.reference, self.calls = kind, k, fail_mode, reference, 0

    def is_satisfied(self, s):
        self.calls += 1
        failing = (self.kind == "kth" and self.calls == self.k) or (self.kind == "half" and self.inside(s) and s.values[0] < self.c.values[0])
        if failing:
            if self.reference:
                return False
            if self.fail_mode == "raise":
                raise Boom("is_satisfied failed")
            return None
        return self.inside(s)


def fam_goal_partial(seed):
    space = RealVectorStateSpace(dimension=2, bounds=[(0.0, 10.0), (0.0, 10.0)])
    start = RealVectorState([1.0, 5.0])

    def ok(s):
        return True

    for planner in ("RRT", "RRTStar"):
        for kind, k in (("kth", 1), ("kth", 2), ("kth", 7), ("half", 0)):
            for fail_mode in ("raise", "none"):
                res = []
                for reference in (False, True):
                    goal = PartialGoal(space, 5.0, 5.0, 0.8, kind, k, fail_mode, reference)
                    pd = ProblemDefinition.from_real_vector(space, start, goal)
                    with contextlib.redirect_stderr(io.StringIO()):
                        res.append(run(planner, pd, seed, ok, timeout=3.0))
                if res[0] != res[1] and not (res[0][0] == "error" and res[1][0] == "error"):
                    report("py-goal", seed, "C20 %s goal.is_satisfied failing (%s) %s: result %s differs from the run whose is_satisfied returns False on the same calls / states (%s)" % (
                        planner, fail_mode, "on call %d" % k if kind == "kth" else "on the half of the goal facing the start", (res[0][0] + ":" + str(res[0][1])[:70]), (res[1][0] + ":" + str(res[1][1])[:70])))


class AngleGoal:
    def __init__(self, space, target, r):
        self.space, self.c, self.r = space, target, r

    def is_satisfied(self, s):
        return self.space.distance(self.c, s) <= self.r

    def distance_goal(self, s):
        return max(0.0, self.space.distance(self.c, s) - self.r)

    def sample_goal(self):
        return self.c


def fam_validity_rotations(seed):
    """the same fail-closed requirement for the SO(2) and SO(3) validity wrappers (each state type has its own impl)"""
    so2 = SO2StateSpace()
    so3 = SO3StateSpace()
    h = math.sqrt(0.5)
    cases = [("SO2", lambda g: ProblemDefinition.from_so2(so2, SO2State(-1.5), g), AngleGoal(so2, SO2State(1.5), 0.1), lambda s: abs(s.value) < 0.4, 0.2),
             ("SO3", lambda g: ProblemDefinition.from_so3(so3, SO3State(0.0, 0.0, -h, h), g), AngleGoal(so3, SO3State(0.0, 0.0, h, h), 0.15), lambda s: so3.distance(SO3State.identity(), s) < 0.5, 0.3)]
    for name, mk, goal, in_fault, step in cases:
        for planner in ("RRT", "RRTConnect"):
            for mode in ("raises", "none", "truthy_int"):
                def checker(s, mode=mode):
                    if in_fault(s):
                        if mode == "raises":
                            raise Boom("validity callback failed")
                        return None if mode == "none" else 1
                    return True

                def ref_checker(s):
                    return not in_fault(s)

                def solve(chk):
                    cfg = PlannerConfig(seed=seed)
                    p = (RRT if planner == "RRT" else RRTConnect)(max_distance=step, goal_bias=0.1, problem_definition=mk(goal), planner_config=cfg)
                    try:
                        with contextlib.redirect_stdout(io.StringIO()):
                            p.setup(chk)
                            path = p.solve(timeout_secs=1.5)
                        return "path", path.states
                    except BaseException as e:
                        return "error", "%s: %s" % (type(e).__name__, str(e)[:100])
                with contextlib.redirect_stderr(io.StringIO()):
                    kind, out = solve(checker)
                kind2, out2 = solve(ref_checker)
                tag = "C20 %s %s validity callback mode=%s" % (planner, name, mode)
                if kind == "path":
                    bad = [s for s in out if in_fault(s)]
                    if bad:
                        report("py-validity", seed, "%s: the returned path contains a state on which the callback %s" % (tag, "raised" if mode == "raises" else "did not return a bool"))
                if kind != kind2:
                    report("py-validity", seed, "%s: outcome %s differs from the run whose callback returns False on those states (%s)" % (tag, kind, kind2))


def main():
    seed = int(sys.argv[1]) if len(sys.argv) > 1 else 0
    fam_validity(seed)
    fam_validity_rotations(seed)
    fam_goal(seed)
    fam_goal_partial(seed)
    sys.exit(1 if HITS else 0)


if __name__ == "__main__":
    main()
