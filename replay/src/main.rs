//! Native replay of failed / undecided obligations against the REAL oxmpl library.
//!
//! `oxmpl-replay <property> <seed> [budget_s]` runs the directed scenario family of that property and prints one JSON
//! line per violating input (`{"scenario":..,"seed":..,"what":..}`).  Exit 0: no scenario exhibited a violation,
//! exit 1: at least one did.  This never DECIDES a property: the deductive checks do.  It only attaches a concrete
//! failing input to an obligation that failed or could not be decided.
use std::sync::{Arc, Mutex};
use std::time::{Duration, Instant};

use oxmpl::base::error::{PlanningError, StateSamplingError};
use oxmpl::base::goal::{Goal, GoalRegion, GoalSampleableRegion};
use oxmpl::base::planner::{Path, Planner, PlannerConfig};
use oxmpl::base::problem_definition::ProblemDefinition;
use oxmpl::base::space::{RealVectorStateSpace, StateSpace};
use oxmpl::base::state::RealVectorState;
use oxmpl::base::validity::StateValidityChecker;
use oxmpl::geometric::{RRTConnect, RRTStar, PRM, RRT};
use rand::Rng;

mod spaces;
mod pyref;
mod stats;

static PANICS: std::sync::atomic::AtomicUsize = std::sync::atomic::AtomicUsize::new(0);
/// microseconds every validity query sleeps (the slow-checker scenarios of C06 set it; 0 otherwise)
static DELAY_US: std::sync::atomic::AtomicU64 = std::sync::atomic::AtomicU64::new(0);
type S = RealVectorState;
type SP = RealVectorStateSpace;

/// axis-aligned boxes in [0,10]^2; records every query
struct World {
    boxes: Vec<(f64, f64, f64, f64)>,
    log: Mutex<Vec<(f64, f64, bool)>>,
}
impl World {
    fn free(&self, x: f64, y: f64) -> bool {
        !self.boxes.iter().any(|b| x >= b.0 && x <= b.1 && y >= b.2 && y <= b.3)
    }
}
impl StateValidityChecker<S> for World {
    fn is_valid(&self, s: &S) -> bool {
        let v = self.free(s.values[0], s.values[1]);
        let dl = DELAY_US.load(std::sync::atomic::Ordering::Relaxed);
        if dl > 0 { std::thread::sleep(Duration::from_micros(dl)); }
        self.log.lock().unwrap().push((s.values[0], s.values[1], v));
        v
    }
}
/// disc goal; the sampler consumes randomness
struct DiscGoal {
    c: (f64, f64),
    r: f64,
}
impl Goal<S> for DiscGoal {
    fn is_satisfied(&self, s: &S) -> bool {
        ((s.values[0] - self.c.0).powi(2) + (s.values[1] - self.c.1).powi(2)).sqrt() <= self.r
    }
}
impl GoalRegion<S> for DiscGoal {
    fn distance_goal(&self, s: &S) -> f64 {
        (((s.values[0] - self.c.0).powi(2) + (s.values[1] - self.c.1).powi(2)).sqrt() - self.r).max(0.0)
    }
}
impl GoalSampleableRegion<S> for DiscGoal {
    fn sample_goal(&self, rng: &mut impl Rng) -> Result<S, StateSamplingError> {
        let a = rng.random_range(0.0..2.0 * std::f64::consts::PI);
        let r = self.r * rng.random::<f64>().sqrt();
        Ok(RealVectorState::new(vec![self.c.0 + r * a.cos(), self.c.1 + r * a.sin()]))
    }
}

fn space() -> Arc<SP> {
    Arc::new(RealVectorStateSpace::new(2, Some(vec![(0.0, 10.0), (0.0, 10.0)])).unwrap())
}
fn world(kind: u64) -> Arc<World> {
    let boxes = match kind % 5 {
        0 => vec![(4.85, 5.15, 2.0, 10.0)],                       // thin wall (0.3), passage at the bottom
        1 => vec![(4.5, 5.5, 0.0, 8.0)],                          // thick wall, passage at the top
        2 => vec![(3.0, 3.3, 0.0, 7.0), (6.0, 6.3, 3.0, 10.0)],   // two thin walls
        4 => vec![(6.5, 7.5, 0.0, 8.0)],                          // wall nearer to the goal side
        _ => vec![],
    };
    Arc::new(World { boxes, log: Mutex::new(vec![]) })
}
fn pd(sp: &Arc<SP>, start: (f64, f64), goal: (f64, f64), r: f64) -> Arc<ProblemDefinition<S, SP, DiscGoal>> {
    Arc::new(ProblemDefinition { space: sp.clone(), start_states: vec![RealVectorState::new(vec![start.0, start.1])], goal: Arc::new(DiscGoal { c: goal, r }) })
}
fn d(sp: &SP, a: &S, b: &S) -> f64 { sp.distance(a, b) }

#[derive(Clone, Copy, Debug, PartialEq)]
enum Pl { Rrt, Connect, Star, Prm }

/// one planner instance behind a uniform face
enum Inst {
    Rrt(RRT<S, SP, DiscGoal>),
    Connect(RRTConnect<S, SP, DiscGoal>),
    Star(RRTStar<S, SP, DiscGoal>),
    Prm(PRM<S, SP, DiscGoal>),
}
impl Inst {
    fn new(p: Pl, step: f64, radius: f64, bias: f64, seed: u64) -> Inst {
        let cfg = PlannerConfig { seed: Some(seed) };
        match p {
            Pl::Rrt => Inst::Rrt(RRT::new(step, bias, &cfg)),
            Pl::Connect => Inst::Connect(RRTConnect::new(step, bias, &cfg)),
            Pl::Star => Inst::Star(RRTStar::new(step, bias, radius, &cfg)),
            Pl::Prm => Inst::Prm(PRM::new(0.25, radius, &cfg)),
        }
    }
    fn setup(&mut self, pd: Arc<ProblemDefinition<S, SP, DiscGoal>>, vc: Arc<World>) {
        let vc: Arc<dyn StateValidityChecker<S>> = vc;
        match self {
            Inst::Rrt(p) => p.setup(pd, vc),
            Inst::Connect(p) => p.setup(pd, vc),
            Inst::Star(p) => p.setup(pd, vc),
            Inst::Prm(p) => { p.setup(pd, vc); let _ = p.construct_roadmap(); }
        }
    }
    fn solve_raw(&mut self, t: Duration) -> Result<Path<S>, PlanningError> {
        match self {
            Inst::Rrt(p) => p.solve(t),
            Inst::Connect(p) => p.solve(t),
            Inst::Star(p) => p.solve(t),
            Inst::Prm(p) => p.solve(t),
        }
    }
    /// a panic inside a call on well-formed inputs is itself a violation (C08); it is recorded and turned into an error
    fn solve(&mut self, t: Duration) -> Result<Path<S>, PlanningError> {
        match std::panic::catch_unwind(std::panic::AssertUnwindSafe(|| self.solve_raw(t))) {
            Ok(r) => r,
            Err(_) => { PANICS.fetch_add(1, std::sync::atomic::Ordering::SeqCst); Err(PlanningError::NoSolutionFound) }
        }
    }
    fn limit(p: Pl, step: f64, radius: f64) -> f64 {
        match p { Pl::Rrt | Pl::Connect => step, Pl::Star => step.max(radius), Pl::Prm => radius }
    }
}

struct Out { n: usize }
impl Out {
    fn report(&mut self, scenario: &str, seed: u64, what: String) {
        self.n += 1;
        println!("{{\"scenario\":\"{}\",\"seed\":{},\"what\":\"{}\"}}", scenario, seed, what.replace('"', "'"));
    }
}

/// checks of a returned path against the world (C01, C02, C03 consequence, C04, C05)
fn check_path(o: &mut Out, props: &str, scen: &str, seed: u64, sp: &SP, w: &World, pdx: &ProblemDefinition<S, SP, DiscGoal>, path: &Path<S>, limit: f64) {
    let p = &path.0;
    let want = |c: &str| props == "all" || props == c;
    if p.is_empty() { if want("C02") { o.report(scen, seed, "empty path".into()); } return; }
    if want("C02") {
        if p[0].values != pdx.start_states[0].values { o.report(scen, seed, format!("path starts at {:?}, not at the start {:?}", p[0].values, pdx.start_states[0].values)); }
        if !pdx.goal.is_satisfied(&p[p.len() - 1]) { o.report(scen, seed, format!("path ends at {:?}, outside the goal region of the current problem", p[p.len() - 1].values)); }
    }
    if want("C01") || want("C15") {
        // (the last state of an RRT-Connect path is the sampled goal-tree root, which RRT-Connect never validates: known finding D3)
        let n_valid = if scen.contains("Connect") { p.len().saturating_sub(1) } else { p.len() };
        for (k, s) in p.iter().enumerate().take(n_valid) { if !w.free(s.values[0], s.values[1]) { o.report(scen, seed, format!("path state #{} {:?} is rejected by the checker", k, s.values)); break; } }
        // stronger: every state on the path was itself SUBMITTED to the checker and accepted (a bit-level twin of a validated state
        // does not count).  Exempt: the last state of an RRT-Connect path (the sampled goal-tree root, known finding D3).
        let accepted: std::collections::HashSet<(u64, u64)> = w.log.lock().unwrap().iter().filter(|q| q.2).map(|q| (q.0.to_bits(), q.1.to_bits())).collect();
        let n_checked = if scen.contains("Connect") { p.len().saturating_sub(1) } else { p.len() };
        for (k, s) in p.iter().enumerate().take(n_checked) {
            if !accepted.contains(&(s.values[0].to_bits(), s.values[1].to_bits())) { o.report(scen, seed, format!("path state #{} {:?} was never submitted to the validity checker (no accepted query for exactly this state)", k, s.values)); break; }
        }
    }
    if want("C04") { for (k, s) in p.iter().enumerate() { if !sp.satisfies_bounds(s) { o.report(scen, seed, format!("path state #{} {:?} is out of bounds", k, s.values)); break; } } }
    let lvsl = sp.get_longest_valid_segment_length();
    if want("C03") && p.len() >= 2 {
        // the statement itself: along every segment the checker was asked about, and accepted, states with no gap longer than the
        // resolution -- every point of the segment lies within half the resolution of an accepted query (grid over the query log)
        let cell = lvsl.max(1.0e-6);
        let mut grid: std::collections::HashMap<(i64, i64), Vec<(f64, f64)>> = std::collections::HashMap::new();
        for q in w.log.lock().unwrap().iter().filter(|q| q.2) { grid.entry(((q.0 / cell).floor() as i64, (q.1 / cell).floor() as i64)).or_default().push((q.0, q.1)); }
        let mut tmp = p[0].clone();
        'segs: for k in 0..p.len() - 1 {
            let dist = d(sp, &p[k], &p[k + 1]);
            let n = ((dist / (lvsl * 0.05)).ceil() as usize).clamp(1, 4000);
            for i in 0..=n {
                sp.interpolate(&p[k], &p[k + 1], i as f64 / n as f64, &mut tmp);
                let (x, y) = (tmp.values[0], tmp.values[1]);
                let (cx, cy) = ((x / cell).floor() as i64, (y / cell).floor() as i64);
                let mut best = f64::INFINITY;
                for gx in cx - 1..=cx + 1 { for gy in cy - 1..=cy + 1 { if let Some(v) = grid.get(&(gx, gy)) { for q in v { best = best.min(((q.0 - x).powi(2) + (q.1 - y).powi(2)).sqrt()); } } } }
                if best > lvsl * 0.5 + 1.0e-9 {
                    o.report(scen, seed, format!("segment #{} {:?}->{:?}: the point {:?} on it is {} away from the nearest state the checker accepted (resolution {:.4}): the motion was not checked at the space's resolution", k, p[k].values, p[k + 1].values, (x, y), if best.is_finite() { format!("{:.4}", best) } else { "more than the resolution".into() }, lvsl));
                    break 'segs;
                }
            }
        }
    }
    for k in 0..p.len() - 1 {
        let dist = d(sp, &p[k], &p[k + 1]);
        if (want("C05") || want("C15")) && dist > limit + 1e-9 { o.report(scen, seed, format!("segment #{} has length {} > configured limit {}", k, dist, limit)); break; }
        if want("C03") || want("C15") || want("C06") {
            // no invalid stretch at least lvsl long on the segment
            let n = ((dist / (lvsl * 0.02)).ceil() as usize).max(2);
            let mut run = 0usize;
            let mut tmp = p[k].clone();
            let mut worst = 0usize;
            for i in 0..=n { sp.interpolate(&p[k], &p[k + 1], i as f64 / n as f64, &mut tmp); if w.free(tmp.values[0], tmp.values[1]) { run = 0; } else { run += 1; worst = worst.max(run); } }
            let stretch = worst as f64 * dist / n as f64;
            if stretch >= lvsl { o.report(scen, seed, format!("segment #{} {:?}->{:?} crosses an invalid stretch of length {:.3} >= resolution {:.3}", k, p[k].values, p[k + 1].values, stretch, lvsl)); break; }
        }
    }
}

fn planners() -> [Pl; 4] { [Pl::Rrt, Pl::Connect, Pl::Star, Pl::Prm] }

/// single queries over worlds x planners x parameter corners (radius above and below the step)
fn fam_paths(o: &mut Out, props: &str, seed0: u64, deadline: Instant) {
    let sp = space();
    'outer: for wk in 0..3u64 {
        for (pi, pl) in planners().into_iter().enumerate() {
            for (qi, (step, radius)) in [(0.5, 1.5), (1.0, 0.8), (0.3, 2.0), (0.54, 0.4), (0.33, 0.25)].into_iter().enumerate() {      // 0.54 / 0.33: not multiples of the motion-check resolution
                for ds in 0..3u64 {
                    if Instant::now() > deadline { break 'outer; }
                    // seeds are a function of the scenario, not of the order of the loops (adding scenarios must not move the others)
                    let k = if qi < 3 { ((wk * 4 + pi as u64) * 3 + qi as u64) * 3 + ds } else { 5000 + ((wk * 4 + pi as u64) * 2 + (qi as u64 - 3)) * 3 + ds };
                    let seed = seed0.wrapping_mul(1000) + k;
                    let w = world(wk);
                    let pdx = pd(&sp, (1.0 + ds as f64 * 0.3, 1.0), (9.0, 8.5 - ds as f64), 0.5);
                    let mut inst = Inst::new(pl, step, radius, 0.1, seed);
                    inst.setup(pdx.clone(), w.clone());
                    if let Ok(path) = inst.solve(Duration::from_millis(400)) {
                        check_path(o, props, &format!("single-query {:?} world{} step{} radius{}", pl, wk, step, radius), seed, &sp, &w, &pdx, &path, Inst::limit(pl, step, radius));
                    }
                }
            }
        }
    }
}

/// many short RRT* runs with a search radius well above the step in walled worlds: choose-parent and rewiring create long edges
/// next to thin obstacles, which is where an unchecked or mis-attributed motion check shows (C01, C03, C05, C15, C17)
fn fam_star_dense(o: &mut Out, props: &str, seed0: u64, deadline: Instant) {
    let sp = space();
    'outer: for ds in 0..24u64 {
        for wk in [0u64, 2, 4] {
            for (qi, (step, radius)) in [(0.3, 2.0), (0.5, 1.5), (0.4, 2.5)].into_iter().enumerate() {
                if Instant::now() > deadline { break 'outer; }
                let seed = seed0.wrapping_mul(1000) + 20_000 + (ds * 3 + wk) * 3 + qi as u64;
                let w = world(wk);
                let pdx = pd(&sp, (1.0 + (ds % 5) as f64 * 0.2, 1.0 + (ds % 3) as f64), (9.0, 8.5 - (ds % 4) as f64), 0.5);
                let mut inst = Inst::new(Pl::Star, step, radius, 0.1, seed);
                inst.setup(pdx.clone(), w.clone());
                if let Ok(path) = inst.solve(Duration::from_millis(300)) {
                    check_path(o, props, &format!("rrt-star dense world{} step{} radius{}", wk, step, radius), seed, &sp, &w, &pdx, &path, Inst::limit(Pl::Star, step, radius));
                }
            }
        }
    }
}

/// many short RRT-Connect runs in cluttered worlds: the junction of the two trees, connect steps that are blocked and the swap of
/// the trees are exercised far more often than in the generic family (C01, C02, C03, C05, C15)
fn fam_connect_dense(o: &mut Out, props: &str, seed0: u64, deadline: Instant) {
    let sp = space();
    'outer: for ds in 0..14u64 {
        for wk in [7u64, 0, 2] {
            for (qi, step) in [0.3, 0.7].into_iter().enumerate() {
                if Instant::now() > deadline { break 'outer; }
                let seed = seed0.wrapping_mul(1000) + 40_000 + (ds * 8 + wk) * 2 + qi as u64;
                let w = if wk == 7 { Arc::new(World { boxes: (0..6).flat_map(|i| (0..6).map(move |j| (1.2 + i as f64 * 1.5, 1.35 + i as f64 * 1.5, 0.9 + j as f64 * 1.6 + (i % 2) as f64 * 0.5, 1.1 + j as f64 * 1.6 + (i % 2) as f64 * 0.5))).collect(), log: Mutex::new(vec![]) }) } else { world(wk) };
                let pdx = pd(&sp, (0.5 + (ds % 5) as f64 * 0.2, 0.4 + (ds % 3) as f64), (9.0, 8.5 - (ds % 4) as f64), 0.5);
                let mut inst = Inst::new(Pl::Connect, step, 1.0, 0.1, seed);
                inst.setup(pdx.clone(), w.clone());
                if let Ok(path) = inst.solve(Duration::from_millis(300)) {
                    check_path(o, props, &format!("rrt-connect dense Connect world{} step{}", wk, step), seed, &sp, &w, &pdx, &path, step);
                }
            }
        }
    }
}

/// the same planners in a world centred on the ORIGIN: coordinates of both signs and of very different magnitudes, where
/// `a + (b - a) * 1.0 != b` and the like happen all the time (in the [0,10]^2 worlds the operands are within a factor of two
/// of each other and most such differences are exact) -- bit-level twins of validated states, off-by-one-ulp end points
fn fam_origin(o: &mut Out, props: &str, seed0: u64, deadline: Instant) {
    let sp: Arc<SP> = Arc::new(RealVectorStateSpace::new(2, Some(vec![(-1.0, 1.0), (-1.0, 1.0)])).unwrap());
    let boxes = vec![(-0.35, -0.25, -1.0, 0.4), (0.2, 0.3, -0.5, 1.0), (-0.05, 0.05, -0.1, 0.1)];
    'outer: for ds in 0..8u64 {
        for (pi, pl) in [Pl::Connect, Pl::Rrt, Pl::Star].into_iter().enumerate() {
            for (qi, (step, radius)) in [(0.3, 0.5), (0.7, 0.4)].into_iter().enumerate() {
                if Instant::now() > deadline { break 'outer; }
                let seed = seed0.wrapping_mul(1000) + 60_000 + (ds * 3 + pi as u64) * 2 + qi as u64;
                let w = Arc::new(World { boxes: boxes.clone(), log: Mutex::new(vec![]) });
                let pdx = pd(&sp, (-0.8 + (ds % 4) as f64 * 0.05, -0.7 + (ds % 3) as f64 * 0.3), (0.8, 0.75 - (ds % 5) as f64 * 0.3), 0.1);
                let mut inst = Inst::new(pl, step, radius, 0.1, seed);
                inst.setup(pdx.clone(), w.clone());
                if let Ok(path) = inst.solve(Duration::from_millis(300)) {
                    check_path(o, props, &format!("around the origin {:?} step{} radius{}", pl, step, radius), seed, &sp, &w, &pdx, &path, Inst::limit(pl, step, radius));
                }
            }
        }
    }
    // a step larger than the world: every extension reaches its target, the trees stay tiny, the roots have short decimal
    // coordinates of small magnitude (0.15 has a finer last bit than any sample) -- many very short runs
    'outer2: for ds in 0..120u64 {
        for (pi, pl) in [Pl::Connect, Pl::Rrt, Pl::Star].into_iter().enumerate() {
            if Instant::now() > deadline { break 'outer2; }
            if pl != Pl::Connect && ds >= 20 { continue; }
            let seed = seed0.wrapping_mul(1000) + 62_000 + ds * 3 + pi as u64;
            let w = Arc::new(World { boxes: boxes.clone(), log: Mutex::new(vec![]) });
            let pdx = pd(&sp, ([0.15, -0.15, 0.1, -0.07][(ds % 4) as usize], [0.3, -0.3, 0.45][(ds % 3) as usize]), (0.45, [0.3, -0.2, 0.7, -0.6, 0.15][(ds % 5) as usize]), 0.01);
            let mut inst = Inst::new(pl, 2.5, 3.0, 0.05, seed);
            inst.setup(pdx.clone(), w.clone());
            if let Ok(path) = inst.solve(Duration::from_millis(200)) {
                check_path(o, props, &format!("around the origin, long step {:?}", pl), seed, &sp, &w, &pdx, &path, Inst::limit(pl, 2.5, 3.0));
            }
        }
    }
}

/// "no limit" budgets: Duration::MAX and other huge limits are well-formed inputs (C08: no panic; C02 etc. on the answer)
fn fam_huge_budget(o: &mut Out, props: &str, seed0: u64) {
    let sp = space();
    for (pi, pl) in planners().into_iter().enumerate() {
        for (bi, budget) in [Duration::MAX, Duration::from_secs(u64::MAX / 2), Duration::from_secs(1u64 << 40)].into_iter().enumerate() {
            let seed = seed0.wrapping_mul(1000) + 81_000 + pi as u64 * 3 + bi as u64;
            let w = world(3);
            let pdx = pd(&sp, (1.0, 1.0), (8.0, 8.0), 0.8);
            let (tx, rx) = std::sync::mpsc::channel();
            let (w2, pdx2) = (w.clone(), pdx.clone());
            std::thread::spawn(move || {
                let mut inst = Inst::new(pl, 0.8, 1.6, 0.2, seed);
                inst.setup(pdx2, w2);
                let _ = tx.send(inst.solve(budget));
            });
            let scen = format!("huge time limit {:?} {:?}", pl, budget);
            match rx.recv_timeout(Duration::from_secs(20)) {
                Ok(Ok(path)) => check_path(o, props, &scen, seed, &sp, &w, &pdx, &path, Inst::limit(pl, 0.8, 1.6)),
                Ok(Err(_)) => {}       // (a panic has been counted by Inst::solve; an error is reported by the C08 / C06 oracles only when it is a panic)
                Err(_) => { if props == "all" || props == "C06" { o.report(&scen, seed, "solve in an obstacle-free world had not returned after 20 s".into()); } }
            }
        }
    }
}

/// call histories: re-setup with another problem / stricter checker, repeated solve, PRM problem replacement
fn fam_histories(o: &mut Out, props: &str, seed0: u64, deadline: Instant) {
    let sp = space();
    // ds outermost: every (variant, planner) pair is visited once before any pair is visited a second time (the budget may end early)
    'outer: for ds in 0..3u64 {
        for variant in 0..15u64 {
            for (pi, pl) in planners().into_iter().enumerate() {
                if Instant::now() > deadline { break 'outer; }
                // seeds are a function of the scenario (variants 0-5 keep the seeds they always had)
                let k = if variant < 6 { (pi as u64 * 6 + variant) * 3 + ds } else if variant >= 12 { 800 + (pi as u64 * 4 + (variant - 12)) * 3 + ds } else if variant == 11 { 700 + pi as u64 * 3 + ds } else if variant < 10 { 300 + (pi as u64 * 4 + (variant - 6)) * 3 + ds } else { 400 + (pi as u64 * 8 + (variant - 10)) * 3 + ds };
                let seed = seed0.wrapping_mul(1000) + 500 + k;
                let (step, radius) = (0.6, 1.2);
                let w_open = world(3);
                let w_wall = world(1);
                let p1 = pd(&sp, (1.0, 1.0 + ds as f64), (2.5, 1.5 + ds as f64), 0.6);
                let p2 = pd(&sp, (9.0, 1.0), (1.0, 9.0 - ds as f64 * 0.5), 0.5);
                let mut inst = Inst::new(pl, step, radius, 0.15, seed);
                let scen = format!("history#{} {:?}", variant, pl);
                match variant {
                    0 => { // setup(P1, open) ; solve ; setup(P2, wall) ; solve
                        inst.setup(p1.clone(), w_open.clone()); let _ = inst.solve(Duration::from_millis(300));
                        inst.setup(p2.clone(), w_wall.clone());
                        if let Ok(path) = inst.solve(Duration::from_millis(500)) { check_path(o, props, &scen, seed, &sp, &w_wall, &p2, &path, Inst::limit(pl, step, radius)); }
                    }
                    1 => { // setup twice, then solve
                        inst.setup(p1.clone(), w_open.clone()); inst.setup(p2.clone(), w_wall.clone());
                        if let Ok(path) = inst.solve(Duration::from_millis(500)) { check_path(o, props, &scen, seed, &sp, &w_wall, &p2, &path, Inst::limit(pl, step, radius)); }
                    }
                    2 => { // solve twice on the same problem
                        inst.setup(p2.clone(), w_wall.clone()); let _ = inst.solve(Duration::from_millis(300));
                        if let Ok(path) = inst.solve(Duration::from_millis(500)) { check_path(o, props, &scen, seed, &sp, &w_wall, &p2, &path, Inst::limit(pl, step, radius)); }
                    }
                    4 | 5 => { // solve with budgets that run out at various points, then retry with a real budget
                        inst.setup(p2.clone(), w_wall.clone());
                        for us in [0u64, 200, 700, 1500, 3000, 6000, 12000] { let _ = inst.solve(Duration::from_micros(us * (1 + variant - 4) + ds * 137)); }
                        if let Ok(path) = inst.solve(Duration::from_millis(600)) { check_path(o, props, &scen, seed, &sp, &w_wall, &p2, &path, Inst::limit(pl, step, radius)); }
                        // and once more after a success
                        if let Ok(path) = inst.solve(Duration::from_millis(600)) { check_path(o, props, &scen, seed, &sp, &w_wall, &p2, &path, Inst::limit(pl, step, radius)); }
                    }
                    6 => { // the SAME problem object again, with a stricter checker: nothing validated against the old checker may survive
                        inst.setup(p2.clone(), w_open.clone()); let _ = inst.solve(Duration::from_millis(300));
                        inst.setup(p2.clone(), w_wall.clone());
                        if let Ok(path) = inst.solve(Duration::from_millis(500)) { check_path(o, props, &scen, seed, &sp, &w_wall, &p2, &path, Inst::limit(pl, step, radius)); }
                    }
                    7 => { // PRM: a first query that fails early (the start is sealed into a tiny cell), then a new problem on the same roadmap
                        if let Inst::Prm(p) = &mut inst {
                            let cell = Arc::new(World { boxes: vec![(0.8, 1.2, 0.8, 0.95), (0.8, 1.2, 1.05, 1.2), (0.8, 0.95, 0.8, 1.2), (1.05, 1.2, 0.8, 1.2)], log: Mutex::new(vec![]) });
                            let sealed = pd(&sp, (1.0, 1.0), (8.0, 2.0 + ds as f64), 0.7);
                            let vc: Arc<dyn StateValidityChecker<S>> = cell.clone();
                            p.setup(sealed.clone(), vc); let _ = p.construct_roadmap();
                            let _ = p.solve(Duration::from_millis(300));
                            let _ = p.solve(Duration::from_micros(1));          // and one that runs out of time
                            p.set_problem_definition(p2.clone());
                            if let Ok(path) = p.solve(Duration::from_millis(500)) { check_path(o, props, &scen, seed, &sp, &cell, &p2, &path, radius); }
                        }
                    }
                    8 => { // several start states, the first one invalid: no planner may root its answer in an invalid state
                        // (the obstacle under the first start is a sliver narrower than the motion-check spacing, so a tree rooted there can leave it)
                        let sliver = Arc::new(World { boxes: vec![(4.99, 5.01, 0.0, 6.0)], log: Mutex::new(vec![]) });
                        let multi = Arc::new(ProblemDefinition { space: sp.clone(), start_states: vec![RealVectorState::new(vec![5.0, 2.0 + ds as f64]), RealVectorState::new(vec![9.0, 1.0])], goal: Arc::new(DiscGoal { c: (1.0, 9.0), r: 0.5 }) });
                        inst.setup(multi.clone(), sliver.clone());
                        if let Ok(path) = inst.solve(Duration::from_millis(400)) { check_path(o, props, &scen, seed, &sp, &sliver, &multi, &path, Inst::limit(pl, step, radius)); }
                    }
                    9 => { // a start just outside the sampling bounds (the checker accepts it): the path still starts exactly there.
                           // Only for C02: such a path legitimately has an out-of-bounds first state (C04 premise: start inside).
                        if props == "C02" || props == "C01" {
                            // a sliver obstacle sits exactly on the boundary x = 0: the projection of the start onto the bounds is invalid
                            let edge = Arc::new(World { boxes: vec![(-0.01, 0.02, 0.0, 10.0)], log: Mutex::new(vec![]) });
                            let outside = pd(&sp, (-0.25, 5.0 + ds as f64), (2.5, 5.0), 0.6);
                            inst.setup(outside.clone(), edge.clone());
                            if let Ok(path) = inst.solve(Duration::from_millis(400)) { check_path(o, props, &scen, seed, &sp, &edge, &outside, &path, Inst::limit(pl, step, radius)); }
                        }
                    }
                    10 => { // PRM: roadmap built for a valid start, then a new problem whose start lies marginally inside the wall
                        if let Inst::Prm(p) = &mut inst {
                            let vc: Arc<dyn StateValidityChecker<S>> = w_wall.clone();
                            p.setup(p2.clone(), vc); let _ = p.construct_roadmap();
                            let inside = pd(&sp, (4.503 + ds as f64 * 0.002, 5.0), (1.0, 9.0), 0.6);
                            p.set_problem_definition(inside.clone());
                            if let Ok(path) = p.solve(Duration::from_millis(500)) { check_path(o, props, &scen, seed, &sp, &w_wall, &inside, &path, radius); }
                        }
                    }
                    11 => { // several start states, the FIRST valid and a later one marginally inside an obstacle next to the goal:
                            // the answer still starts at the first start state and contains no rejected state
                        let multi = Arc::new(ProblemDefinition { space: sp.clone(), start_states: vec![RealVectorState::new(vec![9.0, 1.0]), RealVectorState::new(vec![4.497 - ds as f64 * 0.001, 8.6])], goal: Arc::new(DiscGoal { c: (3.6, 8.6), r: 0.5 }) });
                        let w_top = Arc::new(World { boxes: vec![(4.49, 5.5, 0.0, 10.0)], log: Mutex::new(vec![]) });
                        let _ = &w_top;
                        let wall2 = Arc::new(World { boxes: vec![(4.49, 5.5, 2.0, 10.0)], log: Mutex::new(vec![]) });
                        inst.setup(multi.clone(), wall2.clone());
                        if let Ok(path) = inst.solve(Duration::from_millis(500)) { check_path(o, props, &scen, seed, &sp, &wall2, &multi, &path, Inst::limit(pl, step, radius)); }
                    }
                    12 => { // the same planner object on a much LARGER space first, then on the ordinary one with a thin wall: nothing
                            // derived from the first space (resolution, extent, trees) may survive the second setup
                        let big: Arc<SP> = Arc::new(RealVectorStateSpace::new(2, Some(vec![(0.0, 1000.0), (0.0, 1000.0)])).unwrap());
                        let pbig = pd(&big, (100.0, 100.0), (900.0, 800.0 + ds as f64), 30.0);
                        // (steps well above the resolution of the ordinary space, 0.707: a motion checked at its ends only leaves a gap)
                        let (step, radius) = (2.0, 2.5);
                        let mut inst = Inst::new(pl, step, radius, 0.15, seed);
                        inst.setup(pbig.clone(), w_open.clone()); let _ = inst.solve(Duration::from_millis(150));
                        inst.setup(p2.clone(), w_wall.clone());
                        if let Ok(path) = inst.solve(Duration::from_millis(500)) { check_path(o, props, &scen, seed, &sp, &w_wall, &p2, &path, Inst::limit(pl, step, radius)); }
                    }
                    13 => { // ... and on the ordinary space first, then on a SMALLER box: the second answer lies in the second box
                        let small: Arc<SP> = Arc::new(RealVectorStateSpace::new(2, Some(vec![(0.0, 5.0), (0.0, 5.0)])).unwrap());
                        // (the first problem leaves its trees next to the upper right corner of the small box; the second one runs from
                        // the lower right to the upper left corner)
                        let psmall = pd(&small, (4.5, 0.5 + ds as f64 * 0.3), (0.5, 4.5), 0.4);
                        let pfar = pd(&sp, (4.0, 4.0), (9.0, 9.0 - ds as f64 * 0.5), 0.5);
                        inst.setup(pfar.clone(), w_open.clone()); let _ = inst.solve(Duration::from_millis(300));
                        inst.setup(psmall.clone(), w_open.clone());
                        if let Ok(path) = inst.solve(Duration::from_millis(500)) { check_path(o, props, &scen, seed, &small, &w_open, &psmall, &path, Inst::limit(pl, step, radius)); }
                    }
                    14 => { // PRM: a chained query that starts one ulp away from a milestone (where the previous answer ended), and one
                            // that starts exactly on it: the answer starts at the start state bit for bit
                        if let Inst::Prm(p) = &mut inst {
                            let vc: Arc<dyn StateValidityChecker<S>> = w_open.clone();
                            p.setup(p2.clone(), vc); let _ = p.construct_roadmap();
                            if let Ok(first) = p.solve(Duration::from_millis(500)) {
                                let last = first.0[first.0.len() - 1].clone();
                                for nudge in [1i64, 0, -1] {
                                    let x = f64::from_bits((last.values[0].to_bits() as i64 + nudge) as u64);
                                    let chained = pd(&sp, (x, last.values[1]), (9.0, 1.0 + ds as f64), 0.6);
                                    p.set_problem_definition(chained.clone());
                                    if let Ok(path) = p.solve(Duration::from_millis(500)) { check_path(o, props, &scen, seed, &sp, &w_open, &chained, &path, radius); }
                                }
                            }
                        }
                    }
                    _ => { // PRM: reuse the roadmap for a new start / goal
                        if let Inst::Prm(p) = &mut inst {
                            let vc: Arc<dyn StateValidityChecker<S>> = w_wall.clone();
                            p.setup(p1.clone(), vc); let _ = p.construct_roadmap(); let _ = p.solve(Duration::from_millis(300));
                            p.set_problem_definition(p2.clone()); let _ = p.construct_roadmap();
                            if let Ok(path) = p.solve(Duration::from_millis(500)) { check_path(o, props, &scen, seed, &sp, &w_wall, &p2, &path, radius); }
                        }
                    }
                }
            }
        }
    }
}

fn same(a: &Result<Path<S>, PlanningError>, b: &Result<Path<S>, PlanningError>) -> bool {
    match (a, b) {
        (Ok(x), Ok(y)) => x.0.len() == y.0.len() && x.0.iter().zip(y.0.iter()).all(|(s, t)| s.values.iter().zip(t.values.iter()).all(|(u, v)| u.to_bits() == v.to_bits())),
        (Err(PlanningError::Timeout), _) | (_, Err(PlanningError::Timeout)) => true, // iteration counts may differ with wall-clock time
        (Err(x), Err(y)) => x == y,
        _ => false,
    }
}
/// C07: two identically seeded instances, same call sequence (incl. early direct hits, re-setup, repeated solve)
/// a space whose sampler stalls past the roadmap construction budget on its N-th draw: every PRM built over it has drawn exactly N samples
struct PinnedSpace { inner: SP, n: usize, count: std::sync::atomic::AtomicUsize }
impl StateSpace for PinnedSpace {
    type StateType = S;
    fn distance(&self, a: &S, b: &S) -> f64 { self.inner.distance(a, b) }
    fn interpolate(&self, a: &S, b: &S, t: f64, o: &mut S) { self.inner.interpolate(a, b, t, o) }
    fn enforce_bounds(&self, s: &mut S) { self.inner.enforce_bounds(s) }
    fn satisfies_bounds(&self, s: &S) -> bool { self.inner.satisfies_bounds(s) }
    fn sample_uniform(&self, rng: &mut impl Rng) -> Result<S, StateSamplingError> {
        let k = self.count.fetch_add(1, std::sync::atomic::Ordering::SeqCst) + 1;
        let s = self.inner.sample_uniform(rng);
        if k % self.n == 0 { std::thread::sleep(Duration::from_millis(120)); }
        s
    }
    fn get_longest_valid_segment_length(&self) -> f64 { self.inner.get_longest_valid_segment_length() }
}
/// C07 for PRM: with the number of samples pinned, two identically seeded planners build the same roadmap and answer alike;
/// the seeds include 0 and u64::MAX
fn fam_prm_determinism(o: &mut Out, seed0: u64) {
    for seed in [0u64, seed0.wrapping_mul(1000) + 900, u64::MAX] {
        let run = || {
            let sp = Arc::new(PinnedSpace { inner: RealVectorStateSpace::new(2, Some(vec![(0.0, 10.0), (0.0, 10.0)])).unwrap(), n: 150, count: Default::default() });
            let pdx = Arc::new(ProblemDefinition { space: sp.clone(), start_states: vec![RealVectorState::new(vec![1.0, 1.0])], goal: Arc::new(DiscGoal { c: (8.0, 8.0), r: 1.5 }) });
            let mut prm: PRM<S, PinnedSpace, DiscGoal> = PRM::new(0.1, 2.0, &PlannerConfig { seed: Some(seed) });
            let vc: Arc<dyn StateValidityChecker<S>> = world(3);
            prm.setup(pdx, vc);
            let _ = prm.construct_roadmap();
            (prm.get_roadmap().len(), prm.solve(Duration::from_secs(3)))
        };
        let (a, b) = (run(), run());
        if a.0 != b.0 { continue; }      // the pin did not hold on this machine: nothing to compare
        if !same(&a.1, &b.1) { o.report("determinism PRM", seed, format!("two PRM planners seeded with {} drew {} samples each and answer differently", seed, a.0)); }
    }
}
fn fam_determinism(o: &mut Out, seed0: u64, deadline: Instant) {
    let sp = space();
    // RRT-Connect with a goal region that overlaps an obstacle: however the goal-tree root is chosen, it is chosen from the seed
    for ds in 0..8u64 {
        let seed = seed0.wrapping_mul(1000) + 850 + ds;
        let over = pd(&sp, (1.0, 1.0), (5.55, 2.0 + ds as f64 * 0.7), 0.45);      // the wall of world(1) covers x in [4.5, 5.5]
        let run = || {
            let mut inst = Inst::new(Pl::Connect, 0.7, 1.4, 0.2, seed);
            let w = world(1);
            let mut rs = vec![];
            inst.setup(over.clone(), w.clone()); rs.push(inst.solve(Duration::from_millis(400)));
            inst.setup(over.clone(), w.clone()); rs.push(inst.solve(Duration::from_millis(400)));
            rs
        };
        let (a, b) = (run(), run());
        for i in 0..a.len() {
            // after a solve that ran out of time the generator state depends on the wall clock: nothing further is comparable
            if matches!(a[i], Err(PlanningError::Timeout)) || matches!(b[i], Err(PlanningError::Timeout)) { break; }
            if !same(&a[i], &b[i]) { o.report("determinism Connect goal over obstacle", seed, format!("two identically seeded instances disagree at solve #{}", i)); break; }
        }
    }
    let mut k = 0u64;
    'outer: for pl in [Pl::Rrt, Pl::Connect, Pl::Star] {
        for ds in 0..6u64 {
            if Instant::now() > deadline { break 'outer; }
            let seed = seed0.wrapping_mul(1000) + 800 + k; k += 1;
            let near = pd(&sp, (1.0, 1.0), (1.6, 1.2 + 0.1 * ds as f64), 0.9);   // start next to a large goal: direct hit
            let far = pd(&sp, (1.0, 1.0), (9.0, 9.0 - ds as f64), 0.5);
            let run = || {
                let mut inst = Inst::new(pl, 0.7, 1.4, 0.2, seed);
                let w = world(1);
                let mut rs = vec![];
                inst.setup(near.clone(), w.clone()); rs.push(inst.solve(Duration::from_secs(3)));
                inst.setup(far.clone(), w.clone()); rs.push(inst.solve(Duration::from_secs(3)));
                rs.push(inst.solve(Duration::from_secs(3)));
                rs
            };
            let (a, b) = (run(), run());
            for i in 0..a.len() { if !same(&a[i], &b[i]) { o.report(&format!("determinism {:?}", pl), seed, format!("two identically seeded instances disagree at solve #{} of setup,solve,setup,solve,solve", i)); break; } }
        }
    }
}

/// the genuine defects found on the unchanged tree (DESIGN.md section 7): each fires on the original commit and is
/// silent after its `fix:` commit
fn fam_defects(o: &mut Out) {
    use oxmpl::base::space::SO2StateSpace;
    use oxmpl::base::state::SO2State;
    let sp = space();
    // D1: a start inside an obstacle must be reported as InvalidStartState (RRT, RRT*, RRT-Connect)
    for pl in [Pl::Rrt, Pl::Star, Pl::Connect] {
        let w = Arc::new(World { boxes: vec![(0.5, 1.5, 0.5, 1.5)], log: Mutex::new(vec![]) });
        let pdx = pd(&sp, (1.0, 1.0), (8.0, 8.0), 0.5);
        let mut inst = Inst::new(pl, 0.5, 1.0, 0.1, 3);
        inst.setup(pdx.clone(), w.clone());
        match inst.solve(Duration::from_millis(800)) {
            Err(PlanningError::InvalidStartState) => {}
            Ok(p) => o.report("D1 invalid start", 3, format!("{:?}: returned a path of {} states whose first state {:?} the checker rejects", pl, p.0.len(), p.0[0].values)),
            Err(e) => o.report("D1 invalid start", 3, format!("{:?}: invalid start reported as {:?}, not InvalidStartState", pl, e)),
        }
    }
    // D2: the end state of a subdivided motion is itself submitted to the checker (1-D knife edge: a + (b - a) * 1.0 != b)
    {
        let sp1 = Arc::new(RealVectorStateSpace::new(1, Some(vec![(-10.0, 10.0)])).unwrap());
        let (a, b) = (-5.206970073490482f64, 6.30772271216253f64);
        struct RejectB(f64);
        impl StateValidityChecker<S> for RejectB { fn is_valid(&self, s: &S) -> bool { s.values[0].to_bits() != self.0.to_bits() } }
        struct PointGoal(f64);
        impl Goal<S> for PointGoal { fn is_satisfied(&self, s: &S) -> bool { s.values[0].to_bits() == self.0.to_bits() } }
        impl GoalRegion<S> for PointGoal { fn distance_goal(&self, s: &S) -> f64 { (s.values[0] - self.0).abs() } }
        impl GoalSampleableRegion<S> for PointGoal { fn sample_goal(&self, _r: &mut impl Rng) -> Result<S, StateSamplingError> { Ok(RealVectorState::new(vec![self.0])) } }
        let pdx = Arc::new(ProblemDefinition { space: sp1.clone(), start_states: vec![RealVectorState::new(vec![a])], goal: Arc::new(PointGoal(b)) });
        let mut pl: RRT<S, SP, PointGoal> = RRT::new(100.0, 1.0, &PlannerConfig { seed: Some(1) });
        pl.setup(pdx, Arc::new(RejectB(b)));
        if let Ok(p) = pl.solve(Duration::from_millis(300)) { o.report("D2 end state of a motion", 1, format!("RRT returned a path ending in {:?}, a state the checker rejects (only interpolate(a,b,1.0) was validated)", p.0[p.0.len() - 1].values)); }
    }
    // D6 / D7: a seeded planner stays reproducible over several calls (generator stored back; goal root from the planner's generator)
    fam_determinism(o, 0, Instant::now() + Duration::from_secs(20));
    // D9 / D14: SO(2) enforce_bounds canonicalises, and the check accepts what enforce produced
    {
        let s2 = SO2StateSpace::new(None).unwrap();
        let mut st = SO2State { value: 7.0 };
        s2.enforce_bounds(&mut st);
        if !(st.value >= -std::f64::consts::PI && st.value <= std::f64::consts::PI) { o.report("D9 so2 enforce", 0, format!("enforce_bounds leaves the non-canonical angle {}", st.value)); }
        let s3 = SO2StateSpace::new(Some((-1.0, 0.1))).unwrap();
        let mut st = SO2State { value: 0.2 };
        s3.enforce_bounds(&mut st);
        if !s3.satisfies_bounds(&st) { o.report("D14 so2 bound itself", 0, format!("after enforce_bounds the state {:?} fails satisfies_bounds", st.value)); }
    }
    // D11 / D12: constructors reject NaN bounds and intervals outside [-PI, PI]
    if SO2StateSpace::new(Some((4.0, 5.0))).is_ok() { o.report("D11 so2 ctor", 0, "SO2StateSpace::new(Some((4.0, 5.0))) is Ok (stored interval is empty)".into()); }
    if SO2StateSpace::new(Some((f64::INFINITY, f64::NAN))).is_ok() { o.report("D11 so2 ctor", 0, "SO2StateSpace::new(Some((inf, NaN))) is Ok".into()); }
    if RealVectorStateSpace::new(1, Some(vec![(f64::NAN, 1.0)])).is_ok() { o.report("D12 rv ctor", 0, "RealVectorStateSpace::new(1, Some(vec![(NaN, 1.0)])) is Ok".into()); }
    // D10: sampling a box whose width overflows reports an error instead of panicking
    {
        let big = RealVectorStateSpace::new(1, Some(vec![(-1e308, 1e308)])).unwrap();
        let r = std::panic::catch_unwind(|| { let mut rng = rand::rng(); big.sample_uniform(&mut rng).is_err() });
        if r.is_err() { o.report("D10 rv sample", 0, "sample_uniform panics for bounds (-1e308, 1e308)".into()); }
    }
}

/// C16 goal bias: bias 0 never draws from the goal sampler, bias 1 never from the space sampler (counting wrappers)
struct CountGoal { inner: DiscGoal, n: std::sync::atomic::AtomicUsize }
impl Goal<S> for CountGoal { fn is_satisfied(&self, s: &S) -> bool { self.inner.is_satisfied(s) } }
impl GoalRegion<S> for CountGoal { fn distance_goal(&self, s: &S) -> f64 { self.inner.distance_goal(s) } }
impl GoalSampleableRegion<S> for CountGoal {
    fn sample_goal(&self, rng: &mut impl Rng) -> Result<S, StateSamplingError> { self.n.fetch_add(1, std::sync::atomic::Ordering::SeqCst); self.inner.sample_goal(rng) }
}
struct CountSpace { inner: SP, n: std::sync::atomic::AtomicUsize }
impl StateSpace for CountSpace {
    type StateType = S;
    fn distance(&self, a: &S, b: &S) -> f64 { self.inner.distance(a, b) }
    fn interpolate(&self, a: &S, b: &S, t: f64, o: &mut S) { self.inner.interpolate(a, b, t, o) }
    fn enforce_bounds(&self, s: &mut S) { self.inner.enforce_bounds(s) }
    fn satisfies_bounds(&self, s: &S) -> bool { self.inner.satisfies_bounds(s) }
    fn sample_uniform(&self, rng: &mut impl Rng) -> Result<S, StateSamplingError> { self.n.fetch_add(1, std::sync::atomic::Ordering::SeqCst); self.inner.sample_uniform(rng) }
    fn get_longest_valid_segment_length(&self) -> f64 { self.inner.get_longest_valid_segment_length() }
}
fn fam_bias(o: &mut Out, seed0: u64) {
    use std::sync::atomic::Ordering::SeqCst;
    // `late`: the planner is built with the opposite bias and the public field `goal_bias` is assigned afterwards -- the bias in
    // force is the configured one, i.e. the value of the field when solve runs
    for late in [false, true] {
    for which in 0..3u8 {
        for bias in [0.0f64, 1.0] {
            for wk in [1u64, 3, 4] {
                if late && wk != 3 { continue; }
                let b0 = if late { 1.0 - bias } else { bias };
                let sp = Arc::new(CountSpace { inner: RealVectorStateSpace::new(2, Some(vec![(0.0, 10.0), (0.0, 10.0)])).unwrap(), n: Default::default() });
                let goal = Arc::new(CountGoal { inner: DiscGoal { c: (9.0, 9.0), r: 0.4 }, n: Default::default() });
                let pdx = Arc::new(ProblemDefinition { space: sp.clone(), start_states: vec![RealVectorState::new(vec![1.0, 1.0])], goal: goal.clone() });
                let vc: Arc<dyn StateValidityChecker<S>> = world(wk);
                let cfg = PlannerConfig { seed: Some(seed0 + 5) };
                let name;
                let setup_goal_calls;
                match which {
                    0 => { name = "Rrt"; let mut p: RRT<S, CountSpace, CountGoal> = RRT::new(0.6, b0, &cfg); p.goal_bias = bias; p.setup(pdx.clone(), vc); setup_goal_calls = goal.n.load(SeqCst); let _ = p.solve(Duration::from_millis(150)); }
                    1 => { name = "Star"; let mut p: RRTStar<S, CountSpace, CountGoal> = RRTStar::new(0.6, b0, 1.0, &cfg); p.goal_bias = bias; p.setup(pdx.clone(), vc); setup_goal_calls = goal.n.load(SeqCst); let _ = p.solve(Duration::from_millis(150)); }
                    _ => { name = "Connect"; let mut p: RRTConnect<S, CountSpace, CountGoal> = RRTConnect::new(0.6, b0, &cfg); p.goal_bias = bias; p.setup(pdx.clone(), vc); setup_goal_calls = goal.n.load(SeqCst); let _ = p.solve(Duration::from_millis(150)); }
                }
                let (g, u) = (goal.n.load(SeqCst) - setup_goal_calls, sp.n.load(SeqCst));
                if bias == 0.0 && g > 0 { o.report(&format!("goal bias 0 {} world{}", name, wk), seed0 + 5, format!("the goal sampler was called {} times during solve with goal_bias = 0", g)); }
                if bias == 1.0 && u > 0 { o.report(&format!("goal bias 1 {} world{}", name, wk), seed0 + 5, format!("the space sampler was called {} times with goal_bias = 1", u)); }
            }
        }
    }
    }
}

/// parameters assigned through the planners' public fields after construction are the configured ones (C05: step / radius)
fn fam_fields(o: &mut Out, props: &str, seed0: u64) {
    let sp = space();
    for (pi, pl) in planners().into_iter().enumerate() {
        for wk in [0u64, 3] {
            let seed = seed0.wrapping_mul(1000) + 80_000 + pi as u64 * 2 + wk;
            let w = world(wk);
            let pdx = pd(&sp, (1.0, 1.0), (9.0, 8.5), 0.5);
            let cfg = PlannerConfig { seed: Some(seed) };
            let (step, radius) = (0.4, 0.9);
            let mut inst = match pl {
                Pl::Rrt => { let mut p = RRT::new(3.0, 0.1, &cfg); p.max_distance = step; Inst::Rrt(p) }
                Pl::Connect => { let mut p = RRTConnect::new(3.0, 0.1, &cfg); p.max_distance = step; Inst::Connect(p) }
                Pl::Star => { let mut p = RRTStar::new(3.0, 0.1, 4.0, &cfg); p.max_distance = step; p.search_radius = radius; Inst::Star(p) }
                Pl::Prm => { let mut p = PRM::new(0.25, 4.0, &cfg); p.connection_radius = radius; Inst::Prm(p) }
            };
            inst.setup(pdx.clone(), w.clone());
            if let Ok(path) = inst.solve(Duration::from_millis(500)) {
                check_path(o, props, &format!("parameters assigned through the public fields {:?} world{}", pl, wk), seed, &sp, &w, &pdx, &path, Inst::limit(pl, step, radius));
            }
        }
    }
}

/// C18: PRM against a reference roadmap.  The space replays a fixed sample list (then an invalid sentinel), the world is
/// obstacle-free, so the reference graph (link iff dist < radius) and a reference BFS give the exact expected outcome.
struct ReplaySpace { inner: SP, list: Vec<(f64, f64)>, next: std::sync::atomic::AtomicUsize }
impl StateSpace for ReplaySpace {
    type StateType = S;
    fn distance(&self, a: &S, b: &S) -> f64 { self.inner.distance(a, b) }
    fn interpolate(&self, a: &S, b: &S, t: f64, o: &mut S) { self.inner.interpolate(a, b, t, o) }
    fn enforce_bounds(&self, s: &mut S) { self.inner.enforce_bounds(s) }
    fn satisfies_bounds(&self, s: &S) -> bool { self.inner.satisfies_bounds(s) }
    fn sample_uniform(&self, _rng: &mut impl Rng) -> Result<S, StateSamplingError> {
        let k = self.next.fetch_add(1, std::sync::atomic::Ordering::SeqCst);
        let (x, y) = if k < self.list.len() { self.list[k] } else { (-5.0, -5.0) };
        Ok(RealVectorState::new(vec![x, y]))
    }
    fn get_longest_valid_segment_length(&self) -> f64 { self.inner.get_longest_valid_segment_length() }
}
// ---------------------------------------------------------------------------------------------- C16 reference extension
#[derive(Clone)]
enum Ev { Sample(S), Added(S) }
struct LogSpace { inner: SP, log: Arc<Mutex<Vec<Ev>>> }
impl StateSpace for LogSpace {
    type StateType = S;
    fn distance(&self, a: &S, b: &S) -> f64 { self.inner.distance(a, b) }
    fn interpolate(&self, a: &S, b: &S, t: f64, o: &mut S) { self.inner.interpolate(a, b, t, o) }
    fn enforce_bounds(&self, s: &mut S) { self.inner.enforce_bounds(s) }
    fn satisfies_bounds(&self, s: &S) -> bool { self.inner.satisfies_bounds(s) }
    fn sample_uniform(&self, rng: &mut impl Rng) -> Result<S, StateSamplingError> { let s = self.inner.sample_uniform(rng)?; self.log.lock().unwrap().push(Ev::Sample(s.clone())); Ok(s) }
    fn get_longest_valid_segment_length(&self) -> f64 { self.inner.get_longest_valid_segment_length() }
}
struct LogGoal { inner: DiscGoal, log: Arc<Mutex<Vec<Ev>>> }
impl Goal<S> for LogGoal { fn is_satisfied(&self, s: &S) -> bool { self.log.lock().unwrap().push(Ev::Added(s.clone())); self.inner.is_satisfied(s) } }
impl GoalRegion<S> for LogGoal { fn distance_goal(&self, s: &S) -> f64 { self.inner.distance_goal(s) } }
impl GoalSampleableRegion<S> for LogGoal {
    fn sample_goal(&self, rng: &mut impl Rng) -> Result<S, StateSamplingError> { let s = self.inner.sample_goal(rng)?; self.log.lock().unwrap().push(Ev::Sample(s.clone())); Ok(s) }
}
/// C16: RRT and RRT* test the goal on exactly the node they have just added, so the goal sees every added node and the space /
/// goal see every sample.  Replaying the log against an independent nearest-neighbour + steering computation checks, iteration
/// by iteration: at most one node per sample; the node is the steering result from the NEAREST node (bit for bit); and the
/// motion from that nearest node to it is free (no invalid stretch as long as the resolution).
fn fam_extension_reference(o: &mut Out, seed0: u64, deadline: Instant) {
    'outer: for ds in 0..6u64 {
        for wk in [7u64, 0, 2] {
            for (star, step, radius) in [(false, 0.6, 0.0), (true, 0.6, 1.3), (true, 0.4, 2.0), (true, 1.2, 2.0), (true, 1.0, 0.8), (true, 0.7, 0.7)] {      // (the last two: a radius that does not exceed the step)
                if Instant::now() > deadline { break 'outer; }
                let seed = seed0.wrapping_mul(1000) + 30_000 + (ds * 8 + wk) * 40 + (step * 10.0) as u64 + star as u64 + (radius * 2.0) as u64;
                let log = Arc::new(Mutex::new(vec![]));
                let sp = Arc::new(LogSpace { inner: RealVectorStateSpace::new(2, Some(vec![(0.0, 10.0), (0.0, 10.0)])).unwrap(), log: log.clone() });
                // world 7: a field of small boxes (an edge can be blocked while a slightly different edge to the same node is free)
                let w = if wk == 7 { Arc::new(World { boxes: (0..6).flat_map(|i| (0..6).map(move |j| (1.2 + i as f64 * 1.5, 1.35 + i as f64 * 1.5, 0.9 + j as f64 * 1.6 + (i % 2) as f64 * 0.5, 1.1 + j as f64 * 1.6 + (i % 2) as f64 * 0.5))).collect(), log: Mutex::new(vec![]) }) } else { world(wk) };
                let start = RealVectorState::new(vec![0.5 + ds as f64 * 0.1, 0.4]);
                let pdx = Arc::new(ProblemDefinition { space: sp.clone(), start_states: vec![start.clone()], goal: Arc::new(LogGoal { inner: DiscGoal { c: (9.0, 8.5 - ds as f64), r: 0.5 }, log: log.clone() }) });
                let vc: Arc<dyn StateValidityChecker<S>> = w.clone();
                let cfg = PlannerConfig { seed: Some(seed) };
                let name = if star { "RRT*" } else { "RRT" };
                // two solve calls on the same instance (odd ds): the second one goes on from the tree the first one left, and so does the reference
                let twice = ds % 2 == 1;
                let log2 = log.clone();
                let r = std::panic::catch_unwind(std::panic::AssertUnwindSafe(|| {
                    if star {
                        let mut p: RRTStar<S, LogSpace, LogGoal> = RRTStar::new(step, 0.1, radius, &cfg); p.setup(pdx.clone(), vc.clone());
                        let r1 = p.solve(Duration::from_millis(250)); let mark = log2.lock().unwrap().len();
                        if twice && r1.is_ok() { let r2 = p.solve(Duration::from_millis(150)); vec![(mark, r1), (usize::MAX, r2)] } else { vec![(usize::MAX, r1)] }
                    } else {
                        let mut p: RRT<S, LogSpace, LogGoal> = RRT::new(step, 0.1, &cfg); p.setup(pdx.clone(), vc.clone());
                        let r1 = p.solve(Duration::from_millis(250)); let mark = log2.lock().unwrap().len();
                        if twice && r1.is_ok() { let r2 = p.solve(Duration::from_millis(150)); vec![(mark, r1), (usize::MAX, r2)] } else { vec![(usize::MAX, r1)] }
                    }
                }));
                let phases = match r { Ok(x) => x, Err(_) => continue };
                let evs = log.lock().unwrap().clone();
                let mut tree: Vec<S> = vec![start.clone()];
                let lvsl = sp.inner.get_longest_valid_segment_length();
                let scen = format!("extension reference {} world{} step{}", name, wk, step);
                // the documented motion check (C03): ceil(d / (0.1 * resolution)) interpolated states and the end state itself
                let ref_motion = |a: &S, b: &S| -> bool {
                    let dist = sp.inner.distance(a, b);
                    let n = (dist / (lvsl * 0.1)).ceil() as usize;
                    if n <= 1 { return w.free(b.values[0], b.values[1]); }
                    let mut tmp = a.clone();
                    for i in 1..=n { sp.inner.interpolate(a, b, i as f64 / n as f64, &mut tmp); if !w.free(tmp.values[0], tmp.values[1]) { return false; } }
                    w.free(b.values[0], b.values[1])
                };
                let mut pending: Option<(S, usize, S, bool)> = None;
                // reference tree bookkeeping (documented RRT* steps 5-8; plain RRT: parent = nearest node)
                let mut parent: Vec<Option<usize>> = vec![None];
                let mut cost: Vec<f64> = vec![0.0];
                let mut clean = true;
                let mut from = 0usize;
                for (mark, solved) in phases.iter() {
                let upto = (*mark).min(evs.len()).min(6000);
                for ev in evs[from.min(upto)..upto].iter() {
                    match ev {
                        Ev::Sample(q) => {
                            if let Some((pq, bi, exp, valid)) = pending.take() {
                                if valid { o.report(&scen, seed, format!("iteration with sample {:?}: no node was added although one step from the nearest node {:?} to {:?} is a free motion", pq.values, tree[bi].values, exp.values)); clean = false; break; }
                            }
                            let (mut bi, mut bd) = (0usize, sp.inner.distance(&tree[0], q));
                            for i in 1..tree.len() { let dd = sp.inner.distance(&tree[i], q); if dd < bd { bd = dd; bi = i; } }
                            let mut exp = tree[bi].clone();
                            if bd > step { sp.inner.interpolate(&tree[bi], q, step / bd, &mut exp); } else { exp = q.clone(); }
                            let valid = ref_motion(&tree[bi], &exp);
                            pending = Some((q.clone(), bi, exp, valid));
                        }
                        Ev::Added(nn) => {
                            let (q, bi, exp, valid) = match pending.take() { Some(p) => p, None => { o.report(&scen, seed, format!("node {:?} was added without a new sample (more than one node per iteration)", nn.values)); clean = false; break; } };
                            if exp.values.iter().zip(&nn.values).any(|(a, b)| a.to_bits() != b.to_bits()) {
                                o.report(&scen, seed, format!("iteration with sample {:?}: node {:?} was added, but one step of {} from the nearest node {:?} towards the sample is {:?}", q.values, nn.values, step, tree[bi].values, exp.values)); clean = false; break;
                            }
                            if !valid { o.report(&scen, seed, format!("iteration with sample {:?}: node {:?} was added although the motion from the nearest node {:?} is blocked", q.values, nn.values, tree[bi].values)); clean = false; break; }
                            // choose parent: the cheapest neighbour within the radius whose motion to the new node is free (nearest node by default)
                            let (mut best, mut min_cost) = (bi, cost[bi] + sp.inner.distance(nn, &tree[bi]));
                            let mut neigh = vec![];
                            if star {
                                for i in 0..tree.len() { if sp.inner.distance(nn, &tree[i]) < radius { neigh.push(i); } }
                                for &i in &neigh { let c = cost[i] + sp.inner.distance(nn, &tree[i]); if c < min_cost && ref_motion(&tree[i], nn) { min_cost = c; best = i; } }
                            }
                            tree.push(nn.clone()); parent.push(Some(best)); cost.push(min_cost);
                            let ni = tree.len() - 1;
                            // rewire: every other neighbour that gets strictly cheaper through the new node by a free motion
                            for &i in &neigh {
                                if parent[ni] == Some(i) { continue; }
                                let c = cost[ni] + sp.inner.distance(&tree[i], &tree[ni]);
                                if c < cost[i] && ref_motion(&tree[ni], &tree[i]) { parent[i] = Some(ni); cost[i] = c; }
                            }
                        }
                    }
                }
                // C15 / C17: the returned path is the reference tree's parent chain of the node that reached the goal (state for state)
                from = upto;
                if clean && evs.len() < 6000 {
                    if let Ok(path) = solved {
                        let mut chain = vec![];
                        let mut cur = Some(tree.len() - 1);
                        let mut guard = 0;
                        while let Some(i) = cur { chain.push(tree[i].clone()); cur = parent[i]; guard += 1; if guard > tree.len() { break; } }
                        chain.reverse();
                        let eq = chain.len() == path.0.len() && chain.iter().zip(&path.0).all(|(a, b)| a.values.iter().zip(&b.values).all(|(x, y)| x.to_bits() == y.to_bits()));
                        if !eq {
                            let k = chain.iter().zip(&path.0).position(|(a, b)| a.values != b.values).unwrap_or(chain.len().min(path.0.len()));
                            o.report(&scen, seed, format!("the returned path ({} states) is not the parent chain of the reference tree built from the same samples by the documented choose-parent / rewire rules ({} states); first difference at state {}: returned {:?}, reference {:?}",
                                path.0.len(), chain.len(), k, path.0.get(k).map(|s| s.values.clone()), chain.get(k).map(|s| s.values.clone())));
                        }
                    }
                }
                if !clean { break; }
                }
            }
        }
    }
}

/// a space whose sampler covers only the right half of the box: queries from the left half start in a gap of the roadmap
struct HalfSpace { inner: SP }
impl StateSpace for HalfSpace {
    type StateType = S;
    fn distance(&self, a: &S, b: &S) -> f64 { self.inner.distance(a, b) }
    fn interpolate(&self, a: &S, b: &S, t: f64, o: &mut S) { self.inner.interpolate(a, b, t, o) }
    fn enforce_bounds(&self, s: &mut S) { self.inner.enforce_bounds(s) }
    fn satisfies_bounds(&self, s: &S) -> bool { self.inner.satisfies_bounds(s) }
    fn sample_uniform(&self, rng: &mut impl Rng) -> Result<S, StateSamplingError> { Ok(RealVectorState::new(vec![rng.random_range(5.0..10.0), rng.random_range(0.0..10.0)])) }
    fn get_longest_valid_segment_length(&self) -> f64 { self.inner.get_longest_valid_segment_length() }
}
/// C05 / C18 / C02: a PRM query whose start has no milestone within the connection radius must fail, not be hooked to a far milestone
fn fam_prm_gap(o: &mut Out, seed0: u64) {
    let radius = 1.0;
    for ds in 0..3u64 {
        let sp = Arc::new(HalfSpace { inner: RealVectorStateSpace::new(2, Some(vec![(0.0, 10.0), (0.0, 10.0)])).unwrap() });
        let mk = |s: (f64, f64), g: (f64, f64)| Arc::new(ProblemDefinition { space: sp.clone(), start_states: vec![RealVectorState::new(vec![s.0, s.1])], goal: Arc::new(DiscGoal { c: g, r: 0.7 }) });
        let mut prm: PRM<S, HalfSpace, DiscGoal> = PRM::new(0.08, radius, &PlannerConfig { seed: Some(seed0 * 10 + ds) });
        let vc: Arc<dyn StateValidityChecker<S>> = Arc::new(OnlyInside);
        prm.setup(mk((6.0, 5.0), (9.0, 8.0)), vc);
        let _ = prm.construct_roadmap();
        for (qi, (s, g)) in [((6.0, 5.0), (9.0, 8.0)), ((2.0, 5.0 + ds as f64), (9.0, 2.0)), ((3.5, 1.0), (8.0, 8.0))].into_iter().enumerate() {
            if qi > 0 { prm.set_problem_definition(mk(s, g)); }
            if let Ok(path) = prm.solve(Duration::from_millis(500)) {
                let p = &path.0;
                for k in 0..p.len().saturating_sub(1) {
                    let dd = sp.inner.distance(&p[k], &p[k + 1]);
                    if dd >= radius + 1e-9 { o.report("prm gap", seed0 * 10 + ds, format!("query {} from {:?}: segment #{} has length {} although links need dist < connection radius {}", qi, s, k, dd, radius)); break; }
                }
            }
        }
    }
}
struct BandGoal { lo: f64, hi: f64 }
impl Goal<S> for BandGoal { fn is_satisfied(&self, s: &S) -> bool { s.values[0] >= self.lo && s.values[0] <= self.hi } }
impl GoalRegion<S> for BandGoal { fn distance_goal(&self, s: &S) -> f64 { (self.lo - s.values[0]).max(s.values[0] - self.hi).max(0.0) } }
impl GoalSampleableRegion<S> for BandGoal { fn sample_goal(&self, rng: &mut impl Rng) -> Result<S, StateSamplingError> { Ok(RealVectorState::new(vec![rng.random_range(self.lo..self.hi), rng.random_range(0.0..10.0)])) } }
/// C01 / C18: in a world that is 90 % obstacle no rejected sample may become a milestone; the goal band lies just inside the obstacle
/// face, so any path that is returned ends in a state the checker rejects
fn fam_prm_dense(o: &mut Out, seed0: u64) {
    let sp = space();
    for ds in 0..3u64 {
        let w = Arc::new(World { boxes: vec![(1.0, 10.0, 0.0, 10.0)], log: Mutex::new(vec![]) });
        let pdx = Arc::new(ProblemDefinition { space: sp.clone(), start_states: vec![RealVectorState::new(vec![0.5, 5.0])], goal: Arc::new(BandGoal { lo: 1.0, hi: 1.06 }) });
        let mut prm: PRM<S, SP, BandGoal> = PRM::new(0.15, 1.0, &PlannerConfig { seed: Some(seed0 * 10 + ds) });
        let vc: Arc<dyn StateValidityChecker<S>> = w.clone();
        prm.setup(pdx.clone(), vc);
        let _ = prm.construct_roadmap();
        if let Ok(path) = prm.solve(Duration::from_millis(500)) {
            for (k, st) in path.0.iter().enumerate() { if !w.free(st.values[0], st.values[1]) { o.report("prm dense obstacles", seed0 * 10 + ds, format!("path state #{} {:?} is rejected by the checker (a rejected sample became a milestone)", k, st.values)); break; } }
        }
    }
}
struct OnlyInside;
impl StateValidityChecker<S> for OnlyInside { fn is_valid(&self, s: &S) -> bool { s.values[0] >= 0.0 && s.values[1] >= 0.0 } }
fn fam_prm_reference(o: &mut Out, seed0: u64) {
    let radius = 1.0;
    for variant in 0..6u64 {
        // grid samples: neighbours are EXACTLY one radius apart, diagonals farther; a few off-grid points create links
        let mut list = vec![];
        for i in 0..5 { for j in 0..4 { if (i + j + variant) % 7 != 0 { list.push((1.0 + i as f64, 1.0 + j as f64)); } } }
        for k in 0..(3 + variant) { list.push((1.5 + k as f64 * 0.9, 1.5 + ((k * 7 + variant) % 4) as f64 * 0.5)); }
        let sp = Arc::new(ReplaySpace { inner: RealVectorStateSpace::new(2, Some(vec![(-10.0, 10.0), (-10.0, 10.0)])).unwrap(), list: list.clone(), next: Default::default() });
        let queries = [((1.2, 1.1), (1.5, 1.5), 0.3), ((1.1, 1.2), (4.5, 3.0), 0.6), ((3.0, 3.6), (1.5, 1.5), 0.2), ((8.0, 8.0), (1.5, 1.5), 0.3)];
        let mut prm: PRM<S, ReplaySpace, DiscGoal> = PRM::new(0.05, radius, &PlannerConfig { seed: Some(seed0) });
        let mk = |q: &((f64, f64), (f64, f64), f64)| Arc::new(ProblemDefinition { space: sp.clone(), start_states: vec![RealVectorState::new(vec![(q.0).0, (q.0).1])], goal: Arc::new(DiscGoal { c: q.1, r: q.2 }) });
        let vc: Arc<dyn StateValidityChecker<S>> = Arc::new(OnlyInside);
        prm.setup(mk(&queries[0]), vc);
        let _ = prm.construct_roadmap();
        let n = list.len();
        if prm.get_roadmap().len() != n { o.report("prm reference", variant, format!("roadmap has {} milestones, {} valid samples were drawn", prm.get_roadmap().len(), n)); continue; }
        let _ = prm.construct_roadmap();
        if prm.get_roadmap().len() != n { o.report("prm reference", variant, "a repeated construct_roadmap changed the roadmap".into()); continue; }
        let dist = |a: (f64, f64), b: (f64, f64)| sp.inner.distance(&RealVectorState::new(vec![a.0, a.1]), &RealVectorState::new(vec![b.0, b.1]));
        for (qi, q) in queries.iter().enumerate() {
            if qi > 0 { prm.set_problem_definition(mk(q)); }
            // reference BFS
            let goal = DiscGoal { c: q.1, r: q.2 };
            let mut depth = vec![usize::MAX; n];
            let mut queue = std::collections::VecDeque::new();
            for i in 0..n { if dist(q.0, list[i]) < radius { depth[i] = 1; queue.push_back(i); } }
            let mut best: Option<usize> = None;
            while let Some(i) = queue.pop_front() {
                if goal.is_satisfied(&RealVectorState::new(vec![list[i].0, list[i].1])) { best = Some(depth[i]); break; }
                for j in 0..n { if depth[j] == usize::MAX && j != i && dist(list[i], list[j]) < radius { depth[j] = depth[i] + 1; queue.push_back(j); } }
            }
            let r = prm.solve(Duration::from_secs(5));
            match (&r, best) {
                (Ok(p), Some(h)) => { if p.0.len() != h + 1 { o.report("prm reference", variant, format!("query {}: path visits {} milestones, the fewest possible is {}", qi, p.0.len() - 1, h)); } }
                (Ok(p), None) => o.report("prm reference", variant, format!("query {}: a path of {} states was returned although no goal milestone is reachable in the reference roadmap (links need dist < radius)", qi, p.0.len())),
                (Err(e), Some(h)) => o.report("prm reference", variant, format!("query {}: {:?} although a goal milestone is reachable in {} hops", qi, e, h)),
                (Err(_), None) => {}
            }
        }
    }
}

/// C06: degenerate parameters must still honour the time limit (run on a thread with a watchdog)
fn fam_deadline(o: &mut Out, seed0: u64) {
    let sp = space();
    // a world in which no sample is ever valid: roadmap construction and solve must still come back
    for pl in planners() {
        let w = Arc::new(World { boxes: vec![(-1.0, 11.0, -1.0, 11.0)], log: Mutex::new(vec![]) });
        let pdx = pd(&sp, (1.0, 1.0), (9.0, 9.0), 0.5);
        let (tx, rx) = std::sync::mpsc::channel();
        let seed = seed0;
        std::thread::spawn(move || {
            let mut inst = Inst::new(pl, 0.5, 1.0, 0.1, seed);
            let t0 = Instant::now();
            inst.setup(pdx.clone(), w.clone());
            let r = inst.solve(Duration::from_millis(60));
            let _ = tx.send((t0.elapsed(), r.is_ok()));
        });
        match rx.recv_timeout(Duration::from_secs(8)) {
            Ok((el, ok)) => { if el > Duration::from_secs(4) || ok { o.report(&format!("deadline {:?} nothing valid", pl), seed, format!("setup + solve(60 ms) in a world without valid states returned after {:?} (path claimed: {})", el, ok)); } }
            Err(_) => o.report(&format!("deadline {:?} nothing valid", pl), seed, "setup (+ construct_roadmap) + solve(60 ms) in a world without valid states had not returned after 8 s".into()),
        }
    }
    for pl in planners() {
        for (step, radius) in [(0.0, 0.5), (1e-5, 1e-5), (1e-3, 5.0), (50.0, 50.0)] {
            let w = world(1);
            let pdx = pd(&sp, (1.0, 1.0), (9.0, 9.0), 0.5);
            let (tx, rx) = std::sync::mpsc::channel();
            let seed = seed0;
            std::thread::spawn(move || {
                let mut inst = Inst::new(pl, step, radius, 0.1, seed);
                inst.setup(pdx.clone(), w.clone());
                let t0 = Instant::now();
                let r = inst.solve(Duration::from_millis(60));
                let _ = tx.send((t0.elapsed(), r.is_ok()));
            });
            match rx.recv_timeout(Duration::from_secs(8)) {
                Ok((el, _)) => { if el > Duration::from_secs(4) { o.report(&format!("deadline {:?} step{} radius{}", pl, step, radius), seed, format!("solve(60 ms) returned after {:?}", el)); } }
                Err(_) => o.report(&format!("deadline {:?} step{} radius{}", pl, step, radius), seed, "solve(60 ms) had not returned after 8 s".into()),
            }
        }
    }
    // the infeasible worlds the property names: goal sealed off, goal region entirely invalid, start sealed in (the start itself
    // is valid, no motion from it is); time limits 0 and 60 ms; and once more with a checker that takes 2 ms per query, where
    // "T plus one planning iteration" is far below a second but a clock that is read only now and then is not
    let cell = 1e-12;
    let worlds: Vec<(&str, Vec<(f64, f64, f64, f64)>)> = vec![
        ("goal sealed off", vec![(7.5, 7.8, 7.5, 11.0), (7.5, 11.0, 7.5, 7.8)]),
        ("goal region entirely invalid", vec![(8.0, 10.0, 8.0, 10.0)]),
        ("start sealed in", vec![(-1.0, 1.0 - cell, -1.0, 11.0), (1.0 + cell, 11.0, -1.0, 11.0), (-1.0, 11.0, -1.0, 1.0 - cell), (-1.0, 11.0, 1.0 + cell, 11.0)]),
    ];
    for (slow, limit_ms, bound_ms) in [(0u64, 0u64, 3000u64), (0, 60, 3000), (2000, 100, 1500)] {
        for (name, boxes) in worlds.iter() {
            for pl in planners() {
                if slow > 0 && pl == Pl::Prm { continue; }      // (roadmap construction has its own budget; covered by the runs above)
                let w = Arc::new(World { boxes: boxes.clone(), log: Mutex::new(vec![]) });
                let pdx = pd(&sp, (1.0, 1.0), (9.0, 9.0), 0.5);
                let (tx, rx) = std::sync::mpsc::channel();
                let seed = seed0.wrapping_mul(1000) + 70_000 + limit_ms;
                std::thread::spawn(move || {
                    let mut inst = Inst::new(pl, 0.5, 0.6, 0.1, seed);
                    inst.setup(pdx.clone(), w.clone());
                    DELAY_US.store(slow, std::sync::atomic::Ordering::SeqCst);
                    let t0 = Instant::now();
                    let r = inst.solve(Duration::from_millis(limit_ms));
                    let el = t0.elapsed();
                    DELAY_US.store(0, std::sync::atomic::Ordering::SeqCst);
                    let _ = tx.send((el, r.is_ok()));
                });
                let scen = format!("deadline {:?} {}{} limit {} ms", pl, name, if slow > 0 { ", 2 ms per validity query" } else { "" }, limit_ms);
                match rx.recv_timeout(Duration::from_secs(8)) {
                    Ok((el, ok)) => {
                        if ok { o.report(&scen, seed, "a path was returned although no valid path to the goal exists".into()); }
                        if el > Duration::from_millis(bound_ms) { o.report(&scen, seed, format!("solve returned after {:?}", el)); }
                    }
                    Err(_) => { DELAY_US.store(0, std::sync::atomic::Ordering::SeqCst); o.report(&scen, seed, "solve had not returned after 8 s".into()); }
                }
            }
        }
    }
}

fn main() {
    let args: Vec<String> = std::env::args().collect();
    let prop = args.get(1).cloned().unwrap_or_else(|| "all".into());
    let seed: u64 = args.get(2).and_then(|s| s.parse().ok()).unwrap_or(0);
    let budget: f64 = args.get(3).and_then(|s| s.parse().ok()).unwrap_or(25.0);
    let deadline = Instant::now() + Duration::from_secs_f64(budget);
    let mut o = Out { n: 0 };
    // the planners print progress lines; scenario output is the JSON lines only
    match prop.as_str() {
        "C07" => { fam_prm_determinism(&mut o, seed); fam_determinism(&mut o, seed, deadline); }
        "C01" | "C02" | "C03" | "C04" | "C05" | "C06" | "C15" | "C18" | "C16" | "C17" | "C08" => {
            let p = if prop == "C18" || prop == "C16" || prop == "C17" || prop == "C08" { "all".to_string() } else { prop.clone() };
            if prop == "C06" { fam_deadline(&mut o, seed); }
            if prop == "C04" { let mut r = spaces::Rep { n: 0 }; spaces::fam_convex(&mut r, seed); o.n += r.n; }      // premise of C04: convex regions
            if prop == "C05" || prop == "C03" { let mut r = spaces::Rep { n: 0 }; spaces::fam_interp(&mut r, seed); o.n += r.n; }      // premise of C05 and of C03 (the motion check spaces its queries by the distance): interpolation at constant speed
            if prop == "C15" || prop == "C17" { fam_extension_reference(&mut o, seed, Instant::now() + Duration::from_secs_f64(budget / 3.0)); }
            if prop == "C16" { fam_bias(&mut o, seed); fam_extension_reference(&mut o, seed, Instant::now() + Duration::from_secs_f64(budget / 3.0)); }
            // the scripted-roadmap reference (exact link rule, reference BFS) also exposes wrong start connections / over-long first edges
            if prop == "C18" || prop == "C05" || prop == "C02" || prop == "C03" { fam_prm_reference(&mut o, seed); }
            if prop == "C18" || prop == "C05" { fam_prm_gap(&mut o, seed); }
            if prop == "C05" || prop == "C15" { fam_fields(&mut o, &p, seed); }
            if prop == "C18" || prop == "C01" || prop == "C15" { fam_prm_dense(&mut o, seed); }
            if prop == "C08" || prop == "C06" || prop == "C02" { fam_huge_budget(&mut o, &p, seed); }
            let half = Instant::now() + Duration::from_secs_f64(budget / 2.0);      // (after the premise families: they do not eat into the histories)
            let deadline = deadline.max(half + Duration::from_secs_f64(budget / 2.0));
            fam_histories(&mut o, &p, seed, half);
            fam_paths(&mut o, &p, seed, deadline);
            fam_star_dense(&mut o, &p, seed, deadline + Duration::from_secs_f64(budget / 3.0));
            fam_connect_dense(&mut o, &p, seed, deadline + Duration::from_secs_f64(budget / 2.5));
            fam_origin(&mut o, &p, seed, deadline + Duration::from_secs_f64(budget / 2.0));
            let n = PANICS.load(std::sync::atomic::Ordering::SeqCst);
            if n > 0 && (prop == "C08" || prop == "C15" || prop == "C02" || prop == "C06") { o.report("panic", seed, format!("{} planner call(s) on well-formed inputs panicked", n)); }
        }
        "C09" | "C10" | "C11" | "C12" | "C13" => {
            let mut r = spaces::Rep { n: 0 };
            match prop.as_str() { "C09" => spaces::fam_metric(&mut r, seed), "C10" => spaces::fam_interp(&mut r, seed), "C11" => spaces::fam_bounds(&mut r, seed), "C12" => spaces::fam_ctor(&mut r, seed), _ => spaces::fam_compound(&mut r, seed) }
            o.n += r.n;
        }
        "C14" => { let mut r = spaces::Rep { n: 0 }; stats::fam_uniform(&mut r, seed); o.n += r.n; }
        "pyref" => { pyref::run(seed); std::process::exit(0); }
        "defects" => fam_defects(&mut o),
        "so2_bound_self" => {
            use oxmpl::base::space::SO2StateSpace;
            use oxmpl::base::state::SO2State;
            let sp = SO2StateSpace::new(Some((-1.0, 0.1))).unwrap();
            let mut s = SO2State { value: 0.2 };
            sp.enforce_bounds(&mut s);
            if !sp.satisfies_bounds(&s) { o.report("so2 enforce then check", 0, format!("enforce_bounds gives {:?} which satisfies_bounds rejects", s.value)); }
        }
        _ => {}
    }
    std::process::exit(if o.n > 0 { 1 } else { 0 });
}
