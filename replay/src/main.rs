//! Native replay of failed / undecided obligations against the REAL oxmpl library.
//!
//! `oxmpl-replay <property> <seed> [budget_s]` runs the directed scenario family of that property and prints one JSON
//! line per violating input (`{"scenario":..,"seed":..,"what":..}`).  Exit 0: no scenario exhibited a violation,
//! exit 1: at least one did.  This never DECIDES a property: the deductive checks do.  It only attaches a concrete
//! failing input to an obligation that failed or could not be decided.
use std::sync::{Arc, Mutex};
use std::time::{Duration, Instant};

use oxmpl::base::error::{PlanningError, StateSamplingError};
use oxmpl::base::goal::{Goal, GoalRegion, GoalSampleableRegion};
use oxmpl::base::planner::{Path, Planner, PlannerConfig};
use oxmpl::base::problem_definition::ProblemDefinition;
use oxmpl::base::space::{RealVectorStateSpace, StateSpace};
use oxmpl::base::state::RealVectorState;
use oxmpl::base::validity::StateValidityChecker;
use oxmpl::geometric::{RRTConnect, RRTStar, PRM, RRT};
use rand::Rng;

type S = RealVectorState;
type SP = RealVectorStateSpace;

/// axis-aligned boxes in [0,10]^2; records every query
struct World {
    boxes: Vec<(f64, f64, f64, f64)>,
    log: Mutex<Vec<(f64, f64, bool)>>,
}
impl World {
    fn free(&self, x: f64, y: f64) -> bool {
        !self.boxes.iter().any(|b| x >= b.0 && x <= b.1 && y >= b.2 && y <= b.3)
    }
}
impl StateValidityChecker<S> for World {
    fn is_valid(&self, s: &S) -> bool {
        let v = self.free(s.values[0], s.values[1]);
        self.log.lock().unwrap().push((s.values[0], s.values[1], v));
        v
    }
}
/// disc goal; the sampler consumes randomness
struct DiscGoal {
    c: (f64, f64),
    r: f64,
}
impl Goal<S> for DiscGoal {
    fn is_satisfied(&self, s: &S) -> bool {
        ((s.values[0] - self.c.0).powi(2) + (s.values[1] - self.c.1).powi(2)).sqrt() <= self.r
    }
}
impl GoalRegion<S> for DiscGoal {
    fn distance_goal(&self, s: &S) -> f64 {
        (((s.values[0] - self.c.0).powi(2) + (s.values[1] - self.c.1).powi(2)).sqrt() - self.r).max(0.0)
    }
}
impl GoalSampleableRegion<S> for DiscGoal {
    fn sample_goal(&self, rng: &mut impl Rng) -> Result<S, StateSamplingError> {
        let a = rng.random_range(0.0..2.0 * std::f64::consts::PI);
        let r = self.r * rng.random::<f64>().sqrt();
        Ok(RealVectorState::new(vec![self.c.0 + r * a.cos(), self.c.1 + r * a.sin()]))
    }
}

fn space() -> Arc<SP> {
    Arc::new(RealVectorStateSpace::new(2, Some(vec![(0.0, 10.0), (0.0, 10.0)])).unwrap())
}
fn world(kind: u64) -> Arc<World> {
    let boxes = match kind % 4 {
        0 => vec![(4.85, 5.15, 2.0, 10.0)],                       // thin wall (0.3), passage at the bottom
        1 => vec![(4.5, 5.5, 0.0, 8.0)],                          // thick wall, passage at the top
        2 => vec![(3.0, 3.3, 0.0, 7.0), (6.0, 6.3, 3.0, 10.0)],   // two thin walls
        _ => vec![],
    };
    Arc::new(World { boxes, log: Mutex::new(vec![]) })
}
fn pd(sp: &Arc<SP>, start: (f64, f64), goal: (f64, f64), r: f64) -> Arc<ProblemDefinition<S, SP, DiscGoal>> {
    Arc::new(ProblemDefinition { space: sp.clone(), start_states: vec![RealVectorState::new(vec![start.0, start.1])], goal: Arc::new(DiscGoal { c: goal, r }) })
}
fn d(sp: &SP, a: &S, b: &S) -> f64 { sp.distance(a, b) }

#[derive(Clone, Copy, Debug, PartialEq)]
enum Pl { Rrt, Connect, Star, Prm }

/// one planner instance behind a uniform face
enum Inst {
    Rrt(RRT<S, SP, DiscGoal>),
    Connect(RRTConnect<S, SP, DiscGoal>),
    Star(RRTStar<S, SP, DiscGoal>),
    Prm(PRM<S, SP, DiscGoal>),
}
impl Inst {
    fn new(p: Pl, step: f64, radius: f64, bias: f64, seed: u64) -> Inst {
        let cfg = PlannerConfig { seed: Some(seed) };
        match p {
            Pl::Rrt => Inst::Rrt(RRT::new(step, bias, &cfg)),
            Pl::Connect => Inst::Connect(RRTConnect::new(step, bias, &cfg)),
            Pl::Star => Inst::Star(RRTStar::new(step, bias, radius, &cfg)),
            Pl::Prm => Inst::Prm(PRM::new(0.25, radius, &cfg)),
        }
    }
    fn setup(&mut self, pd: Arc<ProblemDefinition<S, SP, DiscGoal>>, vc: Arc<World>) {
        let vc: Arc<dyn StateValidityChecker<S>> = vc;
        match self {
            Inst::Rrt(p) => p.setup(pd, vc),
            Inst::Connect(p) => p.setup(pd, vc),
            Inst::Star(p) => p.setup(pd, vc),
            Inst::Prm(p) => { p.setup(pd, vc); let _ = p.construct_roadmap(); }
        }
    }
    fn solve(&mut self, t: Duration) -> Result<Path<S>, PlanningError> {
        match self {
            Inst::Rrt(p) => p.solve(t),
            Inst::Connect(p) => p.solve(t),
            Inst::Star(p) => p.solve(t),
            Inst::Prm(p) => p.solve(t),
        }
    }
    fn limit(p: Pl, step: f64, radius: f64) -> f64 {
        match p { Pl::Rrt | Pl::Connect => step, Pl::Star => step.max(radius), Pl::Prm => radius }
    }
}

struct Out { n: usize }
impl Out {
    fn report(&mut self, scenario: &str, seed: u64, what: String) {
        self.n += 1;
        println!("{{\"scenario\":\"{}\",\"seed\":{},\"what\":\"{}\"}}", scenario, seed, what.replace('"', "'"));
    }
}

/// checks of a returned path against the world (C01, C02, C03 consequence, C04, C05)
fn check_path(o: &mut Out, props: &str, scen: &str, seed: u64, sp: &SP, w: &World, pdx: &ProblemDefinition<S, SP, DiscGoal>, path: &Path<S>, limit: f64) {
    let p = &path.0;
    let want = |c: &str| props == "all" || props == c;
    if p.is_empty() { if want("C02") { o.report(scen, seed, "empty path".into()); } return; }
    if want("C02") {
        if p[0].values != pdx.start_states[0].values { o.report(scen, seed, format!("path starts at {:?}, not at the start {:?}", p[0].values, pdx.start_states[0].values)); }
        if !pdx.goal.is_satisfied(&p[p.len() - 1]) { o.report(scen, seed, format!("path ends at {:?}, outside the goal region of the current problem", p[p.len() - 1].values)); }
    }
    if want("C01") || want("C15") {
        for (k, s) in p.iter().enumerate() { if !w.free(s.values[0], s.values[1]) { o.report(scen, seed, format!("path state #{} {:?} is rejected by the checker", k, s.values)); break; } }
    }
    if want("C04") { for (k, s) in p.iter().enumerate() { if !sp.satisfies_bounds(s) { o.report(scen, seed, format!("path state #{} {:?} is out of bounds", k, s.values)); break; } } }
    let lvsl = sp.get_longest_valid_segment_length();
    for k in 0..p.len() - 1 {
        let dist = d(sp, &p[k], &p[k + 1]);
        if (want("C05") || want("C15")) && dist > limit + 1e-9 { o.report(scen, seed, format!("segment #{} has length {} > configured limit {}", k, dist, limit)); break; }
        if want("C03") || want("C15") || want("C06") {
            // no invalid stretch at least lvsl long on the segment
            let n = ((dist / (lvsl * 0.02)).ceil() as usize).max(2);
            let mut run = 0usize;
            let mut tmp = p[k].clone();
            let mut worst = 0usize;
            for i in 0..=n { sp.interpolate(&p[k], &p[k + 1], i as f64 / n as f64, &mut tmp); if w.free(tmp.values[0], tmp.values[1]) { run = 0; } else { run += 1; worst = worst.max(run); } }
            let stretch = worst as f64 * dist / n as f64;
            if stretch >= lvsl { o.report(scen, seed, format!("segment #{} {:?}->{:?} crosses an invalid stretch of length {:.3} >= resolution {:.3}", k, p[k].values, p[k + 1].values, stretch, lvsl)); break; }
        }
    }
}

fn planners() -> [Pl; 4] { [Pl::Rrt, Pl::Connect, Pl::Star, Pl::Prm] }

/// single queries over worlds x planners x parameter corners (radius above and below the step)
fn fam_paths(o: &mut Out, props: &str, seed0: u64, deadline: Instant) {
    let sp = space();
    let mut k = 0u64;
    'outer: for wk in 0..3u64 {
        for pl in planners() {
            for (step, radius) in [(0.5, 1.5), (1.0, 0.8), (0.3, 2.0)] {
                for ds in 0..3u64 {
                    if Instant::now() > deadline { break 'outer; }
                    let seed = seed0.wrapping_mul(1000) + k; k += 1;
                    let w = world(wk);
                    let pdx = pd(&sp, (1.0 + ds as f64 * 0.3, 1.0), (9.0, 8.5 - ds as f64), 0.5);
                    let mut inst = Inst::new(pl, step, radius, 0.1, seed);
                    inst.setup(pdx.clone(), w.clone());
                    if let Ok(path) = inst.solve(Duration::from_millis(400)) {
                        check_path(o, props, &format!("single-query {:?} world{} step{} radius{}", pl, wk, step, radius), seed, &sp, &w, &pdx, &path, Inst::limit(pl, step, radius));
                    }
                }
            }
        }
    }
}

/// call histories: re-setup with another problem / stricter checker, repeated solve, PRM problem replacement
fn fam_histories(o: &mut Out, props: &str, seed0: u64, deadline: Instant) {
    let sp = space();
    let mut k = 0u64;
    'outer: for pl in planners() {
        for variant in 0..4u64 {
            for ds in 0..3u64 {
                if Instant::now() > deadline { break 'outer; }
                let seed = seed0.wrapping_mul(1000) + 500 + k; k += 1;
                let (step, radius) = (0.6, 1.2);
                let w_open = world(3);
                let w_wall = world(1);
                let p1 = pd(&sp, (1.0, 1.0 + ds as f64), (2.5, 1.5 + ds as f64), 0.6);
                let p2 = pd(&sp, (9.0, 1.0), (1.0, 9.0 - ds as f64 * 0.5), 0.5);
                let mut inst = Inst::new(pl, step, radius, 0.15, seed);
                let scen = format!("history#{} {:?}", variant, pl);
                match variant {
                    0 => { // setup(P1, open) ; solve ; setup(P2, wall) ; solve
                        inst.setup(p1.clone(), w_open.clone()); let _ = inst.solve(Duration::from_millis(300));
                        inst.setup(p2.clone(), w_wall.clone());
                        if let Ok(path) = inst.solve(Duration::from_millis(500)) { check_path(o, props, &scen, seed, &sp, &w_wall, &p2, &path, Inst::limit(pl, step, radius)); }
                    }
                    1 => { // setup twice, then solve
                        inst.setup(p1.clone(), w_open.clone()); inst.setup(p2.clone(), w_wall.clone());
                        if let Ok(path) = inst.solve(Duration::from_millis(500)) { check_path(o, props, &scen, seed, &sp, &w_wall, &p2, &path, Inst::limit(pl, step, radius)); }
                    }
                    2 => { // solve twice on the same problem
                        inst.setup(p2.clone(), w_wall.clone()); let _ = inst.solve(Duration::from_millis(300));
                        if let Ok(path) = inst.solve(Duration::from_millis(500)) { check_path(o, props, &scen, seed, &sp, &w_wall, &p2, &path, Inst::limit(pl, step, radius)); }
                    }
                    _ => { // PRM: reuse the roadmap for a new start / goal
                        if let Inst::Prm(p) = &mut inst {
                            let vc: Arc<dyn StateValidityChecker<S>> = w_wall.clone();
                            p.setup(p1.clone(), vc); let _ = p.construct_roadmap(); let _ = p.solve(Duration::from_millis(300));
                            p.set_problem_definition(p2.clone()); let _ = p.construct_roadmap();
                            if let Ok(path) = p.solve(Duration::from_millis(500)) { check_path(o, props, &scen, seed, &sp, &w_wall, &p2, &path, radius); }
                        }
                    }
                }
            }
        }
    }
}

fn same(a: &Result<Path<S>, PlanningError>, b: &Result<Path<S>, PlanningError>) -> bool {
    match (a, b) {
        (Ok(x), Ok(y)) => x.0.len() == y.0.len() && x.0.iter().zip(y.0.iter()).all(|(s, t)| s.values.iter().zip(t.values.iter()).all(|(u, v)| u.to_bits() == v.to_bits())),
        (Err(PlanningError::Timeout), _) | (_, Err(PlanningError::Timeout)) => true, // iteration counts may differ with wall-clock time
        (Err(x), Err(y)) => x == y,
        _ => false,
    }
}
/// C07: two identically seeded instances, same call sequence (incl. early direct hits, re-setup, repeated solve)
fn fam_determinism(o: &mut Out, seed0: u64, deadline: Instant) {
    let sp = space();
    let mut k = 0u64;
    'outer: for pl in [Pl::Rrt, Pl::Connect, Pl::Star] {
        for ds in 0..6u64 {
            if Instant::now() > deadline { break 'outer; }
            let seed = seed0.wrapping_mul(1000) + 800 + k; k += 1;
            let near = pd(&sp, (1.0, 1.0), (1.6, 1.2 + 0.1 * ds as f64), 0.9);   // start next to a large goal: direct hit
            let far = pd(&sp, (1.0, 1.0), (9.0, 9.0 - ds as f64), 0.5);
            let run = || {
                let mut inst = Inst::new(pl, 0.7, 1.4, 0.2, seed);
                let w = world(1);
                let mut rs = vec![];
                inst.setup(near.clone(), w.clone()); rs.push(inst.solve(Duration::from_secs(3)));
                inst.setup(far.clone(), w.clone()); rs.push(inst.solve(Duration::from_secs(3)));
                rs.push(inst.solve(Duration::from_secs(3)));
                rs
            };
            let (a, b) = (run(), run());
            for i in 0..a.len() { if !same(&a[i], &b[i]) { o.report(&format!("determinism {:?}", pl), seed, format!("two identically seeded instances disagree at solve #{} of setup,solve,setup,solve,solve", i)); break; } }
        }
    }
}

fn main() {
    let args: Vec<String> = std::env::args().collect();
    let prop = args.get(1).cloned().unwrap_or_else(|| "all".into());
    let seed: u64 = args.get(2).and_then(|s| s.parse().ok()).unwrap_or(0);
    let budget: f64 = args.get(3).and_then(|s| s.parse().ok()).unwrap_or(25.0);
    let deadline = Instant::now() + Duration::from_secs_f64(budget);
    let mut o = Out { n: 0 };
    // the planners print progress lines; scenario output is the JSON lines only
    match prop.as_str() {
        "C07" => fam_determinism(&mut o, seed, deadline),
        "C01" | "C02" | "C03" | "C04" | "C05" | "C06" | "C15" | "C18" | "C16" | "C17" | "C08" => {
            let half = Instant::now() + Duration::from_secs_f64(budget / 2.0);
            let p = if prop == "C18" || prop == "C16" || prop == "C17" || prop == "C08" { "all".to_string() } else { prop.clone() };
            fam_histories(&mut o, &p, seed, half);
            fam_paths(&mut o, &p, seed, deadline);
        }
        "so2_bound_self" => {
            use oxmpl::base::space::SO2StateSpace;
            use oxmpl::base::state::SO2State;
            let sp = SO2StateSpace::new(Some((-1.0, 0.1))).unwrap();
            let mut s = SO2State { value: 0.2 };
            sp.enforce_bounds(&mut s);
            if !sp.satisfies_bounds(&s) { o.report("so2 enforce then check", 0, format!("enforce_bounds gives {:?} which satisfies_bounds rejects", s.value)); }
        }
        _ => {}
    }
    std::process::exit(if o.n > 0 { 1 } else { 0 });
}
