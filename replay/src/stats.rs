//! Statistical family for C14 (uniform sampling is uniform): large seeded samples from the REAL samplers, goodness of fit
//! against the exact marginal laws.  Thresholds are Kolmogorov-Smirnov / correlation bounds at a false-alarm probability
//! below 1e-12 per test (DKW inequality: P(D_n > eps) <= 2 exp(-2 n eps^2)), so a report means a biased sampler, not bad luck.
//! Bounded (finite samples, a fixed list of spaces); never decides the property.
use std::f64::consts::PI;

use oxmpl::base::space::{CompoundStateSpace, RealVectorStateSpace, SE2StateSpace, SE3StateSpace, SO2StateSpace, SO3StateSpace, StateSpace};
use oxmpl::base::state::{RealVectorState, SO2State, SO3State};
use rand::rngs::StdRng;
use rand::SeedableRng;

use crate::spaces::Rep;

const N: usize = 120_000;
/// DKW: 2 exp(-2 n eps^2) = 1e-12  =>  eps = sqrt(ln(2e12) / (2 n))
fn ks_eps(n: usize) -> f64 { ((2.0e12f64).ln() / (2.0 * n as f64)).sqrt() }
/// sup |F_n - F| for a sample and a continuous cdf
fn ks(mut xs: Vec<f64>, cdf: &dyn Fn(f64) -> f64) -> f64 {
    xs.sort_by(|a, b| a.partial_cmp(b).unwrap());
    let n = xs.len() as f64;
    let mut d: f64 = 0.0;
    for (i, x) in xs.iter().enumerate() {
        let f = cdf(*x);
        d = d.max((f - i as f64 / n).abs()).max(((i + 1) as f64 / n - f).abs());
    }
    d
}
fn corr(a: &[f64], b: &[f64]) -> f64 {
    let n = a.len() as f64;
    let (ma, mb) = (a.iter().sum::<f64>() / n, b.iter().sum::<f64>() / n);
    let (mut sab, mut saa, mut sbb) = (0.0, 0.0, 0.0);
    for (x, y) in a.iter().zip(b) { sab += (x - ma) * (y - mb); saa += (x - ma) * (x - ma); sbb += (y - mb) * (y - mb); }
    sab / (saa * sbb).sqrt()
}
fn check_ks(o: &mut Rep, seed: u64, what: &str, xs: Vec<f64>, cdf: &dyn Fn(f64) -> f64) {
    let n = xs.len();
    let d = ks(xs, cdf);
    if d > ks_eps(n) { o.report("uniformity", seed, format!("C14 {}: Kolmogorov-Smirnov distance {:.5} over {} samples exceeds {:.5} (false-alarm probability < 1e-12)", what, d, n, ks_eps(n))); }
}
fn check_corr(o: &mut Rep, seed: u64, what: &str, a: &[f64], b: &[f64]) {
    let r = corr(a, b);
    // |r| sqrt(n) is asymptotically N(0,1) for independent samples: 7.5 sigma ~ 1e-13
    if r.abs() * (a.len() as f64).sqrt() > 7.5 { o.report("uniformity", seed, format!("C14 {}: correlation {:.5} over {} samples (independent components expected)", what, r, a.len())); }
}
/// 8x8 equal-frequency contingency table of two samples; under independence the statistic is chi-square with 49 degrees of
/// freedom (mean 49, sd ~10): 250 is some twenty standard deviations out
fn check_indep(o: &mut Rep, seed: u64, what: &str, a: &[f64], b: &[f64]) {
    let rank = |v: &[f64]| -> Vec<usize> {
        let mut idx: Vec<usize> = (0..v.len()).collect();
        idx.sort_by(|&i, &j| v[i].partial_cmp(&v[j]).unwrap());
        let mut bin = vec![0usize; v.len()];
        for (r, &i) in idx.iter().enumerate() { bin[i] = r * 8 / v.len(); }
        bin
    };
    let (ra, rb) = (rank(a), rank(b));
    let mut t = [[0f64; 8]; 8];
    for i in 0..a.len() { t[ra[i]][rb[i]] += 1.0; }
    let e = a.len() as f64 / 64.0;
    let chi2: f64 = t.iter().flatten().map(|c| (c - e) * (c - e) / e).sum();
    if chi2 > 250.0 { o.report("uniformity", seed, format!("C14 {}: chi-square statistic {:.0} of the 8x8 contingency table over {} samples (49 degrees of freedom; independent components expected)", what, chi2, a.len())); }
}
fn unif(lo: f64, hi: f64) -> impl Fn(f64) -> f64 { move |x| ((x - lo) / (hi - lo)).clamp(0.0, 1.0) }
/// rotation angle law of the Haar measure: F(theta) = (theta - sin theta) / PI on [0, PI]; conditioned on theta <= a
fn haar_angle(a: f64) -> impl Fn(f64) -> f64 { move |t| { let f = |t: f64| (t - t.sin()) / PI; (f(t.clamp(0.0, a)) / f(a)).clamp(0.0, 1.0) } }

fn rv(o: &mut Rep, seed: u64) {
    for (name, bounds) in [("R^1 [0,1]", vec![(0.0, 1.0)]), ("R^2 [-2,3]x[10,10.5]", vec![(-2.0, 3.0), (10.0, 10.5)]), ("R^4", vec![(-1.0, 1.0), (0.0, 100.0), (-5.0e3, -4.0e3), (1.0e-3, 2.0e-3)])] {
        let sp = RealVectorStateSpace::new(bounds.len(), Some(bounds.clone())).unwrap();
        let mut rng = StdRng::seed_from_u64(seed);
        let ss: Vec<RealVectorState> = (0..N).map(|_| sp.sample_uniform(&mut rng).unwrap()).collect();
        let cols: Vec<Vec<f64>> = (0..bounds.len()).map(|i| ss.iter().map(|s| s.values[i]).collect()).collect();
        for i in 0..bounds.len() { check_ks(o, seed, &format!("{} coordinate {}", name, i), cols[i].clone(), &unif(bounds[i].0, bounds[i].1)); }
        for i in 1..bounds.len() { check_corr(o, seed, &format!("{} coordinates 0 and {}", name, i), &cols[0], &cols[i]); }
    }
    // higher dimensions: every coordinate uniform and EVERY pair of coordinates uncorrelated (a sampler that recycles random
    // words across coordinates keeps the marginals exact and breaks only the joint law)
    for dim in [9usize, 12, 17] {
        let bounds: Vec<(f64, f64)> = (0..dim).map(|i| (-(i as f64) - 1.0, 2.0 * i as f64 + 0.5)).collect();
        let sp = RealVectorStateSpace::new(dim, Some(bounds.clone())).unwrap();
        let mut rng = StdRng::seed_from_u64(seed);
        let n = N / 2;
        let ss: Vec<RealVectorState> = (0..n).map(|_| sp.sample_uniform(&mut rng).unwrap()).collect();
        let cols: Vec<Vec<f64>> = (0..dim).map(|i| ss.iter().map(|s| s.values[i]).collect()).collect();
        for i in 0..dim { check_ks(o, seed, &format!("R^{} coordinate {}", dim, i), cols[i].clone(), &unif(bounds[i].0, bounds[i].1)); }
        for i in 0..dim { for j in (i + 1)..dim { check_corr(o, seed, &format!("R^{} coordinates {} and {}", dim, i, j), &cols[i], &cols[j]); } }
    }
}
fn so2(o: &mut Rep, seed: u64) {
    // (the last three: requested bounds that reach beyond [-PI, PI]; the space stores -- and samples -- the clamped interval)
    for b in [None, Some((-1.0, 2.0)), Some((3.0, PI)), Some((-1.0, 4.0)), Some((-5.0, 0.5)), Some((0.0, 2.0 * PI))] {
        let sp = SO2StateSpace::new(b).unwrap();
        let (lo, hi) = sp.bounds;
        let mut rng = StdRng::seed_from_u64(seed);
        let xs: Vec<f64> = (0..N).map(|_| sp.sample_uniform(&mut rng).unwrap().value).collect();
        check_ks(o, seed, &format!("SO2 {:?} angle", b), xs, &unif(lo, hi));
    }
}
fn quat_stats(o: &mut Rep, seed: u64, name: &str, qs: &[SO3State], centre: &SO3State, a: f64) {
    let sp = SO3StateSpace::new(None).unwrap();
    // rotation angle relative to the cone centre
    let th: Vec<f64> = qs.iter().map(|q| sp.distance(centre, q)).collect();
    check_ks(o, seed, &format!("{} rotation angle", name), th, &haar_angle(a));
    // axis direction of the relative rotation c^-1 q: uniform on the sphere => z uniform on [-1,1], azimuth uniform
    let (mut zs, mut az) = (vec![], vec![]);
    for q in qs {
        // r = conj(c) * q
        let (cx, cy, cz, cw) = (-centre.x, -centre.y, -centre.z, centre.w);
        let rx = cw * q.x + cx * q.w + cy * q.z - cz * q.y;
        let ry = cw * q.y - cx * q.z + cy * q.w + cz * q.x;
        let rz = cw * q.z + cx * q.y - cy * q.x + cz * q.w;
        let rw = cw * q.w - cx * q.x - cy * q.y - cz * q.z;
        let s = if rw < 0.0 { -1.0 } else { 1.0 };
        let n = (rx * rx + ry * ry + rz * rz).sqrt();
        if n > 1.0e-9 { zs.push(s * rz / n); az.push((s * ry).atan2(s * rx)); }
    }
    check_ks(o, seed, &format!("{} axis z-component", name), zs, &unif(-1.0, 1.0));
    check_ks(o, seed, &format!("{} axis azimuth", name), az, &unif(-PI, PI));
}
fn so3(o: &mut Rep, seed: u64) {
    let h = 0.5f64.sqrt();
    for (name, b) in [("SO3 unbounded", None), ("SO3 cone 1.0 about identity", Some((SO3State::identity(), 1.0))), ("SO3 cone 2.5 about a 90 degree rotation", Some((SO3State::new(h, 0.0, 0.0, h), 2.5)))] {
        let sp = SO3StateSpace::new(b).unwrap();
        let (c, a) = (sp.bounds.0.clone(), sp.bounds.1);
        let mut rng = StdRng::seed_from_u64(seed);
        let qs: Vec<SO3State> = (0..N).map(|_| sp.sample_uniform(&mut rng).unwrap()).collect();
        quat_stats(o, seed, name, &qs, &c, a);
    }
}
fn compound(o: &mut Rep, seed: u64) {
    use std::any::Any;
    let sp = CompoundStateSpace::new(vec![Box::new(RealVectorStateSpace::new(2, Some(vec![(0.0, 1.0), (-3.0, 3.0)])).unwrap()), Box::new(SO2StateSpace::new(Some((-1.0, 2.0))).unwrap()), Box::new(SO3StateSpace::new(None).unwrap())], vec![1.0, 0.5, 2.0]);
    let mut rng = StdRng::seed_from_u64(seed);
    let ss: Vec<_> = (0..N).map(|_| sp.sample_uniform(&mut rng).unwrap()).collect();
    let x: Vec<f64> = ss.iter().map(|s| (&*s.components[0] as &dyn Any).downcast_ref::<RealVectorState>().unwrap().values[0]).collect();
    let y: Vec<f64> = ss.iter().map(|s| (&*s.components[0] as &dyn Any).downcast_ref::<RealVectorState>().unwrap().values[1]).collect();
    let t: Vec<f64> = ss.iter().map(|s| (&*s.components[1] as &dyn Any).downcast_ref::<SO2State>().unwrap().value).collect();
    let qs: Vec<SO3State> = ss.iter().map(|s| (&*s.components[2] as &dyn Any).downcast_ref::<SO3State>().unwrap().clone()).collect();
    check_ks(o, seed, "compound R^2 x SO2 x SO3: x", x.clone(), &unif(0.0, 1.0));
    check_ks(o, seed, "compound R^2 x SO2 x SO3: y", y.clone(), &unif(-3.0, 3.0));
    check_ks(o, seed, "compound R^2 x SO2 x SO3: angle", t.clone(), &unif(-1.0, 2.0));
    quat_stats(o, seed, "compound R^2 x SO2 x SO3: rotation", &qs, &SO3State::identity(), PI);
    let qw: Vec<f64> = qs.iter().map(|q| q.w.abs()).collect();
    check_corr(o, seed, "compound: x and angle", &x, &t);
    check_corr(o, seed, "compound: y and |q.w|", &y, &qw);
    check_corr(o, seed, "compound: angle and |q.w|", &t, &qw);
    // layouts in which a component that consumes many draws comes BEFORE another one: SO(3) first, a 10-dimensional box first
    {
        let sp = CompoundStateSpace::new(vec![Box::new(SO3StateSpace::new(None).unwrap()), Box::new(RealVectorStateSpace::new(3, Some(vec![(0.0, 1.0); 3])).unwrap())], vec![1.0, 1.0]);
        let mut rng = StdRng::seed_from_u64(seed);
        let ss: Vec<_> = (0..N / 2).map(|_| sp.sample_uniform(&mut rng).unwrap()).collect();
        let q: Vec<&SO3State> = ss.iter().map(|s| (&*s.components[0] as &dyn Any).downcast_ref::<SO3State>().unwrap()).collect();
        let v: Vec<&RealVectorState> = ss.iter().map(|s| (&*s.components[1] as &dyn Any).downcast_ref::<RealVectorState>().unwrap()).collect();
        for (qn, qc) in [("q.x", q.iter().map(|s| s.x).collect::<Vec<f64>>()), ("q.w", q.iter().map(|s| s.w).collect::<Vec<f64>>())] {
            for j in 0..3 { check_indep(o, seed, &format!("compound SO3 x R^3: {} and coordinate {}", qn, j), &qc, &v.iter().map(|s| s.values[j]).collect::<Vec<f64>>()); }
        }
        let sp = CompoundStateSpace::new(vec![Box::new(RealVectorStateSpace::new(10, Some(vec![(-1.0, 1.0); 10])).unwrap()), Box::new(SO2StateSpace::new(None).unwrap())], vec![1.0, 1.0]);
        let mut rng = StdRng::seed_from_u64(seed);
        let ss: Vec<_> = (0..N / 2).map(|_| sp.sample_uniform(&mut rng).unwrap()).collect();
        let ang: Vec<f64> = ss.iter().map(|s| (&*s.components[1] as &dyn Any).downcast_ref::<SO2State>().unwrap().value).collect();
        check_ks(o, seed, "compound R^10 x SO2: angle", ang.clone(), &unif(-PI, PI));
        for j in 0..10 { check_indep(o, seed, &format!("compound R^10 x SO2: coordinate {} and angle", j), &ss.iter().map(|s| (&*s.components[0] as &dyn Any).downcast_ref::<RealVectorState>().unwrap().values[j]).collect::<Vec<f64>>(), &ang); }
    }
    // SE(2) / SE(3)
    let se2 = SE2StateSpace::new(1.0, Some(vec![(0.0, 1.0), (-3.0, 3.0), (-1.0, 2.0)])).unwrap();
    let mut rng = StdRng::seed_from_u64(seed);
    let ss: Vec<_> = (0..N).map(|_| se2.sample_uniform(&mut rng).unwrap()).collect();
    let (x, y, t): (Vec<f64>, Vec<f64>, Vec<f64>) = (ss.iter().map(|s| s.get_x()).collect(), ss.iter().map(|s| s.get_y()).collect(), ss.iter().map(|s| s.get_yaw()).collect());
    check_ks(o, seed, "SE2 x", x.clone(), &unif(0.0, 1.0)); check_ks(o, seed, "SE2 y", y.clone(), &unif(-3.0, 3.0)); check_ks(o, seed, "SE2 yaw", t.clone(), &unif(-1.0, 2.0));
    check_corr(o, seed, "SE2 x and yaw", &x, &t); check_corr(o, seed, "SE2 x and y", &x, &y);
    {   // SE(2) with yaw bounds reaching beyond [-PI, PI]: the yaw is uniform on the interval the space stores
        let se2 = SE2StateSpace::new(1.0, Some(vec![(0.0, 1.0), (-3.0, 3.0), (0.0, 2.0 * PI)])).unwrap();
        let mut rng = StdRng::seed_from_u64(seed);
        let t: Vec<f64> = (0..N).map(|_| se2.sample_uniform(&mut rng).unwrap().get_yaw()).collect();
        check_ks(o, seed, "SE2 yaw, requested (0, 2 PI)", t, &unif(0.0, PI));
    }
    let se3 = SE3StateSpace::new(1.0, Some(vec![(0.0, 1.0), (-3.0, 3.0), (5.0, 6.0)])).unwrap();
    let mut rng = StdRng::seed_from_u64(seed);
    let ss: Vec<_> = (0..N).map(|_| se3.sample_uniform(&mut rng).unwrap()).collect();
    let z: Vec<f64> = ss.iter().map(|s| s.get_z()).collect();
    check_ks(o, seed, "SE3 z", z.clone(), &unif(5.0, 6.0));
    let qs: Vec<SO3State> = ss.iter().map(|s| s.get_rotation().clone()).collect();
    quat_stats(o, seed, "SE3 rotation", &qs, &SO3State::identity(), PI);
    let qw: Vec<f64> = qs.iter().map(|q| q.w.abs()).collect();
    check_corr(o, seed, "SE3 z and |q.w|", &z, &qw);
}

pub fn fam_uniform(o: &mut Rep, seed: u64) {
    rv(o, seed);
    so2(o, seed);
    so3(o, seed);
    compound(o, seed);
}
