//! `oxmpl-replay pyref <seed>`: the CORE's answers for the worlds that replay/py/c19_scenarios.py mirrors through the Python
//! bindings (C19: same path, state for state and bit for bit).  One JSON line per case on stdout.
//! Callbacks use only comparisons and the core's own `distance`, so they are bit-identical on both sides; the goal "sampler"
//! is deterministic (it returns the centre) because the Python goal object cannot draw from the planner's generator.
use std::sync::Arc;
use std::time::Duration;

use oxmpl::base::error::StateSamplingError;
use oxmpl::base::goal::{Goal, GoalRegion, GoalSampleableRegion};
use oxmpl::base::planner::{Planner, PlannerConfig};
use oxmpl::base::problem_definition::ProblemDefinition;
use oxmpl::base::space::{RealVectorStateSpace, SO2StateSpace, StateSpace};
use oxmpl::base::state::{RealVectorState, SO2State};
use oxmpl::base::validity::StateValidityChecker;
use oxmpl::geometric::{RRTConnect, RRTStar, RRT};
use rand::Rng;

struct BoxWorld;
impl StateValidityChecker<RealVectorState> for BoxWorld {
    fn is_valid(&self, s: &RealVectorState) -> bool {
        let (x, y) = (s.values[0], s.values[1]);
        !(x >= 4.75 && x <= 5.25 && y >= 2.0 && y <= 8.0)
    }
}
struct CentreGoal { sp: Arc<RealVectorStateSpace>, c: RealVectorState, r: f64 }
impl Goal<RealVectorState> for CentreGoal { fn is_satisfied(&self, s: &RealVectorState) -> bool { self.sp.distance(&self.c, s) <= self.r } }
impl GoalRegion<RealVectorState> for CentreGoal { fn distance_goal(&self, s: &RealVectorState) -> f64 { (self.sp.distance(&self.c, s) - self.r).max(0.0) } }
impl GoalSampleableRegion<RealVectorState> for CentreGoal { fn sample_goal(&self, _rng: &mut impl Rng) -> Result<RealVectorState, StateSamplingError> { Ok(self.c.clone()) } }

struct ArcWorld;
impl StateValidityChecker<SO2State> for ArcWorld { fn is_valid(&self, s: &SO2State) -> bool { !(s.value >= 0.4 && s.value <= 0.9) } }
struct AngleGoal { sp: Arc<SO2StateSpace>, c: SO2State, r: f64 }
impl Goal<SO2State> for AngleGoal { fn is_satisfied(&self, s: &SO2State) -> bool { self.sp.distance(&self.c, s) <= self.r } }
impl GoalRegion<SO2State> for AngleGoal { fn distance_goal(&self, s: &SO2State) -> f64 { (self.sp.distance(&self.c, s) - self.r).max(0.0) } }
impl GoalSampleableRegion<SO2State> for AngleGoal { fn sample_goal(&self, _rng: &mut impl Rng) -> Result<SO2State, StateSamplingError> { Ok(self.c.clone()) } }

fn show(vals: &[f64]) -> String { format!("[{}]", vals.iter().map(|v| format!("{:?}", v)).collect::<Vec<_>>().join(",")) }

pub fn run(seed0: u64) {
    for ds in 0..3u64 {
        let seed = seed0 * 10 + ds;
        for planner in ["RRT", "RRTConnect", "RRTStar"] {
            for bias in [0.0, 0.05] {
                // R^2
                let sp = Arc::new(RealVectorStateSpace::new(2, Some(vec![(0.0, 10.0), (0.0, 10.0)])).unwrap());
                let goal = Arc::new(CentreGoal { sp: sp.clone(), c: RealVectorState::new(vec![9.0, 5.0]), r: 0.5 });
                let pd = Arc::new(ProblemDefinition { space: sp.clone(), start_states: vec![RealVectorState::new(vec![1.0, 5.0])], goal });
                let vc: Arc<dyn StateValidityChecker<RealVectorState>> = Arc::new(BoxWorld);
                let cfg = PlannerConfig { seed: Some(seed) };
                let res = match planner {
                    "RRT" => { let mut p = RRT::new(0.5, bias, &cfg); p.setup(pd.clone(), vc); p.solve(Duration::from_secs_f32(5.0)) }
                    "RRTConnect" => { let mut p = RRTConnect::new(0.5, bias, &cfg); p.setup(pd.clone(), vc); p.solve(Duration::from_secs_f32(5.0)) }
                    _ => { let mut p = RRTStar::new(0.5, bias, 1.0, &cfg); p.setup(pd.clone(), vc); p.solve(Duration::from_secs_f32(5.0)) }
                };
                let path = match res { Ok(p) => format!("[{}]", p.0.iter().map(|s| show(&s.values)).collect::<Vec<_>>().join(",")), Err(e) => format!("\"error: {}\"", e) };
                println!("{{\"case\":\"rv\",\"planner\":\"{}\",\"bias\":{:?},\"seed\":{},\"path\":{}}}", planner, bias, seed, path);
                // SO(2)
                let sp = Arc::new(SO2StateSpace::new(None).unwrap());
                let goal = Arc::new(AngleGoal { sp: sp.clone(), c: SO2State::new(2.0), r: 0.1 });
                let pd = Arc::new(ProblemDefinition { space: sp.clone(), start_states: vec![SO2State::new(-0.5)], goal });
                let vc: Arc<dyn StateValidityChecker<SO2State>> = Arc::new(ArcWorld);
                let res = match planner {
                    "RRT" => { let mut p = RRT::new(0.2, bias, &cfg); p.setup(pd.clone(), vc); p.solve(Duration::from_secs_f32(5.0)) }
                    "RRTConnect" => { let mut p = RRTConnect::new(0.2, bias, &cfg); p.setup(pd.clone(), vc); p.solve(Duration::from_secs_f32(5.0)) }
                    _ => { let mut p = RRTStar::new(0.2, bias, 0.5, &cfg); p.setup(pd.clone(), vc); p.solve(Duration::from_secs_f32(5.0)) }
                };
                let path = match res { Ok(p) => format!("[{}]", p.0.iter().map(|s| show(&[s.value])).collect::<Vec<_>>().join(",")), Err(e) => format!("\"error: {}\"", e) };
                println!("{{\"case\":\"so2\",\"planner\":\"{}\",\"bias\":{:?},\"seed\":{},\"path\":{}}}", planner, bias, seed, path);
            }
        }
    }
    // wrapper values over a small lattice: distances, extents, canonicalised angles
    let sp = RealVectorStateSpace::new(3, Some(vec![(-1.0, 2.0), (0.0, 10.0), (-5.0, 5.0)])).unwrap();
    println!("{{\"case\":\"values\",\"rv_distance\":{:?},\"rv_extent\":{:?}}}", sp.distance(&RealVectorState::new(vec![0.1, 0.2, 0.3]), &RealVectorState::new(vec![1.5, -2.25, 4.0])), sp.get_maximum_extent());
    let so2 = SO2StateSpace::new(Some((-1.0, 2.0))).unwrap();
    println!("{{\"case\":\"values\",\"so2_distance\":{:?},\"so2_extent\":{:?},\"so2_norm\":{}}}", so2.distance(&SO2State::new(3.0), &SO2State::new(-3.0)), so2.get_maximum_extent(),
             show(&[SO2State::new(7.0).value, SO2State::new(-7.0).value, SO2State::new(std::f64::consts::PI).value, SO2State::new(100.0).value]));
}
