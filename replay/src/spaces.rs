//! Scenario families for the state-space properties C09-C13: lattices of special values plus seeded random states, executed
//! against the REAL spaces.  Used only to attach a concrete failing input to a failed / undecided obligation (never to decide).
//! Inputs covered by a listed known finding are not generated (SO(3) cone centre that is not a unit quaternion, RealVector
//! values inside the EPSILON band just outside a bound, SO(2) intervals for the C04 convexity finding are not part of these
//! properties).
use std::any::Any;
use std::f64::consts::PI;

use oxmpl::base::space::{AnyStateSpace, CompoundStateSpace, RealVectorStateSpace, SE2StateSpace, SE3StateSpace, SO2StateSpace, SO3StateSpace, StateSpace};
use oxmpl::base::state::{CompoundState, RealVectorState, SE2State, SE3State, SO2State, SO3State, State};
use rand::rngs::StdRng;
use rand::SeedableRng;

pub struct Rep { pub n: usize }
impl Rep {
    pub fn report(&mut self, scenario: &str, seed: u64, what: String) {
        self.n += 1;
        if self.n <= 3000 { println!("{{\"scenario\":\"{}\",\"seed\":{},\"what\":\"{}\"}}", scenario, seed, what.replace('"', "'")); }
    }
}
struct Lcg(u64);
impl Lcg {
    fn next(&mut self) -> u64 { self.0 = self.0.wrapping_mul(6364136223846793005).wrapping_add(1442695040888963407); self.0 >> 11 }
    fn unit(&mut self) -> f64 { (self.next() % (1 << 30)) as f64 / (1u64 << 30) as f64 }
    fn range(&mut self, lo: f64, hi: f64) -> f64 { lo + (hi - lo) * self.unit() }
}
fn close(a: f64, b: f64, tol: f64) -> bool { a == b || (a.is_finite() && b.is_finite() && (a - b).abs() <= tol * (1.0 + a.abs().max(b.abs()))) }
/// purely relative (for quantities that may be tiny, e.g. with weights 1e-17)
fn rclose(a: f64, b: f64, tol: f64) -> bool { a == b || (a.is_finite() && b.is_finite() && (a - b).abs() <= tol * a.abs().max(b.abs())) }

// ------------------------------------------------------------------------------------------- independent references
fn ref_rv(a: &RealVectorState, b: &RealVectorState) -> f64 {
    // scaled (hypot-like) Euclidean norm, computed differently from the library
    let m = a.values.iter().zip(&b.values).map(|(x, y)| (x - y).abs()).fold(0.0, f64::max);
    if m == 0.0 || !m.is_finite() { return m; }
    let mut s = 0.0;
    for (x, y) in a.values.iter().zip(&b.values) { let r = (x - y) / m; s += r * r; }
    m * s.sqrt()
}
fn ref_so2(a: &SO2State, b: &SO2State) -> f64 {
    let d = (a.value - b.value).sin().atan2((a.value - b.value).cos());
    d.abs()
}
fn ref_so3(a: &SO3State, b: &SO3State) -> f64 {
    // angle of the relative rotation via atan2(|q1 - q2|, |q1 + q2|) (numerically stable, different formula)
    let dm = ((a.x - b.x).powi(2) + (a.y - b.y).powi(2) + (a.z - b.z).powi(2) + (a.w - b.w).powi(2)).sqrt();
    let dp = ((a.x + b.x).powi(2) + (a.y + b.y).powi(2) + (a.z + b.z).powi(2) + (a.w + b.w).powi(2)).sqrt();
    let ang = 4.0 * dm.atan2(dp);           // in [0, 2 PI]
    if ang > PI { 2.0 * PI - ang } else { ang }
}
fn unit_q(x: f64, y: f64, z: f64, w: f64) -> SO3State { let n = (x * x + y * y + z * z + w * w).sqrt(); SO3State::new(x / n, y / n, z / n, w / n) }

// ------------------------------------------------------------------------------------------- lattices
fn rv_lattice(dim: usize, rng: &mut Lcg) -> Vec<RealVectorState> {
    let specials = [0.0, 1.0, -1.0, 0.5, -2.5, 3.0, 1.0e-9, -1.0e6, 4.0e5, 7.25];
    let mut v = vec![RealVectorState::new(vec![0.0; dim]), RealVectorState::new(vec![1.0; dim]), RealVectorState::new(vec![-1.0e6; dim])];
    for i in 0..dim { for s in [1.0, -3.0, 4.0e5] { let mut e = vec![0.0; dim]; e[i] = s; v.push(RealVectorState::new(e)); } }
    if dim >= 2 { let mut p = vec![0.0; dim]; p[0] = 3.0; p[dim - 1] = 4.0; v.push(RealVectorState::new(p)); }
    for _ in 0..6 { v.push(RealVectorState::new((0..dim).map(|_| specials[(rng.next() % 10) as usize]).collect())); }
    for _ in 0..6 { v.push(RealVectorState::new((0..dim).map(|_| rng.range(-10.0, 10.0)).collect())); }
    // large magnitudes: squares overflow above ~1.3e154
    { let mut e = vec![0.0; dim]; e[0] = 1.0e160; v.push(RealVectorState::new(e)); }
    { let mut e = vec![0.0; dim]; e[dim - 1] = -3.0e200; v.push(RealVectorState::new(e)); }
    v
}
fn ulp_up(x: f64) -> f64 { f64::from_bits(if x >= 0.0 { x.to_bits() + 1 } else { x.to_bits() - 1 }) }
fn ulp_dn(x: f64) -> f64 { -ulp_up(-x) }
fn so2_lattice(rng: &mut Lcg) -> Vec<SO2State> {
    let mut a = vec![0.0, PI, -PI, ulp_dn(PI), ulp_up(-PI), PI / 2.0, -PI / 2.0, 3.0 * PI / 4.0, -3.0 * PI / 4.0, 1.0, -1.0, 3.0, -3.0, 0.1, 2.5, -2.01757];
    for _ in 0..8 { a.push(rng.range(-PI, PI)); }
    // equivalent representations written with extra turns (SO2State's field is public)
    for v in [9.0, -7.5, 2.0 * PI + 0.5, -4.0 * PI + 1.0, 3.0 * PI] { a.push(v); }
    a.into_iter().map(|v| SO2State { value: v }).collect()
}
fn so3_lattice(rng: &mut Lcg) -> Vec<SO3State> {
    let h = 0.5f64.sqrt();
    let mut v = vec![SO3State::identity(), SO3State::new(0.0, 0.0, 0.0, -1.0), SO3State::new(1.0, 0.0, 0.0, 0.0), SO3State::new(0.0, 1.0, 0.0, 0.0), SO3State::new(0.0, 0.0, 1.0, 0.0),
                     SO3State::new(-1.0, 0.0, 0.0, 0.0), SO3State::new(h, 0.0, 0.0, h), SO3State::new(-h, 0.0, 0.0, -h), SO3State::new(0.0, h, 0.0, -h), SO3State::new(0.5, 0.5, 0.5, 0.5),
                     SO3State::new(-0.5, -0.5, -0.5, -0.5), unit_q(1.0e-4, 0.0, 0.0, 1.0), unit_q(0.0, 1.0e-8, 0.0, 1.0), unit_q(0.01, 0.02, -0.01, 1.0), unit_q(0.0316, 0.0, 0.0, 1.0)];
    // rotations 0.05 .. 0.25 rad away from the identity and from a generic rotation (around the SLERP / NLERP switch at dot = 0.9995, i.e. 0.063 rad)
    for (k, ang) in [0.05f64, 0.07, 0.1, 0.15, 0.19, 0.25].iter().enumerate() {
        let (s, c) = ((ang / 2.0).sin(), (ang / 2.0).cos());
        let ax = [(1.0, 0.0, 0.0), (0.0, 1.0, 0.0), (0.6, 0.0, 0.8)][k % 3];
        v.push(SO3State::new(ax.0 * s, ax.1 * s, ax.2 * s, c));
        // the same rotation composed with the base (0.5, 0.5, 0.5, 0.5): q = base * r
        let (bx, by, bz, bw) = (0.5, 0.5, 0.5, 0.5);
        let (rx, ry, rz, rw) = (ax.0 * s, ax.1 * s, ax.2 * s, c);
        v.push(unit_q(bw * rx + bx * rw + by * rz - bz * ry, bw * ry - bx * rz + by * rw + bz * rx, bw * rz + bx * ry - by * rx + bz * rw, bw * rw - bx * rx - by * ry - bz * rz));
    }
    for _ in 0..8 { v.push(unit_q(rng.range(-1.0, 1.0), rng.range(-1.0, 1.0), rng.range(-1.0, 1.0), rng.range(-1.0, 1.0) + 1.0e-3)); }
    v
}

// ------------------------------------------------------------------------------------------- generic checks
struct Kit<'a, SP: StateSpace> {
    name: String,
    sp: &'a SP,
    states: Vec<SP::StateType>,
    refd: Box<dyn Fn(&SP::StateType, &SP::StateType) -> f64 + 'a>,
    diam: Option<f64>,
    canonical: Box<dyn Fn(&SP::StateType) -> bool + 'a>,
    show: Box<dyn Fn(&SP::StateType) -> String + 'a>,
    /// speed tolerance (relative) of interpolation: nlerp of SO(3) is not exactly constant speed
    speed_tol: f64,
    /// how far outside the bounds a state is (only used to describe a rejected enforced state)
    excess: Box<dyn Fn(&SP::StateType) -> f64 + 'a>,
}

fn metric<SP: StateSpace>(o: &mut Rep, seed: u64, k: &Kit<SP>) {
    let n = k.states.len();
    for i in 0..n {
        for j in 0..n {
            let (a, b) = (&k.states[i], &k.states[j]);
            let d = k.sp.distance(a, b);
            let tag = format!("C09 {} a={} b={}", k.name, (k.show)(a), (k.show)(b));
            if d.is_nan() || d < 0.0 { o.report("metric", seed, format!("{}: distance {} is negative or NaN", tag, d)); continue; }
            if i == j && d > 1.0e-6 { o.report("metric", seed, format!("{}: d(a,a) = {}", tag, d)); }
            let e = k.sp.distance(b, a);
            if !close(d, e, 1.0e-9) { o.report("metric", seed, format!("{}: d(a,b) = {} but d(b,a) = {}", tag, d, e)); }
            if let Some(dm) = k.diam { if d > dm + 1.0e-9 { o.report("metric", seed, format!("{}: distance {} exceeds the diameter {}", tag, d, dm)); } }
            let r = (k.refd)(a, b);
            if !close(d, r, 1.0e-6) && (d - r).abs() > 1.0e-6 { o.report("metric", seed, format!("{}: distance {:?} but the independent reference gives {:?}", tag, d, r)); }
        }
    }
    let mut g = Lcg(seed ^ 0x9e37);
    for _ in 0..400 {
        let (a, b, c) = (&k.states[(g.next() as usize) % n], &k.states[(g.next() as usize) % n], &k.states[(g.next() as usize) % n]);
        let (ab, bc, ac) = (k.sp.distance(a, b), k.sp.distance(b, c), k.sp.distance(a, c));
        if ac > ab + bc + 1.0e-6 * (1.0 + ac) { o.report("metric", seed, format!("C09 {}: triangle inequality d(a,c) = {} > {} + {} for a={} b={} c={}", k.name, ac, ab, bc, (k.show)(a), (k.show)(b), (k.show)(c))); }
    }
}

fn interp<SP: StateSpace>(o: &mut Rep, seed: u64, k: &Kit<SP>) where SP::StateType: Clone {
    let n = k.states.len();
    for i in 0..n {
        for j in 0..n {
            let (a, b) = (&k.states[i], &k.states[j]);
            let d = k.sp.distance(a, b);
            let antipodal = k.diam.map_or(false, |dm| (d - dm).abs() < 1.0e-6);
            for &t in &[0.0, 0.25, 0.5, 0.8, 1.0] {
                let mut out = k.states[(i + j + 1) % n].clone();
                k.sp.interpolate(a, b, t, &mut out);
                let tag = format!("C10 {} a={} b={} t={}", k.name, (k.show)(a), (k.show)(b), t);
                if !(k.canonical)(&out) { o.report("interp", seed, format!("{}: result {} is not canonical", tag, (k.show)(&out))); continue; }
                let (da, db) = (k.sp.distance(a, &out), k.sp.distance(&out, b));
                let tol = 1.0e-6 * (1.0 + d) + k.speed_tol * d;
                if (da - t * d).abs() > tol || (db - (1.0 - t) * d).abs() > tol {
                    o.report("interp", seed, format!("{}: result {} is at {} from a and {} from b, expected {} and {}", tag, (k.show)(&out), da, db, t * d, (1.0 - t) * d));
                }
                if !antipodal {
                    let mut rev = k.states[(i + 2 * j + 3) % n].clone();
                    k.sp.interpolate(b, a, 1.0 - t, &mut rev);
                    let dr = k.sp.distance(&out, &rev);
                    if dr > tol { o.report("interp", seed, format!("{}: interpolate(b, a, 1 - t) = {} differs from interpolate(a, b, t) = {} by {}", tag, (k.show)(&rev), (k.show)(&out), dr)); }
                }
            }
        }
    }
}

fn bounds_ops<SP: StateSpace>(o: &mut Rep, seed: u64, k: &Kit<SP>, same: &dyn Fn(&SP::StateType, &SP::StateType) -> bool, bounded: bool) where SP::StateType: Clone {
    let mut rng = StdRng::seed_from_u64(seed);
    for r in 0..60 {
        match k.sp.sample_uniform(&mut rng) {
            Ok(s) => { if !k.sp.satisfies_bounds(&s) { o.report("bounds", seed, format!("C11 {}: sample #{} = {} does not satisfy the bounds", k.name, r, (k.show)(&s))); } }
            Err(e) => { if bounded { o.report("bounds", seed, format!("C11 {}: sample_uniform of a bounded space failed: {:?}", k.name, e)); } break; }
        }
    }
    for a in &k.states {
        let mut s = a.clone();
        k.sp.enforce_bounds(&mut s);
        let tag = format!("C11 {} state={}", k.name, (k.show)(a));
        if !k.sp.satisfies_bounds(&s) { o.report("bounds", seed, format!("{}: enforce_bounds gives {} which satisfies_bounds rejects (outside by {:.1e})", tag, (k.show)(&s), (k.excess)(&s))); }
        if !(k.canonical)(&s) { o.report("bounds", seed, format!("{}: enforce_bounds gives the non-canonical {}", tag, (k.show)(&s))); }
        let mut s2 = s.clone();
        k.sp.enforce_bounds(&mut s2);
        if !same(&s, &s2) { o.report("bounds", seed, format!("{}: enforcing twice gives {} then {}", tag, (k.show)(&s), (k.show)(&s2))); }
        if k.sp.satisfies_bounds(a) && (k.canonical)(a) && !same(a, &s) && k.sp.distance(a, &s) > 1.0e-9 { o.report("bounds", seed, format!("{}: a satisfying canonical state was moved to {}", tag, (k.show)(&s))); }
    }
}

// ------------------------------------------------------------------------------------------- concrete kits
fn rv_kit<'a>(sp: &'a RealVectorStateSpace, g: &mut Lcg, label: &str) -> Kit<'a, RealVectorStateSpace> {
    Kit { name: format!("R^{}{}", sp.dimension, label), sp, states: rv_lattice(sp.dimension, g), refd: Box::new(ref_rv), diam: None, canonical: Box::new(|s| s.values.iter().all(|v| v.is_finite())),
          show: Box::new(|s| format!("{:?}", s.values)), speed_tol: 0.0,
          excess: Box::new(move |s| s.values.iter().zip(&sp.bounds).map(|(v, b)| (b.0 - v).max(v - b.1).max(0.0)).fold(0.0, f64::max)) }
}
fn so2_kit<'a>(sp: &'a SO2StateSpace, g: &mut Lcg, label: &str) -> Kit<'a, SO2StateSpace> {
    Kit { name: format!("SO2{}", label), sp, states: so2_lattice(g), refd: Box::new(ref_so2), diam: Some(PI), canonical: Box::new(|s| s.value >= -PI && s.value <= PI),
          show: Box::new(|s| format!("{:?}", s.value)), speed_tol: 0.0, excess: Box::new(move |s| (sp.bounds.0 - s.value).max(s.value - sp.bounds.1).max(0.0)) }
}
fn so3_kit<'a>(sp: &'a SO3StateSpace, g: &mut Lcg, label: &str) -> Kit<'a, SO3StateSpace> {
    Kit { name: format!("SO3{}", label), sp, states: so3_lattice(g), refd: Box::new(ref_so3), diam: Some(PI),
          canonical: Box::new(|s| ((s.x * s.x + s.y * s.y + s.z * s.z + s.w * s.w).sqrt() - 1.0).abs() < 1.0e-9),
          show: Box::new(|s| format!("({:?},{:?},{:?},{:?})", s.x, s.y, s.z, s.w)), speed_tol: 1.0e-5, excess: Box::new(move |s| (sp.distance(&sp.bounds.0, s) - sp.bounds.1).max(0.0)) }
}

pub fn fam_metric(o: &mut Rep, seed: u64) {
    let mut g = Lcg(seed.wrapping_add(17));
    for dim in [1usize, 2, 3, 5, 6, 9] { let sp = RealVectorStateSpace::new(dim, None).unwrap(); metric(o, seed, &rv_kit(&sp, &mut g, "")); }
    let sp = SO2StateSpace::new(None).unwrap(); metric(o, seed, &so2_kit(&sp, &mut g, ""));
    // equivalent representations: angles that differ by a multiple of 2 PI
    for a in so2_lattice(&mut g) { for b in so2_lattice(&mut g).iter().take(6) { for kk in [-2.0, -1.0, 1.0, 3.0] {
        let (d0, d1) = (sp.distance(&a, b), sp.distance(&SO2State { value: a.value + kk * 2.0 * PI }, b));
        if (d0 - d1).abs() > 1.0e-9 { o.report("metric", seed, format!("C09 SO2: d({:?},{:?}) = {} but d({:?} + {}*2PI, b) = {}", a.value, b.value, d0, a.value, kk, d1)); }
    } } }
    let sp = SO3StateSpace::new(None).unwrap(); metric(o, seed, &so3_kit(&sp, &mut g, ""));
    for a in so3_lattice(&mut g) { for b in so3_lattice(&mut g).iter().take(8) {
        let (d0, d1) = (sp.distance(&a, b), sp.distance(&SO3State::new(-a.x, -a.y, -a.z, -a.w), b));
        if (d0 - d1).abs() > 1.0e-9 { o.report("metric", seed, format!("C09 SO3: d(q,b) = {} but d(-q,b) = {}", d0, d1)); }
    } }
    // nearly identical rotations (the relative angle is known by construction): small angles are not snapped to zero
    let qmul = |a: &SO3State, b: &SO3State| SO3State::new(
        a.w * b.x + a.x * b.w + a.y * b.z - a.z * b.y,
        a.w * b.y - a.x * b.z + a.y * b.w + a.z * b.x,
        a.w * b.z + a.x * b.y - a.y * b.x + a.z * b.w,
        a.w * b.w - a.x * b.x - a.y * b.y - a.z * b.z);
    for base in [SO3State::identity(), unit_q(1.0, 2.0, 3.0, 4.0), unit_q(-0.5, 0.7, 0.2, -0.4), unit_q(1.0, 0.0, 0.0, 1.0e-3)] {
        for &th in &[5.0e-2, 1.0e-3, 8.0e-5, 6.0e-5, 2.0e-5, 3.0e-6] {
            for ax in [(1.0, 0.0, 0.0), (0.0, 1.0, 0.0), (0.6, 0.0, 0.8)] {
                let (sn, cs) = ((th * 0.5f64).sin(), (th * 0.5f64).cos());
                let b = qmul(&base, &SO3State::new(ax.0 * sn, ax.1 * sn, ax.2 * sn, cs));
                for b in [b.clone(), SO3State::new(-b.x, -b.y, -b.z, -b.w)] {
                    for d in [sp.distance(&base, &b), sp.distance(&b, &base)] {
                        if !((d - th).abs() <= 1.0e-7 + 1.0e-6 * th) { o.report("metric", seed, format!("C09 SO3: two rotations {:e} rad apart (base ({:?},{:?},{:?},{:?}), axis {:?}) are at distance {:e}", th, base.x, base.y, base.z, base.w, ax, d)); }
                    }
                }
            }
        }
    }
    // ... and nearly identical angles / points
    let so2 = SO2StateSpace::new(None).unwrap();
    for &a in &[0.0, 1.0, -3.0, PI] { for &th in &[1.0e-3, 6.0e-5, 3.0e-6, 1.0e-9] {
        let d = so2.distance(&SO2State { value: a }, &SO2State { value: a - th });
        if !((d - th).abs() <= 1.0e-12 + 1.0e-6 * th) { o.report("metric", seed, format!("C09 SO2: angles {:?} and {:?} - {:e} are at distance {:e}", a, a, th, d)); }
    } }
    compound_kits(o, seed, true);
}
pub fn fam_interp(o: &mut Rep, seed: u64) {
    let mut g = Lcg(seed.wrapping_add(29));
    for dim in [1usize, 2, 3, 5] { let sp = RealVectorStateSpace::new(dim, None).unwrap(); interp(o, seed, &rv_kit(&sp, &mut g, "")); }
    for dim in [1usize, 2, 3] { let sp = RealVectorStateSpace::new(dim, Some(vec![(-2.0, 2.0); dim])).unwrap(); interp(o, seed, &rv_kit(&sp, &mut g, " bounded (-2,2)")); }
    let sp = SO2StateSpace::new(None).unwrap(); interp(o, seed, &so2_kit(&sp, &mut g, ""));
    let sp = SO2StateSpace::new(Some((-1.0, 2.0))).unwrap(); interp(o, seed, &so2_kit(&sp, &mut g, " bounded (-1,2)"));
    let sp = SO3StateSpace::new(None).unwrap(); interp(o, seed, &so3_kit(&sp, &mut g, ""));
    compound_kits(o, seed, false);
}
pub fn fam_bounds(o: &mut Rep, seed: u64) {
    let mut g = Lcg(seed.wrapping_add(31));
    let same_rv = |a: &RealVectorState, b: &RealVectorState| a.values.iter().zip(&b.values).all(|(x, y)| x.to_bits() == y.to_bits());
    for (dim, b) in [(1usize, vec![(-2.0, 2.0)]), (2, vec![(0.0, 10.0), (-1.0e6, 3.0)]), (3, vec![(-1.0, 1.0), (0.5, 0.75), (-4.0e5, 4.0e5)]), (5, vec![(-2.0, 2.0); 5]),
                     (2, vec![(f64::NEG_INFINITY, 1.0), (-1.0, f64::INFINITY)])] {
        let bounded = b.iter().all(|x| x.0.is_finite() && x.1.is_finite());
        let sp = RealVectorStateSpace::new(dim, Some(b)).unwrap();
        bounds_ops(o, seed, &rv_kit(&sp, &mut g, " bounded"), &same_rv, bounded);
    }
    let sp = RealVectorStateSpace::new(3, None).unwrap(); bounds_ops(o, seed, &rv_kit(&sp, &mut g, " unbounded"), &same_rv, false);
    // `bounds` is a public field: a caller may narrow / move the box after construction; every operation follows the CURRENT bounds
    {
        let mut sp = RealVectorStateSpace::new(2, Some(vec![(0.0, 10.0), (-5.0, 5.0)])).unwrap();
        sp.bounds = vec![(2.0, 3.0), (100.0, 101.0)];
        bounds_ops(o, seed, &rv_kit(&sp, &mut g, " bounds edited after construction"), &same_rv, true);
    }
    let same_so2 = |a: &SO2State, b: &SO2State| a.value.to_bits() == b.value.to_bits();
    for b in [None, Some((-1.0, 0.1)), Some((-PI, PI)), Some((0.5, 3.0)), Some((-3.0, -2.9)), Some((-PI, 0.0)), Some((0.0, PI)), Some((-10.0, 1.0)), Some((2.0, 10.0)), Some((3.0, PI))] {
        let sp = SO2StateSpace::new(b).unwrap();
        bounds_ops(o, seed, &so2_kit(&sp, &mut g, &format!(" {:?}", b)), &same_so2, true);
    }
    let same_so3 = |a: &SO3State, b: &SO3State| (a.x - b.x).abs() + (a.y - b.y).abs() + (a.z - b.z).abs() + (a.w - b.w).abs() < 1.0e-9;
    for b in [None, Some((SO3State::identity(), 0.5)), Some((unit_q(0.3, -0.2, 0.1, 0.9), 1.0)), Some((SO3State::new(1.0, 0.0, 0.0, 0.0), 2.5)), Some((SO3State::identity(), PI)), Some((SO3State::identity(), 10.0))] {
        let lab = format!(" {:?}", b.as_ref().map(|x| x.1));
        let sp = SO3StateSpace::new(b).unwrap();
        let mut kit = so3_kit(&sp, &mut g, &lab);
        // degenerate inputs of enforce_bounds: the zero quaternion and one below the normalisation threshold
        kit.states.push(SO3State::new(0.0, 0.0, 0.0, 0.0));
        kit.states.push(SO3State::new(1.0e-12, 0.0, -1.0e-12, 0.0));
        bounds_ops(o, seed, &kit, &same_so3, true);
    }
    // every cone the constructor hands out accepts its own centre, and enforcing the centre leaves an accepted state
    for &r in &[f64::NAN, 0.0, 1.0e-12, 0.5, PI, 10.0, f64::INFINITY] {
        if let Ok(sp) = SO3StateSpace::new(Some((SO3State::identity(), r))) {
            let mut c = SO3State::identity();
            if !sp.satisfies_bounds(&c) { o.report("bounds", seed, format!("C11 SO3 cone constructed with radius {:?}: the centre itself does not satisfy the bounds", r)); }
            sp.enforce_bounds(&mut c);
            if !sp.satisfies_bounds(&c) { o.report("bounds", seed, format!("C11 SO3 cone constructed with radius {:?}: the enforced centre does not satisfy the bounds", r)); }
        }
    }
    compound_bounds(o, seed);
}

/// C11 on compound / SE(2) / SE(3) spaces: enforce makes every component canonical and accepted, also components that are
/// in bounds but NOT canonical (an angle written with an extra turn, a quaternion of norm 2, the zero quaternion)
fn compound_bounds(o: &mut Rep, seed: u64) {
    let mut g = Lcg(seed.wrapping_add(311));
    // bounded R^2 and SO(2), unbounded SO(3) (a bounded cone would only re-report D16)
    let lay = vec![Kind::R(2), Kind::So2, Kind::So3];
    let mkspace = || -> Vec<Box<dyn AnyStateSpace>> { vec![Box::new(RealVectorStateSpace::new(2, Some(vec![(-2.0, 2.0), (-2.0, 2.0)])).unwrap()), Box::new(SO2StateSpace::new(Some((-0.5, 2.0))).unwrap()), Box::new(SO3StateSpace::new(None).unwrap())] };
    let parts = mkspace();
    let sp = CompoundStateSpace::new(mkspace(), vec![1.0, 0.5, 2.0]);
    let mut states: Vec<CompoundState> = (0..10).map(|_| CompoundState::new(lay.iter().map(|&k| comp_state(k, &mut g)).collect())).collect();
    states.push(CompoundState::new(vec![Box::new(RealVectorState::new(vec![0.5, -0.5])), Box::new(SO2State { value: 2.0 * PI + 0.5 }), Box::new(SO3State::new(0.0, 0.0, 0.0, 2.0))]));
    states.push(CompoundState::new(vec![Box::new(RealVectorState::new(vec![7.0, -9.0])), Box::new(SO2State { value: -17.85 }), Box::new(SO3State::new(0.0, 0.0, 0.0, 0.0))]));
    states.push(CompoundState::new(vec![Box::new(RealVectorState::new(vec![2.0, -2.0])), Box::new(SO2State { value: 1.0 - 4.0 * PI }), Box::new(SO3State::new(0.3, 0.0, 0.0, 0.1))]));
    for a in &states {
        let mut e = a.clone();
        sp.enforce_bounds(&mut e);
        let tag = format!("C11 compound R^2 x SO2 x SO3 state={:?}", a.components);
        if !sp.satisfies_bounds(&e) { o.report("bounds", seed, format!("{}: enforce_bounds gives {:?} which satisfies_bounds rejects", tag, e.components)); }
        for i in 0..lay.len() {
            if !comp_canonical(lay[i], &*e.components[i]) { o.report("bounds", seed, format!("{}: after enforce_bounds component {} is {:?}, not canonical", tag, i, e.components[i])); }
            let mut r = a.components[i].clone();
            parts[i].enforce_bounds_dyn(&mut *r);
            if !comp_eq(lay[i], &*e.components[i], &*r) { o.report("bounds", seed, format!("{}: after enforce_bounds component {} is {:?}, the component space gives {:?}", tag, i, e.components[i], r)); }
        }
        let mut e2 = e.clone();
        sp.enforce_bounds(&mut e2);
        for i in 0..lay.len() { if !comp_eq(lay[i], &*e.components[i], &*e2.components[i]) && comp_ref(lay[i], &*e.components[i], &*e2.components[i]) > 1.0e-9 { o.report("bounds", seed, format!("{}: enforcing twice changes component {}: {:?} then {:?}", tag, i, e.components[i], e2.components[i])); } }
    }
    let mut rng = StdRng::seed_from_u64(seed);
    for _ in 0..30 { match sp.sample_uniform(&mut rng) { Ok(x) => { if !sp.satisfies_bounds(&x) { o.report("bounds", seed, format!("C11 compound R^2 x SO2 x SO3: sample {:?} violates the bounds", x.components)); } } Err(e) => { o.report("bounds", seed, format!("C11 compound: sample_uniform failed: {:?}", e)); break; } } }
    // SE(2) / SE(3): a non-canonical rotation part is canonicalised by enforce_bounds
    let se2 = SE2StateSpace::new(1.0, Some(vec![(-2.0, 2.0), (-2.0, 2.0), (-0.5, 2.0)])).unwrap();
    for &(x, y, t) in &[(0.5, 0.5, 2.0 * PI + 0.5), (9.0, -9.0, -17.85), (0.0, 0.0, 7.0)] {
        let mut st = SE2State::new(x, y, 0.0);
        // build the raw angle directly (SE2State::new would canonicalise it)
        st.0.components[1] = Box::new(SO2State { value: t });
        se2.enforce_bounds(&mut st);
        let yaw = st.get_yaw();
        if !(yaw >= -PI && yaw <= PI) || !se2.satisfies_bounds(&st) { o.report("bounds", seed, format!("C11 SE2: enforce_bounds of yaw {:?} gives {:?} (not canonical or rejected)", t, yaw)); }
    }
    let se3 = SE3StateSpace::new(1.0, Some(vec![(-2.0, 2.0), (-2.0, 2.0), (0.0, 5.0)])).unwrap();
    for q in [SO3State::new(0.0, 0.0, 0.0, 2.0), SO3State::new(0.0, 0.0, 0.0, 0.0), SO3State::new(0.3, 0.0, 0.0, 0.1)] {
        let mut st = SE3State::new(9.0, 0.0, -1.0, q.clone());
        se3.enforce_bounds(&mut st);
        let r = st.get_rotation();
        let n = (r.x * r.x + r.y * r.y + r.z * r.z + r.w * r.w).sqrt();
        if (n - 1.0).abs() > 1.0e-9 || !se3.satisfies_bounds(&st) { o.report("bounds", seed, format!("C11 SE3: enforce_bounds of rotation ({:?},{:?},{:?},{:?}) gives norm {} (not a unit quaternion or rejected)", q.x, q.y, q.z, q.w, n)); }
    }
}

pub fn fam_ctor(o: &mut Rep, seed: u64) {
    let vals = [f64::NAN, f64::NEG_INFINITY, -10.0, -PI, ulp_up(-PI), -1.0, 0.0, 1.0, ulp_dn(PI), PI, ulp_up(PI), 4.0, 10.0, f64::INFINITY];
    for &lo in &vals { for &hi in &vals {
        let r = std::panic::catch_unwind(|| SO2StateSpace::new(Some((lo, hi))));
        match r {
            Err(_) => o.report("ctor", seed, format!("C12 SO2StateSpace::new(({:?},{:?})) panicked", lo, hi)),
            Ok(Ok(sp)) => {
                let (l, h) = sp.bounds;
                if !(l < h) || !(l >= -PI && h <= PI) { o.report("ctor", seed, format!("C12 SO2StateSpace::new(({:?},{:?})) returned a space with bounds ({:?},{:?})", lo, hi, l, h)); continue; }
                let ok = std::panic::catch_unwind(|| { let mut rng = StdRng::seed_from_u64(1); let s = sp.sample_uniform(&mut rng); let mut t = SO2State { value: 7.0 }; sp.enforce_bounds(&mut t); (s.is_ok(), sp.satisfies_bounds(&t)) });
                if ok.is_err() { o.report("ctor", seed, format!("C12 SO2 space from ({:?},{:?}) panics when used", lo, hi)); }
            }
            Ok(Err(_)) => { if lo < hi && lo.max(-PI) < hi.min(PI) { o.report("ctor", seed, format!("C12 SO2StateSpace::new(({:?},{:?})) rejected a well-formed interval", lo, hi)); } }
        }
    } }
    let rvals = [f64::NAN, f64::NEG_INFINITY, -1.0e6, -1.0, 0.0, 1.0e-300, 1.0, 1.0e6, f64::INFINITY];
    for dim in 0usize..4 { for nb in 0usize..5 { for &lo in &rvals { for &hi in &rvals {
        let mut b = vec![(-1.0, 1.0); nb];
        if nb > 0 { b[nb - 1] = (lo, hi); }
        let r = std::panic::catch_unwind(|| RealVectorStateSpace::new(dim, Some(b.clone())));
        match r {
            Err(_) => o.report("ctor", seed, format!("C12 RealVectorStateSpace::new({}, {:?}) panicked", dim, b)),
            Ok(Ok(sp)) => {
                if sp.bounds.len() != dim || sp.bounds.iter().any(|x| !(x.0 < x.1)) { o.report("ctor", seed, format!("C12 RealVectorStateSpace::new({}, {:?}) returned a space with bounds {:?}", dim, b, sp.bounds)); continue; }
                let ok = std::panic::catch_unwind(|| { let mut rng = StdRng::seed_from_u64(1); let _ = sp.sample_uniform(&mut rng); let mut t = RealVectorState::new(vec![7.0; dim]); sp.enforce_bounds(&mut t); sp.satisfies_bounds(&t) });
                match ok { Err(_) => o.report("ctor", seed, format!("C12 R^{} space from {:?} panics when used", dim, b)), Ok(false) => o.report("ctor", seed, format!("C12 R^{} space from {:?}: enforced state rejected", dim, b)), _ => {} }
            }
            Ok(Err(_)) => { if nb == dim && b.iter().all(|x| x.0 < x.1) { o.report("ctor", seed, format!("C12 RealVectorStateSpace::new({}, {:?}) rejected well-formed bounds", dim, b)); } }
        }
    } } } }
    if RealVectorStateSpace::new(0, None).is_ok() { o.report("ctor", seed, "C12 RealVectorStateSpace::new(0, None) accepted".into()); }
    for nb in 0usize..7 {
        let b: Vec<(f64, f64)> = (0..nb).map(|i| (-1.0 - i as f64, 1.0 + i as f64)).collect();
        let (r2, r3) = (SE2StateSpace::new(1.0, Some(b.clone())), SE3StateSpace::new(1.0, Some(b.clone())));
        if r2.is_ok() != (nb == 3) { o.report("ctor", seed, format!("C12 SE2StateSpace::new(1.0, {} bounds) returned {}", nb, if r2.is_ok() { "a space" } else { "an error" })); }
        if r3.is_ok() != (nb == 3) { o.report("ctor", seed, format!("C12 SE3StateSpace::new(1.0, {} bounds) returned {}", nb, if r3.is_ok() { "a space" } else { "an error" })); }
    }
    for bad in [(1.0, -1.0), (f64::NAN, 1.0), (2.0, 2.0)] {
        for pos in 0..3usize {
            let mut b = vec![(-1.0, 1.0), (-1.0, 1.0), (-1.0, 1.0)]; b[pos] = bad;
            if SE3StateSpace::new(1.0, Some(b.clone())).is_ok() { o.report("ctor", seed, format!("C12 SE3StateSpace::new accepted the ill-formed bounds {:?}", b)); }
            if pos < 2 && SE2StateSpace::new(1.0, Some(b.clone())).is_ok() { o.report("ctor", seed, format!("C12 SE2StateSpace::new accepted the ill-formed translation bounds {:?}", b)); }
        }
    }
    for &r in &[f64::NAN, -1.0, -1.0e-300, 0.0, 1.0, PI, 10.0, f64::INFINITY] {
        match SO3StateSpace::new(Some((SO3State::identity(), r))) {
            Ok(sp) => { if !(sp.bounds.1 >= 0.0 && sp.bounds.1 <= PI) { o.report("ctor", seed, format!("C12 SO3StateSpace::new(radius {:?}) stored radius {:?}", r, sp.bounds.1)); } }
            Err(_) => { if r >= 0.0 { o.report("ctor", seed, format!("C12 SO3StateSpace::new(radius {:?}) rejected", r)); } }
        }
    }
    // state constructors
    let mut g = Lcg(seed.wrapping_add(5));
    let mut angles = vec![0.0, PI, -PI, ulp_up(PI), ulp_dn(-PI), 2.0 * PI, -2.0 * PI, 3.0 * PI, 7.0, -7.0, 100.0, -1.0e3, 1.0e6, -1.0e9, 1.0e12, 1.0e15, -1.0e18, 1.0e22, 1.0e300, -1.0e308];
    for _ in 0..40 { angles.push(g.range(-50.0, 50.0)); }
    for &v in &angles {
        for (what, r) in [("SO2State::new", SO2State::new(v).value), ("SO2State::normalise", SO2State { value: v }.normalise().value), ("SE2State::new yaw", SE2State::new(0.0, 0.0, v).get_yaw())] {
            if !(r >= -PI && r <= PI) { o.report("ctor", seed, format!("C12 {}({:?}) stores {:?}, outside [-PI,PI]", what, v, r)); continue; }
            if v.abs() <= 1.0e6 {
                let k = ((v - r) / (2.0 * PI)).round();
                if (v - r - k * 2.0 * PI).abs() > 1.0e-9 * (1.0 + v.abs()) { o.report("ctor", seed, format!("C12 {}({:?}) stores {:?}, not congruent modulo 2 PI", what, v, r)); }
            }
        }
    }
    for _ in 0..200 {
        let sc = [1.0e-12, 1.0e-9, 1.0e-3, 1.0, 1.0e3, 1.0e100, 1.0e160][(g.next() % 7) as usize];
        let (x, y, z, w) = (g.range(-1.0, 1.0) * sc, g.range(-1.0, 1.0) * sc, g.range(-1.0, 1.0) * sc, g.range(-1.0, 1.0) * sc);
        let n = (x * x + y * y + z * z + w * w).sqrt();
        match SO3State::new(x, y, z, w).normalise() {
            Ok(q) => {
                let qn = (q.x * q.x + q.y * q.y + q.z * q.z + q.w * q.w).sqrt();
                let par = (q.x * x + q.y * y + q.z * z + q.w * w) / n;
                if (qn - 1.0).abs() > 1.0e-9 || (par - 1.0).abs() > 1.0e-9 { o.report("ctor", seed, format!("C12 SO3State({:?},{:?},{:?},{:?}).normalise() = norm {} parallel {}", x, y, z, w, qn, par)); }
                if n < 1.0e-9 * 0.999 { o.report("ctor", seed, format!("C12 normalise accepted a quaternion of norm {}", n)); }
            }
            Err(_) => { if n > 1.0e-9 * 1.001 { o.report("ctor", seed, format!("C12 normalise rejected a quaternion of norm {}", n)); } }
        }
    }
}

// ------------------------------------------------------------------------------------------- C13
#[derive(Clone, Copy, Debug)]
enum Kind { R(usize), So2, So3 }
fn comp_space(k: Kind, bounded: bool) -> Box<dyn AnyStateSpace> {
    match k {
        Kind::R(d) => Box::new(RealVectorStateSpace::new(d, if bounded { Some(vec![(-2.0, 2.0); d]) } else { None }).unwrap()),
        Kind::So2 => Box::new(SO2StateSpace::new(if bounded { Some((-1.0, 2.0)) } else { None }).unwrap()),
        Kind::So3 => Box::new(SO3StateSpace::new(if bounded { Some((SO3State::identity(), 1.0)) } else { None }).unwrap()),
    }
}
fn comp_state(k: Kind, g: &mut Lcg) -> Box<dyn State> {
    match k {
        Kind::R(d) => Box::new(RealVectorState::new((0..d).map(|_| if g.next() % 4 == 0 { 0.0 } else { g.range(-5.0, 5.0) }).collect())),
        Kind::So2 => Box::new(SO2State { value: if g.next() % 5 == 0 { PI } else { g.range(-PI, PI) } }),
        Kind::So3 => Box::new(unit_q(g.range(-1.0, 1.0), g.range(-1.0, 1.0), g.range(-1.0, 1.0), g.range(-1.0, 1.0) + 1.0e-3)),
    }
}
fn comp_eq(k: Kind, a: &dyn State, b: &dyn State) -> bool {
    match k {
        Kind::R(_) => { let (x, y) = ((a as &dyn Any).downcast_ref::<RealVectorState>().unwrap(), (b as &dyn Any).downcast_ref::<RealVectorState>().unwrap()); x.values.len() == y.values.len() && x.values.iter().zip(&y.values).all(|(p, q)| p.to_bits() == q.to_bits()) }
        Kind::So2 => (a as &dyn Any).downcast_ref::<SO2State>().unwrap().value.to_bits() == (b as &dyn Any).downcast_ref::<SO2State>().unwrap().value.to_bits(),
        Kind::So3 => { let (x, y) = ((a as &dyn Any).downcast_ref::<SO3State>().unwrap(), (b as &dyn Any).downcast_ref::<SO3State>().unwrap()); x.x.to_bits() == y.x.to_bits() && x.y.to_bits() == y.y.to_bits() && x.z.to_bits() == y.z.to_bits() && x.w.to_bits() == y.w.to_bits() }
    }
}
/// the composition law against the component spaces (C13)
fn compound_family(o: &mut Rep, seed: u64) {
    let mut g = Lcg(seed.wrapping_add(101));
    let layouts: Vec<Vec<Kind>> = vec![vec![Kind::R(1), Kind::R(1)], vec![Kind::R(2), Kind::So2], vec![Kind::So2, Kind::R(3), Kind::So3], vec![Kind::So3, Kind::R(1), Kind::R(6), Kind::So2], vec![Kind::R(5)]];
    let wsets: Vec<Vec<f64>> = vec![vec![1.0, 1.0, 1.0, 1.0], vec![0.0, 1.0, 2.5, 0.5], vec![1.0e-17, 1.0, 1.0e6, 3.0], vec![2.0, 0.0, 0.0, 1.0e-9], vec![1.0, 0.5, 1.0e-17, 1.0e-17], vec![1.0e-17, 1.0e-17, 1.0e-17, 1.0e-17], vec![1.0e9, 1.0, 1.0e11, 1.0]];
    for lay in &layouts { for ws in &wsets { for &bounded in &[false, true] {
        let w: Vec<f64> = ws[..lay.len()].to_vec();
        let parts: Vec<Box<dyn AnyStateSpace>> = lay.iter().map(|&k| comp_space(k, bounded)).collect();
        let sp = CompoundStateSpace::new(lay.iter().map(|&k| comp_space(k, bounded)).collect(), w.clone());
        let name = format!("compound {:?} weights {:?}{}", lay, w, if bounded { " bounded" } else { "" });
        let mk = |g: &mut Lcg| CompoundState::new(lay.iter().map(|&k| comp_state(k, g)).collect());
        // resolution
        let l = sp.get_longest_valid_segment_length();
        let lr = lay.iter().enumerate().map(|(i, _)| (parts[i].get_longest_valid_segment_length_dyn() * w[i]).powi(2)).sum::<f64>().sqrt();
        if !rclose(l, lr, 1.0e-12) { o.report("compound", seed, format!("C13 {}: resolution {} but sqrt(sum (l_i w_i)^2) = {}", name, l, lr)); }
        for _ in 0..12 {
            let (a, b) = (mk(&mut g), mk(&mut g));
            let d = sp.distance(&a, &b);
            let dr = (0..lay.len()).map(|i| (parts[i].distance_dyn(&*a.components[i], &*b.components[i]) * w[i]).powi(2)).sum::<f64>().sqrt();
            if !rclose(d, dr, 1.0e-12) { o.report("compound", seed, format!("C13 {}: distance {} but sqrt(sum (d_i w_i)^2) = {} for a={:?} b={:?}", name, d, dr, a, b)); }
            // near-coincident pair (the first component moved by a hair): nothing is dropped from the weighted norm
            let mut b2 = a.clone();
            match lay[0] {
                Kind::R(_) => { let r = (&mut *b2.components[0] as &mut dyn Any).downcast_mut::<RealVectorState>().unwrap(); r.values[0] += 5.0e-10; }
                Kind::So2 => { let r = (&mut *b2.components[0] as &mut dyn Any).downcast_mut::<SO2State>().unwrap(); if r.value > 3.0 { r.value -= 4.0e-11; } else { r.value += 4.0e-11; } }
                Kind::So3 => {}
            }
            let d2 = sp.distance(&a, &b2);
            let dr2 = (0..lay.len()).map(|i| (parts[i].distance_dyn(&*a.components[i], &*b2.components[i]) * w[i]).powi(2)).sum::<f64>().sqrt();
            if !rclose(d2, dr2, 1.0e-9) { o.report("compound", seed, format!("C13 {}: distance {:e} between near-coincident states but sqrt(sum (d_i w_i)^2) = {:e}", name, d2, dr2)); }
            // bounds check is the conjunction
            let c = sp.satisfies_bounds(&a);
            let cr = (0..lay.len()).all(|i| parts[i].satisfies_bounds_dyn(&*a.components[i]));
            if c != cr { o.report("compound", seed, format!("C13 {}: satisfies_bounds = {} but the conjunction of the component checks is {} for {:?}", name, c, cr, a)); }
            // interpolation is component-wise and writes every component (the output starts from an unrelated state)
            for &t in &[0.0, 0.3, 1.0, -0.5, 1.75] {      // (t outside [0,1]: the compound does whatever its parts do)
                let mut out = mk(&mut g);
                sp.interpolate(&a, &a, t, &mut out);          // from == to: a component that does not move must still be written
                for i in 0..lay.len() {
                    let mut r = comp_state(lay[i], &mut g);
                    parts[i].interpolate_dyn(&*a.components[i], &*a.components[i], t, &mut *r);
                    if !comp_eq(lay[i], &*out.components[i], &*r) { o.report("compound", seed, format!("C13 {}: interpolate(a, a, {}) component {} is {:?}, the component space gives {:?}", name, t, i, out.components[i], r)); }
                }
                let mut out = mk(&mut g);
                sp.interpolate(&a, &b, t, &mut out);
                for i in 0..lay.len() {
                    let mut r = comp_state(lay[i], &mut g);
                    parts[i].interpolate_dyn(&*a.components[i], &*b.components[i], t, &mut *r);
                    if !comp_eq(lay[i], &*out.components[i], &*r) { o.report("compound", seed, format!("C13 {}: interpolate component {} is {:?}, the component space gives {:?} (t = {})", name, i, out.components[i], r, t)); }
                }
            }
            // enforce is component-wise
            let mut e = a.clone();
            sp.enforce_bounds(&mut e);
            for i in 0..lay.len() {
                let mut r = a.components[i].clone();
                parts[i].enforce_bounds_dyn(&mut *r);
                if !comp_eq(lay[i], &*e.components[i], &*r) { o.report("compound", seed, format!("C13 {}: enforce_bounds component {} is {:?}, the component space gives {:?}", name, i, e.components[i], r)); }
            }
        }
        if bounded {
            let mut rng = StdRng::seed_from_u64(seed);
            for _ in 0..10 { match sp.sample_uniform(&mut rng) {
                Ok(s) => { if s.components.len() != lay.len() || !sp.satisfies_bounds(&s) { o.report("compound", seed, format!("C13 {}: sample {:?} has the wrong layout or violates the bounds", name, s)); } }
                Err(e) => { o.report("compound", seed, format!("C13 {}: sample_uniform failed: {:?}", name, e)); break; }
            } }
        }
    } } }
    // SE(2) / SE(3) behave as the compound of translation and rotation with weights (1, w)
    for &w in &[0.0, 1.0e-9, 0.5, 1.0, 7.0, 1.0e6, 1.0e11] { for &bcase in &[0usize, 1, 2, 3] {
        let bounded = bcase > 0;
        // yaw bounds: ordinary, wide and off-centre (clipped to (-PI, 1) by the SO(2) constructor), half-infinite
        let yaw = [(-1.0, 2.0), (-1.0, 2.0), (-10.0, 1.0), (f64::NEG_INFINITY, 0.0)][bcase];
        let se2 = SE2StateSpace::new(w, if bounded { Some(vec![(-2.0, 2.0), (-3.0, 1.0), yaw]) } else { None }).unwrap();
        let r2 = RealVectorStateSpace::new(2, if bounded { Some(vec![(-2.0, 2.0), (-3.0, 1.0)]) } else { None }).unwrap();
        let so2 = SO2StateSpace::new(if bounded { Some(yaw) } else { None }).unwrap();
        let se3 = SE3StateSpace::new(w, if bounded { Some(vec![(-2.0, 2.0), (-3.0, 1.0), (0.0, 5.0)]) } else { None }).unwrap();
        let r3 = RealVectorStateSpace::new(3, if bounded { Some(vec![(-2.0, 2.0), (-3.0, 1.0), (0.0, 5.0)]) } else { None }).unwrap();
        let so3 = SO3StateSpace::new(None).unwrap();
        for _ in 0..15 {
            let (ax, ay, az, at) = (g.range(-5.0, 5.0), g.range(-5.0, 5.0), g.range(-5.0, 5.0), g.range(-PI, PI));
            let (bx, by, bz, bt) = (g.range(-5.0, 5.0), g.range(-5.0, 5.0), g.range(-5.0, 5.0), g.range(-PI, PI));
            let (qa, qb) = (unit_q(g.range(-1.0, 1.0), g.range(-1.0, 1.0), g.range(-1.0, 1.0), g.range(-1.0, 1.0) + 1.0e-3), unit_q(g.range(-1.0, 1.0), g.range(-1.0, 1.0), g.range(-1.0, 1.0), g.range(-1.0, 1.0) + 1.0e-3));
            // SE(2)
            let (a, b) = (SE2State::new(ax, ay, at), SE2State::new(bx, by, bt));
            let d = se2.distance(&a, &b);
            let dr = ((r2.distance(a.get_translation(), b.get_translation()) * 1.0).powi(2) + (so2.distance(a.get_rotation(), b.get_rotation()) * w).powi(2)).sqrt();
            if !close(d, dr, 1.0e-12) { o.report("compound", seed, format!("C13 SE2(w={}): distance {} but the compound of R^2 and SO(2) with weights (1, w) gives {}", w, d, dr)); }
            let c = se2.satisfies_bounds(&a);
            let cr = r2.satisfies_bounds(a.get_translation()) && so2.satisfies_bounds(a.get_rotation());
            if c != cr { o.report("compound", seed, format!("C13 SE2(w={}) bounded={}: satisfies_bounds = {} but the parts say {} for ({},{},{})", w, bounded, c, cr, ax, ay, at)); }
            let mut e = a.clone(); se2.enforce_bounds(&mut e);
            let (mut et, mut er) = (a.get_translation().clone(), a.get_rotation().clone()); r2.enforce_bounds(&mut et); so2.enforce_bounds(&mut er);
            if e.get_translation().values != et.values || e.get_rotation().value.to_bits() != er.value.to_bits() { o.report("compound", seed, format!("C13 SE2(w={}) bounded={}: enforce_bounds gives {:?}, the parts give {:?} / {:?}", w, bounded, e, et, er)); }
            for &t in &[0.3, 0.0, 1.0, -0.5, 1.5, 3.0] {
                let mut out = SE2State::new(9.0, 9.0, 1.0); se2.interpolate(&a, &b, t, &mut out);
                let (mut ot, mut or) = (RealVectorState::new(vec![0.0, 0.0]), SO2State { value: 0.0 }); r2.interpolate(a.get_translation(), b.get_translation(), t, &mut ot); so2.interpolate(a.get_rotation(), b.get_rotation(), t, &mut or);
                if out.get_translation().values != ot.values || out.get_rotation().value.to_bits() != or.value.to_bits() { o.report("compound", seed, format!("C13 SE2(w={}): interpolate(t = {}) gives {:?}, the parts give {:?} / {:?}", w, t, out, ot, or)); }
            }
            // near-coincident components: the weighted norm does not drop a small component distance (it may carry a large weight)
            for &(dx, dt) in &[(5.0e-10, 0.0), (0.0, 4.0e-11), (3.0e-13, 2.0e-12)] {
                let b2 = SE2State::new(ax + dx, ay, at * 0.9 + dt);
                let a2 = SE2State::new(ax, ay, at * 0.9);
                let d = se2.distance(&a2, &b2);
                let dr = ((r2.distance(a2.get_translation(), b2.get_translation()) * 1.0).powi(2) + (so2.distance(a2.get_rotation(), b2.get_rotation()) * w).powi(2)).sqrt();
                if !rclose(d, dr, 1.0e-9) { o.report("compound", seed, format!("C13 SE2(w={}): distance {:e} between near-coincident poses, the compound of R^2 and SO(2) with weights (1, w) gives {:e}", w, d, dr)); }
            }
            let l2 = ((r2.get_longest_valid_segment_length() * 1.0).powi(2) + (so2.get_longest_valid_segment_length() * w).powi(2)).sqrt();
            if !close(se2.get_longest_valid_segment_length(), l2, 1.0e-12) { o.report("compound", seed, format!("C13 SE2(w={}): resolution {} but the parts give {}", w, se2.get_longest_valid_segment_length(), l2)); }
            // SE(3)
            let (a, b) = (SE3State::new(ax, ay, az, qa.clone()), SE3State::new(bx, by, bz, qb.clone()));
            let d = se3.distance(&a, &b);
            let dr = ((r3.distance(a.get_translation(), b.get_translation()) * 1.0).powi(2) + (so3.distance(a.get_rotation(), b.get_rotation()) * w).powi(2)).sqrt();
            if !close(d, dr, 1.0e-12) { o.report("compound", seed, format!("C13 SE3(w={}): distance {} but the compound of R^3 and SO(3) with weights (1, w) gives {}", w, d, dr)); }
            let c = se3.satisfies_bounds(&a);
            let cr = r3.satisfies_bounds(a.get_translation()) && so3.satisfies_bounds(a.get_rotation());
            if c != cr { o.report("compound", seed, format!("C13 SE3(w={}) bounded={}: satisfies_bounds = {} but the parts say {}", w, bounded, c, cr)); }
            for &t in &[0.3, 0.0, 1.0, -0.5, 1.5] {
                let mut out = SE3State::new(9.0, 9.0, 9.0, SO3State::identity()); se3.interpolate(&a, &b, t, &mut out);
                let (mut ot, mut or) = (RealVectorState::new(vec![0.0, 0.0, 0.0]), SO3State::identity()); r3.interpolate(a.get_translation(), b.get_translation(), t, &mut ot); so3.interpolate(a.get_rotation(), b.get_rotation(), t, &mut or);
                let q = out.get_rotation();
                if out.get_translation().values != ot.values || q.x.to_bits() != or.x.to_bits() || q.y.to_bits() != or.y.to_bits() || q.z.to_bits() != or.z.to_bits() || q.w.to_bits() != or.w.to_bits() { o.report("compound", seed, format!("C13 SE3(w={}): interpolate(t = {}) gives {:?}, the parts give {:?} / {:?}", w, t, out, ot, or)); }
            }
            // enforce: also on a state whose rotation is not normalised (the rotation part has to be enforced as well)
            let mut raw = SE3State::new(ax, ay, az, SO3State::new(qa.x * 3.0, qa.y * 3.0, qa.z * 3.0, qa.w * 3.0));
            se3.enforce_bounds(&mut raw);
            let (mut et, mut er) = (RealVectorState::new(vec![ax, ay, az]), SO3State::new(qa.x * 3.0, qa.y * 3.0, qa.z * 3.0, qa.w * 3.0)); r3.enforce_bounds(&mut et); so3.enforce_bounds(&mut er);
            let rr = raw.get_rotation();
            if raw.get_translation().values != et.values || rr.x.to_bits() != er.x.to_bits() || rr.y.to_bits() != er.y.to_bits() || rr.z.to_bits() != er.z.to_bits() || rr.w.to_bits() != er.w.to_bits() {
                o.report("compound", seed, format!("C13 SE3(w={}) bounded={}: enforce_bounds gives {:?}, the parts give {:?} / {:?}", w, bounded, raw, et, er));
            }
            let l3 = ((r3.get_longest_valid_segment_length() * 1.0).powi(2) + (so3.get_longest_valid_segment_length() * w).powi(2)).sqrt();
            if !close(se3.get_longest_valid_segment_length(), l3, 1.0e-12) { o.report("compound", seed, format!("C13 SE3(w={}): resolution {} but the parts give {}", w, se3.get_longest_valid_segment_length(), l3)); }
        }
    } }
}
pub fn fam_compound(o: &mut Rep, seed: u64) { compound_family(o, seed); }

fn comp_ref(k: Kind, a: &dyn State, b: &dyn State) -> f64 {
    match k {
        Kind::R(_) => ref_rv((a as &dyn Any).downcast_ref::<RealVectorState>().unwrap(), (b as &dyn Any).downcast_ref::<RealVectorState>().unwrap()),
        Kind::So2 => ref_so2((a as &dyn Any).downcast_ref::<SO2State>().unwrap(), (b as &dyn Any).downcast_ref::<SO2State>().unwrap()),
        Kind::So3 => ref_so3((a as &dyn Any).downcast_ref::<SO3State>().unwrap(), (b as &dyn Any).downcast_ref::<SO3State>().unwrap()),
    }
}
fn comp_canonical(k: Kind, a: &dyn State) -> bool {
    match k {
        Kind::R(_) => (a as &dyn Any).downcast_ref::<RealVectorState>().unwrap().values.iter().all(|v| v.is_finite()),
        Kind::So2 => { let v = (a as &dyn Any).downcast_ref::<SO2State>().unwrap().value; v >= -PI && v <= PI }
        Kind::So3 => { let q = (a as &dyn Any).downcast_ref::<SO3State>().unwrap(); ((q.x * q.x + q.y * q.y + q.z * q.z + q.w * q.w).sqrt() - 1.0).abs() < 1.0e-9 }
    }
}
/// the generic C09 / C10 clauses on compound spaces (states share components, so that some components do not move)
fn compound_kits(o: &mut Rep, seed: u64, metric_mode: bool) {
    let mut g = Lcg(seed.wrapping_add(211));
    for (lay, w) in [(vec![Kind::R(2), Kind::So2], vec![1.0, 0.5]), (vec![Kind::So3, Kind::R(1)], vec![2.0, 1.0]), (vec![Kind::R(1), Kind::So2, Kind::R(5)], vec![1.0, 0.0, 3.0])] {
        let sp = CompoundStateSpace::new(lay.iter().map(|&k| comp_space(k, false)).collect(), w.clone());
        let pools: Vec<Vec<Box<dyn State>>> = lay.iter().map(|&k| (0..3).map(|_| comp_state(k, &mut g)).collect()).collect();
        let mut states = vec![];
        for c in 0..14usize { states.push(CompoundState::new((0..lay.len()).map(|i| pools[i][(c / 3usize.pow(i as u32) + c % 2 * i) % 3].clone()).collect())); }
        let (lay2, w2, lay3) = (lay.clone(), w.clone(), lay.clone());
        let has_so3 = lay.iter().any(|k| matches!(k, Kind::So3));
        let kit = Kit { name: format!("compound {:?} weights {:?}", lay, w), sp: &sp, states,
            refd: Box::new(move |a: &CompoundState, b: &CompoundState| (0..lay2.len()).map(|i| (comp_ref(lay2[i], &*a.components[i], &*b.components[i]) * w2[i]).powi(2)).sum::<f64>().sqrt()),
            diam: None, canonical: Box::new(move |a: &CompoundState| (0..lay3.len()).all(|i| comp_canonical(lay3[i], &*a.components[i]))),
            show: Box::new(|a: &CompoundState| format!("{:?}", a.components)), speed_tol: if has_so3 { 1.0e-5 } else { 0.0 }, excess: Box::new(|_| 0.0) };
        if metric_mode { metric(o, seed, &kit); } else { interp(o, seed, &kit); }
    }
}

/// C04 premise (convexity of the bounded region under the space's own interpolation), on the regions where it is expected to hold:
/// boxes in R^n, SO(2) intervals of span <= PI that do not touch the +-PI seam (wider intervals and the seam are known finding D4),
/// SO(3) cones of radius <= PI/2.  For states inside the region every interpolated state must satisfy the bounds.
pub fn fam_convex(o: &mut Rep, seed: u64) {
    let mut g = Lcg(seed.wrapping_add(411));
    let ts = [0.0, 1.0e-9, 0.25, 0.5, 0.75, 1.0 - 1.0e-9, 1.0];
    for (lo, hi) in [(-PI / 2.0, PI / 2.0), (-1.0, 2.0), (0.5, 3.0), (-3.0, 0.1)] {
        let sp = SO2StateSpace::new(Some((lo, hi))).unwrap();
        let mut vals = vec![lo, hi, 0.5 * (lo + hi), ulp_up(lo), ulp_dn(hi)];
        for _ in 0..6 { vals.push(g.range(lo, hi)); }
        for &a in &vals { for &b in &vals { for &t in &ts {
            let mut out = SO2State { value: 0.0 };
            sp.interpolate(&SO2State { value: a }, &SO2State { value: b }, t, &mut out);
            // (rounding can put the result an ulp or two past an end point: tolerance 1e-9)
            if !(out.value >= lo - 1.0e-9 && out.value <= hi + 1.0e-9) { o.report("convex", seed, format!("C04 SO2 bounds ({:?},{:?}): interpolate({:?}, {:?}, {:?}) = {:?} leaves the interval", lo, hi, a, b, t, out.value)); }
        } } }
    }
    for dim in [1usize, 3] {
        let sp = RealVectorStateSpace::new(dim, Some(vec![(-2.0, 3.0); dim])).unwrap();
        let mut sts: Vec<RealVectorState> = vec![RealVectorState::new(vec![-2.0; dim]), RealVectorState::new(vec![3.0; dim])];
        for _ in 0..6 { sts.push(RealVectorState::new((0..dim).map(|_| g.range(-2.0, 3.0)).collect())); }
        for a in &sts { for b in &sts { for &t in &ts {
            let mut out = a.clone();
            sp.interpolate(a, b, t, &mut out);
            if out.values.iter().any(|v| !(*v >= -2.0 - 1.0e-9 && *v <= 3.0 + 1.0e-9)) { o.report("convex", seed, format!("C04 R^{} box: interpolate({:?}, {:?}, {:?}) = {:?} leaves the box", dim, a.values, b.values, t, out.values)); }
        } } }
    }
    let h = 0.5f64.sqrt();
    for (c, r) in [(SO3State::identity(), 0.5), (SO3State::identity(), 1.0), (SO3State::new(h, 0.0, 0.0, h), PI / 2.0), (unit_q(0.3, -0.2, 0.1, 0.9), 0.06)] {
        let sp = SO3StateSpace::new(Some((c.clone(), r))).unwrap();
        let mut rng = StdRng::seed_from_u64(seed ^ 0xc04);
        let mut sts: Vec<SO3State> = vec![c.clone(), SO3State::new(-c.x, -c.y, -c.z, -c.w)];
        for k in 0..8 { let q = sp.sample_uniform(&mut rng).unwrap(); if k % 2 == 0 { sts.push(q); } else { sts.push(SO3State::new(-q.x, -q.y, -q.z, -q.w)); } }      // both signs of the same rotations
        for a in &sts { for b in &sts { for &t in &[0.0, 0.25, 0.5, 0.6, 0.9, 1.0] {
            let mut out = a.clone();
            sp.interpolate(a, b, t, &mut out);
            let dev = sp.distance(&c, &out);
            if !(dev <= r + 1.0e-9) { o.report("convex", seed, format!("C04 SO3 cone {:?}: interpolate(({:?},{:?},{:?},{:?}), ({:?},{:?},{:?},{:?}), {:?}) is {:?} rad from the centre", r, a.x, a.y, a.z, a.w, b.x, b.y, b.z, b.w, t, dev)); }
        } } }
    }
    // premise of C04 used by every planner: a uniform sample of a bounded space satisfies its bounds (cones of many widths about
    // centres with all components non-zero; intervals; boxes)
    let mut rng = StdRng::seed_from_u64(seed ^ 0x5a4);
    for c in [unit_q(1.0, 2.0, 3.0, 4.0), unit_q(0.0, 1.0, 0.0, 1.0), unit_q(-0.5, 0.7, 0.2, -0.4), SO3State::identity()] {
        for r in [0.2, 0.3, 0.45, 0.6, 1.2, 2.0] {
            let sp = SO3StateSpace::new(Some((c.clone(), r))).unwrap();
            let mut bad = 0usize;
            let mut worst = 0.0f64;
            for _ in 0..300 { let q = sp.sample_uniform(&mut rng).unwrap(); let dev = sp.distance(&c, &q); if !(dev <= r + 1.0e-9) || !sp.satisfies_bounds(&q) { bad += 1; worst = worst.max(dev); } }
            if bad > 0 { o.report("convex", seed, format!("C04 SO3 cone {:?} about ({:?},{:?},{:?},{:?}): {} of 300 uniform samples lie outside the cone (up to {:?} rad from the centre)", r, c.x, c.y, c.z, c.w, bad, worst)); }
        }
    }
    for (lo, hi) in [(-1.0, 2.0), (3.0, PI), (-PI, -3.1), (-0.001, 0.001)] {
        let sp = SO2StateSpace::new(Some((lo, hi))).unwrap();
        for _ in 0..300 { let a = sp.sample_uniform(&mut rng).unwrap(); if !sp.satisfies_bounds(&a) { o.report("convex", seed, format!("C04 SO2 ({:?},{:?}): the uniform sample {:?} violates the bounds", lo, hi, a.value)); break; } }
    }
    {
        let sp = RealVectorStateSpace::new(3, Some(vec![(-2.0, 3.0), (0.0, 1.0e-9), (-1.0e6, 1.0e6)])).unwrap();
        for _ in 0..300 { let a = sp.sample_uniform(&mut rng).unwrap(); if !sp.satisfies_bounds(&a) { o.report("convex", seed, format!("C04 R^3 box: the uniform sample {:?} violates the bounds", a.values)); break; } }
    }
}
