"""Mechanical extraction of real oxmpl source into one Verus file per unit.

generated file =  prelude text (from /verif/verus/prelude/*.rs)
               +  for each source of the unit: the item text of the repo file from the first
                  item after the `use` block to EOF (without `#[cfg(test)]` modules), byte for
                  byte, after the numbered token-level rewrite rules R1..R9, with annotation
                  text spliced in at anchors
               +  unit epilogue (lemmas, vacuity canary) from the annotation module
               +  `} // verus!  fn main(){}`

Every generated line keeps its origin (repo file:line, prelude file:line, or annotation id), so
verifier diagnostics are reported against named clauses and real source lines.
"""
import os
import re
import hashlib
from rsscan import Src

REPO = os.environ.get("VERIF_REPO", "/repo")
VERIF = os.path.dirname(os.path.dirname(os.path.abspath(__file__)))


class ExtractError(Exception):
    """lost anchor / unsupported construct: the unit is undecided (exit 2), never a violation."""


# ----------------------------------------------------------------------------------------------
# rewrite rules (DESIGN section 3.1).  Each: (id, regex, replacement, description)
# ----------------------------------------------------------------------------------------------
def _balanced_paren_expr_before(line, end):
    """line[start:end] is a parenthesised expression ending at index end (exclusive)."""
    assert line[end - 1] == ')'
    d = 0
    for j in range(end - 1, -1, -1):
        if line[j] == ')':
            d += 1
        elif line[j] == '(':
            d -= 1
            if d == 0:
                return j
    return -1


def r1_ceil(line):
    n = 0
    while True:
        k = line.find('.ceil() as usize')
        if k < 0:
            return line, n
        s = _balanced_paren_expr_before(line, k)
        if s < 0:
            raise ExtractError("R1: cannot find operand of .ceil() as usize in: " + line.strip())
        inner = line[s + 1:k - 1]
        line = line[:s] + 'f64_ceil_to_usize(' + inner + ')' + line[k + len('.ceil() as usize'):]
        n += 1


RULES = [
    ("R1", None, None, "`(E).ceil() as usize` -> `f64_ceil_to_usize(E)`"),
    ("R2", re.compile(r'\b([A-Za-z_][A-Za-z0-9_]*) as f64\b'), r'usize_to_f64(\1)', "`x as f64` -> `usize_to_f64(x)`"),
    ("R9", None, None, "`for &X in &E {` -> `let mut X__k = 0; while X__k < E.len() { let X = E[X__k]; X__k += 1;` (index loop, increment first so `continue` keeps its meaning)"),
    ("R15", None, None, "`for X in &E {` -> same index loop with `let X = &E[X__k];`"),
    ("R16", None, None, "`for X in V {` (V a Vec of Copy elements, by value) -> same index loop with `let X = V[X__k];`"),
    ("R18", None, None, "`for X in A..B {` whose body uses `continue` -> `let mut X__k = A; while X__k < B { let X = X__k; X__k += 1;`"),
    ("R4", re.compile(r'\bf64::INFINITY\b'), 'f64_infinity()', "`f64::INFINITY` -> `f64_infinity()`"),
    ("R20", re.compile(r'\b(?:std::)?f64::(EPSILON|MAX|MIN|MIN_POSITIVE|NAN|NEG_INFINITY)\b'), r'f64_const_\1()', "`f64::EPSILON` (MAX, MIN, MIN_POSITIVE, NAN, NEG_INFINITY) -> `f64_const_EPSILON()`: an uninterpreted constant"),
    ("R5", re.compile(r'\bfor \(([A-Za-z_]\w*), ([A-Za-z_]\w*)\) in ([A-Za-z_]\w*)\.iter\(\)\.enumerate\(\)\.skip\((\d+)\) \{'),
     r'for \1 in \4..\3.len() { let \2 = &\3[\1];', "`for (i, x) in v.iter().enumerate().skip(k) {` -> `for i in k..v.len() { let x = &v[i];`"),
    ("R6a", re.compile(r'\b([A-Za-z_]\w*)\.extend\(([A-Za-z_]\w*)\.into_iter\(\)\.skip\((\d+)\)\);'), r'vec_extend_skip(&mut \1, \2, \3);', "`a.extend(b.into_iter().skip(k))` -> `vec_extend_skip(&mut a, b, k)`"),
    ("R6b", re.compile(r'\b([A-Za-z_]\w*)\.extend\(([A-Za-z_]\w*)\);'), r'vec_extend(&mut \1, \2);', "`a.extend(b)` -> `vec_extend(&mut a, b)`"),
    ("R7", re.compile(r'\b([A-Za-z_]\w*)\.clone\(\)\.into_iter\(\)\.collect\(\)'), r'vecdeque_from_vec(&\1)', "`v.clone().into_iter().collect()` -> `vecdeque_from_vec(&v)`"),
    ("R8", re.compile(r'\b([A-Za-z_]\w*)\[&([A-Za-z_]\w*)\]'), r'(*\1.get(&\2).unwrap())', "`m[&k]` (HashMap) -> `(*m.get(&k).unwrap())`"),
    ("R10", re.compile(r'\brand::rng\(\)'), 'rand_rng()', "`rand::rng()` -> `rand_rng()` (prelude stub for the thread generator)"),
    ("R13", re.compile(r'\bif (\w+\.elapsed\(\)(?:\.as_secs_f64\(\))?) > ([\w.]+) \{'), r'let elapsed__v = \1; if elapsed__v > \2 {', "`if X.elapsed() > T {` -> `let elapsed__v = X.elapsed(); if elapsed__v > T {` (names the clock reading)"),
    ("R14", None, None, "`S.sample_goal(..).unwrap()` / `S.sample_uniform(..).unwrap()` -> `{ let sample__r = S.sample_…(..); proof { assert(sample__r is Ok); } sample__r.unwrap() }` (let-binding plus a named ghost obligation)"),
    ("R17", None, None, "`fn f(.., r: &mut impl Tr, ..)` -> `fn f<R: Tr>(.., r: &mut R, ..)` (argument-position impl Trait as a named type parameter)"),
    ("R11", re.compile(r'\bvec!\[false; ([^\]]+)\]'), r'vec_of_false(\1)', "`vec![false; n]` -> `vec_of_false(n)`"),
]


def apply_rewrites(lines, r9_loops):
    """lines: list of str (with newline).  returns new lines, hit counts."""
    hits = {r[0]: 0 for r in RULES}
    out = []
    for ln in lines:
        # comments are left alone: only rewrite the code part before a `//`
        code, sep, comment = ln.partition('//')
        if '"' in code and code.count('"') % 2 == 1:
            code, sep, comment = ln, '', ''
        code, n = r1_ceil(code)
        hits["R1"] += n
        for rid, rx, rep, _ in RULES:
            if rid == "R9":
                mm = re.search(r'\bfor &([A-Za-z_]\w*) in &([A-Za-z_]\w*) \{', code)
                if mm and (mm.group(1), mm.group(2)) in r9_loops and r9_loops[(mm.group(1), mm.group(2))] > 0:
                    # only the occurrences whose body contains `continue` (decided by caller)
                    pass
                continue
            if rx is None:
                continue
            code, n = rx.subn(rep, code)
            hits[rid] += n
        out.append(code + sep + comment)
    return out, hits


def apply_r9(text):
    """R9 / R15 / R16: `for` loops over a collection become index `while` loops (increment first, so
    `continue` keeps its meaning).  Range loops (`a..b`, `a..=b`) are left alone.  Line preserving."""
    counts = {"R9": 0, "R15": 0, "R16": 0}
    s = Src(text)
    edits = []
    for mm in s.find_code(r'\bfor (&?)([A-Za-z_]\w*) in (&?)([^{]+?) \{'):
        pat_ref, x, it_ref, e = mm.group(1), mm.group(2), mm.group(3), mm.group(4).strip()
        if '..' in e:
            continue
        if it_ref == '&' and pat_ref == '&':
            rid, bind = "R9", "let %s = %s[%s__k];" % (x, e, x)
        elif it_ref == '&':
            rid, bind = "R15", "let %s = &%s[%s__k];" % (x, e, x)
        elif re.match(r'^[A-Za-z_]\w*$', e) and pat_ref == '':
            rid, bind = "R16", "let %s = %s[%s__k];" % (x, e, x)
        else:
            continue
        rep = "let mut %s__k: usize = 0; while %s__k < %s.len() { %s %s__k += 1;" % (x, x, e, bind, x)
        edits.append((mm.start(), mm.end(), rep))
        counts[rid] += 1
    # R18: a range `for` loop whose body uses `continue` (unsupported by Verus) becomes a `while` loop that binds the
    # loop variable first and increments the counter before the body, so `continue` keeps its meaning
    counts["R18"] = 0
    for mm in s.find_code(r'\bfor ([A-Za-z_]\w*) in ([^{]+?)\.\.(=?)([^{]+?) \{'):
        o = mm.end() - 1
        c = s.match_brace(o)
        if not any(True for _ in Src(text[o:c]).find_code(r'\bcontinue\b')):
            continue
        x, lo_e, incl, hi_e = mm.group(1), mm.group(2).strip(), mm.group(3), mm.group(4).strip()
        cmp_op = "<=" if incl else "<"
        # the marker lets a `loop for#N` annotation written for the `for` form still apply (see _adapt_r18)
        rep = "let mut %s__k: usize = %s; while /*@R18|%s|%s|%s|%s*/ %s__k %s %s { let %s = %s__k; %s__k += 1;" % (x, lo_e, x, lo_e, hi_e, cmp_op, x, cmp_op, hi_e, x, x, x)
        edits.append((mm.start(), mm.end(), rep))
        counts["R18"] += 1
    for a2, b2, rep in sorted(edits, reverse=True):
        text = text[:a2] + rep + text[b2:]
    return text, counts


# ----------------------------------------------------------------------------------------------
# annotations
# ----------------------------------------------------------------------------------------------
class Ann:
    """One annotation: where (scope + position) and what (spec text).

    scope:    'fn NAME' | 'struct NAME' | 'impl#K' | 'top' | 'end'
    pos:      'sig'              text goes between the signature and the body `{`  (opt ret='r' names the result)
              'attr'             text goes on its own line(s) before the item (before its attributes/docs are kept above)
              'body-start'       right after the body `{`
              'loop KIND#N'      between loop header and `{`   (opt label='iter' -> `for x in iter: …`)
              'loop-end KIND#N'  just before the closing `}` of that loop
              'before /RE/'      on its own line(s) before the line where RE matches (exactly once in scope)
              'after /RE/'       after the line where the match ends
              'impl-start'       right after `{` of impl#K
    id/tags:  default clause id and property tags of every line of `text`; a line may override with
              a trailing `//@ sub [C01,C02]` (clause id becomes id.sub).
    """

    def __init__(self, scope, pos, text, id, tags=(), ret=None, label=None):
        self.scope, self.pos, self.text, self.id, self.tags = scope, pos, text.strip('\n'), id, tuple(tags)
        self.ret, self.label = ret, label


MARK = re.compile(r'//@\s*([A-Za-z0-9_.\-]+)?\s*(?:\[([^\]]*)\])?\s*$')


MARKB = re.compile(r'/\*@\s*([A-Za-z0-9_.#\-]+)\s*(?:\[([^\]]*)\])?\s*\*/')


def _impl_blocks(s):
    out = []
    for mm in s.find_code(r'(?m)^impl\b'):
        o = s.body_open(mm.end())
        out.append((mm.start(), o, s.match_brace(o)))
    return out


def _adapt_r18(body, r18):
    """A loop annotation written for `for x in A..B` applied to the R18 form `while x__k < B`: the loop variable at the loop
    head is the counter `x__k`; the range facts Verus supplies implicitly for `for` and the termination measure are added."""
    x, lo_e, hi_e, op = r18
    k = x + "__k"
    body = re.sub(r'\b%s\b' % re.escape(x), k, body)
    hi_s = hi_e if op == "<" else "(%s) + 1" % hi_e
    rng = " %s <= %s, %s <= %s || %s == %s," % (lo_e, k, k, hi_s, k, lo_e)
    m = re.search(r'\binvariant\b(?!_)', body)
    if m:
        body = body[:m.end()] + rng + body[m.end():]
    else:
        body = "            invariant" + rng + "\n" + body
    if not re.search(r'\bdecreases\b', body):
        body = body.rstrip('\n') + "\n            decreases (%s) - %s,\n" % (hi_s, k)
    return body


def _resolve(s, ann):
    """returns list of edits (start, end, newtext, is_ann) for this annotation on Src s."""
    text = s.text
    scope = ann.scope
    fns = None
    lo, hi = 0, len(text)
    fn = None
    if scope.startswith('fn '):
        name = scope[3:].strip()
        ordinal = None
        if '#' in name:
            name, o = name.split('#', 1)
            ordinal = int(o)
        cands = [f for f in s.functions() if f['name'] == name]
        if ordinal is not None:
            if ordinal > len(cands):
                raise ExtractError("lost anchor: %s: function `%s` occurrence %d not found (%d occurrences)" % (ann.id, name, ordinal, len(cands)))
            cands = [cands[ordinal - 1]]
        if len(cands) != 1:
            raise ExtractError("lost anchor: %s: function `%s` found %d times" % (ann.id, name, len(cands)))
        fn = cands[0]
        lo, hi = fn['open'], fn['close']
    elif scope.startswith('struct '):
        name = scope[7:].strip()
        ms = list(s.find_code(r'(?m)^(pub )?struct %s\b' % re.escape(name)))
        if len(ms) != 1:
            raise ExtractError("lost anchor: %s: struct `%s` found %d times" % (ann.id, name, len(ms)))
        lo = ms[0].start()
    elif scope.startswith('impl#'):
        k = int(scope[5:])
        ib = _impl_blocks(s)
        if k > len(ib):
            raise ExtractError("lost anchor: %s: impl#%d not found (%d impls)" % (ann.id, k, len(ib)))
        lo, hi = ib[k - 1][1], ib[k - 1][2]
    elif scope in ('top', 'end'):
        pass
    else:
        raise ExtractError("bad scope " + scope)

    body = ann.text + '\n'
    pos = ann.pos
    if scope == 'top':
        return [(0, 0, body, True)]
    if scope == 'end':
        return [(len(text), len(text), body, True)]
    if pos == 'attr':
        # before the item: go up over attribute and doc-comment lines
        start = s.line_start(fn['kw'] if fn else lo)
        while True:
            prev_end = start - 1
            if prev_end <= 0:
                break
            prev_start = s.line_start(prev_end - 1) if prev_end > 0 else 0
            pl = text[prev_start:prev_end].strip()
            if pl.startswith('#[') or pl.startswith('///'):
                start = prev_start
            else:
                break
        return [(start, start, body, True)]
    if pos == 'sig':
        edits = []
        o = fn['open']
        if ann.ret:
            # name the return value:  `-> T {`  =>  `-> (r: T)`
            head = text[fn['kw']:o]
            k = head.rfind('->')
            if k < 0:
                raise ExtractError("lost anchor: %s: fn has no return type to name" % ann.id)
            # the return type runs to `where` (if any, at depth 0) or to `{`
            ty_start = fn['kw'] + k + 2
            wm = re.search(r'\bwhere\b', text[ty_start:o])
            ty_end = ty_start + wm.start() if wm else o
            ty = text[ty_start:ty_end].strip()
            trail = text[ty_end:o]
            edits.append((ty_start, o, ' (%s: %s)%s' % (ann.ret, ty, ('\n' + trail.strip() + ' ') if trail.strip() else '\n'), False))
            edits.append((o, o, body, True))
        else:
            edits.append((o, o, '\n' + body, True))
        return edits
    if pos in ('body-start', 'impl-start'):
        return [(lo + 1, lo + 1, '\n' + body, True)]
    mm = re.match(r'(loop|loop-end|loop-after|loop-body-start) (for|while|loop)#(\d+)$', pos)
    if mm:
        which, kind, k = mm.group(1), mm.group(2), int(mm.group(3))
        ls = [l for l in s.loops(lo + 1, hi) if l['kind'] == kind]
        if k > len(ls):
            raise ExtractError("lost anchor: %s: %s#%d not found in %s (%d such loops)" % (ann.id, kind, k, scope, len(ls)))
        l = ls[k - 1]
        if which == 'loop-after':
            at = s.line_end(l['close'])
            return [(at, at, body, True)]
        if which == 'loop-body-start':
            # desugared collection loops (R9/R15/R16) bind the element on the header line: go after it
            eol = s.line_end(l['open'])
            if text[l['open'] + 1:eol].strip():
                return [(eol, eol, body, True)]
            return [(l['open'] + 1, l['open'] + 1, '\n' + body, True)]
        if which == 'loop-end':
            st = s.line_start(l['close'])
            if text[st:l['close']].strip():
                st = l['close']
                return [(st, st, '\n' + body, True)]
            return [(st, st, body, True)]
        edits = []
        if l.get('r18'):
            body = _adapt_r18(body, l['r18'])
        if ann.label and not l.get('r18'):
            hm = re.match(r'for\s+(.+?)\s+in\s+', text[l['kw']:l['open']], re.S)
            if not hm:
                raise ExtractError("lost anchor: %s: cannot label loop header" % ann.id)
            at = l['kw'] + hm.end()
            edits.append((at, at, ann.label + ': ', False))
        # strip the whitespace before `{`
        ws = l['open']
        while ws > 0 and text[ws - 1] in ' \t':
            ws -= 1
        edits.append((ws, l['open'], '\n' + body, True))
        return edits
    mm = re.match(r'(before|after) /(.*)/$', pos, re.S)
    if mm:
        which, rx = mm.group(1), mm.group(2)
        ms = [m for m in re.finditer(rx, text[lo:hi]) if s.is_code(lo + m.start())]
        if len(ms) != 1:
            raise ExtractError("lost anchor: %s: /%s/ matches %d times in %s" % (ann.id, rx, len(ms), scope))
        m0 = ms[0]
        if which == 'before':
            at = s.line_start(lo + m0.start())
        else:
            at = s.line_end(lo + m0.end() - 1)
        return [(at, at, body, True)]
    mm = re.match(r'closure /(.*)/$', pos, re.S)
    if mm:
        # rule R12: give a closure an explicit header (typed parameters, named result, ensures);
        # the closure body expression is kept verbatim and wrapped in braces.
        rx = mm.group(1)
        ms = [m for m in re.finditer(rx, text[lo:hi]) if s.is_code(lo + m.start())]
        if len(ms) != 1:
            raise ExtractError("lost anchor: %s: closure head /%s/ matches %d times in %s" % (ann.id, rx, len(ms), scope))
        m0 = ms[0]
        a, b = lo + m0.start(), lo + m0.end()
        d = 0
        end = -1
        for j in range(b, hi):
            if not s.is_code(j):
                continue
            ch = text[j]
            if ch in '([{':
                d += 1
            elif ch in ')]}':
                d -= 1
                if d < 0:
                    end = j
                    break
            elif ch == ',' and d == 0:
                end = j
                break
        if end < 0:
            raise ExtractError("lost anchor: %s: cannot find the end of the closure" % ann.id)
        return [(a, b, '\n' + ann.text + '\n{ ', True), (end, end, ' }', False)]
    raise ExtractError("bad position %r in %s" % (pos, ann.id))


# ----------------------------------------------------------------------------------------------
def _strip_to_items(path):
    """returns list of (lineno, text) of the kept region of a repo source file, and a description
    of what was dropped."""
    raw = open(path).read()
    s = Src(raw)
    # end of the leading `use` block: last top-level `use …;` before the first non-use item
    i = 0
    n = len(raw)
    last_use_end = 0
    while i < n:
        if not s.is_code(i) or raw[i].isspace():
            i += 1
            continue
        if raw.startswith('use ', i) or raw.startswith('pub use ', i):
            semi = s.next_code_char(';', i)
            last_use_end = s.line_end(semi)
            i = last_use_end
            continue
        break
    dropped = []
    dropped.append("lines 1-%d (licence header and `use` block; the prelude supplies the imports)" % (raw.count('\n', 0, last_use_end)))
    # cfg(test) modules
    cut = []
    for mm in s.find_code(r'#\[cfg\(test\)\]\s*\n\s*mod\s+\w+\s*\{'):
        o = mm.end() - 1
        c = s.match_brace(o)
        cut.append((s.line_start(mm.start()), s.line_end(c)))
        dropped.append("lines %d-%d (#[cfg(test)] module)" % (s.line_of(mm.start()), s.line_of(c)))
    keep = []
    pos = 0
    lineno = 0
    for ln in raw.splitlines(True):
        lineno += 1
        st = pos
        pos += len(ln)
        if st < last_use_end:
            continue
        if any(a <= st < b for a, b in cut):
            continue
        keep.append((lineno, ln))
    return keep, dropped


class Generated:
    def __init__(self):
        self.text = ""
        self.origins = []     # per generated line (1-based index-1): dict
        self.rule_hits = {}
        self.dropped = {}
        self.anns = []
        self.sha = ""
        self.repo_fns = {}
        self.fatal = None       # first structural lost anchor (the unit is undecided)
        self.lost = []          # annotations whose anchor was lost (id, dependent property tags)
        self.shapes = {}        # rel -> {fn@k: dict(unannotated_loops, unannotated_closures)}
        self.clock_uses = []
        self.entropy_uses = []      # syntactic side condition of C07: entropy / clock sources in non-planner code
        self.hash_order_uses = []   # syntactic side condition of C07: iteration over a HashMap / HashSet    # syntactic side condition of C07: uses of a clock reading outside the deadline test

    def fn_of(self, o):
        """function name a generated line belongs to (from its origin)"""
        if o is None:
            return None
        if o.get('kind') == 'repo':
            for name, l0, l1 in self.repo_fns.get(o['file'], []):
                if l0 <= o['line'] <= l1:
                    return name
        if o.get('kind') == 'ann' and str(o.get('scope', '')).startswith('fn '):
            return o['scope'][3:].strip().split('#')[0]
        return None

    def origin(self, line):
        if 1 <= line <= len(self.origins):
            return self.origins[line - 1]
        return None


def build_unit(unit):
    """unit: module object with NAME, SOURCES [(relpath)], PRELUDE [files], ANNS {relpath: [Ann]},
    EPILOGUE (str), optional EXTRA_RULES."""
    g = Generated()
    chunks = []   # (text, origin_id)
    origins_tbl = []

    def add_origin(o):
        origins_tbl.append(o)
        return len(origins_tbl) - 1

    # prelude
    for pf in unit.PRELUDE:
        p = os.path.join(VERIF, 'verus', 'prelude', pf)
        for k, ln in enumerate(open(p).read().splitlines(True), 1):
            chunks.append((ln if ln.endswith('\n') else ln + '\n', add_origin(dict(kind='prelude', file=pf, line=k))))
    # unit-specific, explicit edits of the prelude text (each must match exactly once; line-preserving)
    ptext = "".join(c[0] for c in chunks)
    for old_t, new_t in getattr(unit, 'PRELUDE_EDITS', []):
        if ptext.count(old_t) != 1 or old_t.count('\n') != new_t.count('\n'):
            raise ExtractError("prelude edit does not apply exactly once / is not line preserving: %r" % old_t[:60])
        ptext = ptext.replace(old_t, new_t)
    plines = ptext.splitlines(True)
    chunks = [(plines[i], chunks[i][1]) for i in range(len(chunks))]
    text = "".join(c[0] for c in chunks)
    orig = []
    for t, o in chunks:
        orig.extend([o] * len(t))

    for rel in unit.SOURCES:
        path = os.path.join(REPO, rel)
        keep, dropped = _strip_to_items(path)
        g.dropped[rel] = dropped
        rs = Src(open(path).read())
        g.repo_fns[rel] = [(f['name'], rs.line_of(f['line_start']), rs.line_of(f['close'])) for f in rs.functions()]
        # rewrite rules (line preserving)
        lines = [ln for _, ln in keep]
        body = "".join(lines)
        pre = getattr(unit, 'PREPROCESS', {}).get(rel)
        if pre:
            body2 = pre(body)
            if body2.count('\n') != body.count('\n'):
                raise ExtractError("unit preprocessing of %s is not line preserving" % rel)
            body = body2
        body, c9 = apply_r9(body)
        # R17 on the whole text (a signature may span several lines; `[^)]` also matches newlines: line preserving)
        body, n17 = re.subn(r'\bfn (\w+)\(([^)]*?)\b(\w+): &mut impl ([\w:]+)([^)]*)\)', r'fn \1<R: \4>(\2\3: &mut R\5)', body)
        c9["R17"] = n17
        # R1 on the whole text as well: the cast may be written on a continuation line and the operand may span lines
        body = re.sub(r'\.ceil\(\)(\s+)as usize', lambda m: '.ceil() as usize' + m.group(1), body)
        body, n1 = r1_ceil(body)
        lines2 = body.splitlines(True)
        assert len(lines2) == len(lines), "R9 must preserve line count"
        lines2, hits = apply_rewrites(lines2, {})
        hits.update(c9)
        hits["R1"] = hits.get("R1", 0) + n1
        for extra in getattr(unit, 'EXTRA_RULES', {}).get(rel, []):
            rid, rx, rep, desc = extra
            cnt = 0
            for i2, ln in enumerate(lines2):
                ln2, n = re.subn(rx, rep, ln)
                lines2[i2] = ln2
                cnt += n
            hits[rid] = cnt
        # R14: `E.unwrap()` on a sampler result -> let-binding + ghost assertion that the sampler succeeded
        # (a named, site-specific obligation; it fails on the unchanged tree and is a known finding)
        r14 = re.compile(r'(\b[\w.]+\.(?:sample_goal|sample_uniform)\((?:[^()]|\([^()]*\))*\))\.unwrap\(\)')
        n14 = 0
        for i2, ln in enumerate(lines2):
            code, sep, comment = ln.partition('//')
            def rep14(m):
                nonlocal n14
                n14 += 1
                return "{ let sample__r = %s; proof { assert(sample__r is Ok); /*@ kf.sampler_unwrap#%d [C08] */ } sample__r.unwrap() }" % (m.group(1), n14)
            code = r14.sub(rep14, code)
            lines2[i2] = code + sep + comment
        hits["R14"] = n14
        for k, v in hits.items():
            g.rule_hits[k] = g.rule_hits.get(k, 0) + v
        # C07 side condition (syntactic, not a discharged obligation): a clock reading may only feed the deadline
        # test `<reading> > timeout` / `<reading> > self.timeout` that rule R13 names `elapsed__v`
        for (lineno, _), ln in zip(keep, lines2):
            code = ln.split('//')[0]
            for mm in re.finditer(r'\.elapsed\(\)', code):
                if re.search(r'let elapsed__v = \w+\.elapsed\(\)(?:\.as_secs_f64\(\))?; if elapsed__v > (?:self\.)?timeout \{', code):
                    continue
                g.clock_uses.append(dict(file=rel, line=lineno, text=code.strip()))
        # C07 side condition no. 2 (syntactic): iteration over a hash container.  std's HashMap / HashSet iterate in an order that
        # depends on per-instance random hash keys, so any result derived from that order differs between two identically seeded
        # planners.  Lookups / inserts are fine; `iter`, `keys`, `values`, `drain`, `into_iter`, `for .. in container` are reported.
        code_all = "".join(ln.split('//')[0].rstrip('\n') + "\n" for ln in lines2)
        hnames = set(re.findall(r'\b(?:let\s+(?:mut\s+)?)?(\w+)\s*(?::\s*(?:std::collections::)?Hash(?:Set|Map)<[^=;]*)?=\s*[^;]*?\bHash(?:Set|Map)\b', code_all))
        hnames |= set(re.findall(r'\b(\w+)\s*:\s*(?:std::collections::)?Hash(?:Set|Map)<', code_all))
        hnames |= set(m for m in re.findall(r'\blet\s+(?:mut\s+)?(\w+)[^;=]*=[^;]*collect::<\s*(?:std::collections::)?Hash(?:Set|Map)', code_all))
        hnames -= {"let", "mut", "self"}
        if hnames:
            alt = "|".join(sorted(re.escape(n) for n in hnames))
            rx_use = re.compile(r'\b(?:self\.)?(?:%s)\s*\.\s*(?:iter|iter_mut|into_iter|keys|values|values_mut|drain|into_keys|into_values)\s*\(|\bin\s+&?(?:mut\s+)?(?:self\.)?(?:%s)\b' % (alt, alt))
            for mm in rx_use.finditer(code_all):
                li = code_all.count("\n", 0, mm.start())
                g.hash_order_uses.append(dict(file=rel, line=keep[li][0], text=" ".join(mm.group(0).split())))
        # C07 side condition no. 3 (syntactic): a state space (anything that is not a planner) has no business drawing from a
        # source of randomness or time other than the generator it is handed
        if 'geometric/planners/' not in rel:
            for mm in re.finditer(r'\brand::random\b|\bthread_rng\b|\brand::rng\s*\(|\bfrom_os_rng\b|\bfrom_entropy\b|\bOsRng\b|\bSystemTime\b|\bInstant::now\b|\bgetrandom\b', code_all):
                li = code_all.count("\n", 0, mm.start())
                g.entropy_uses.append(dict(file=rel, line=keep[li][0], text=lines2[li].strip()[:160]))
        stext = "".join(lines2)
        sorig = []
        for (lineno, _), ln in zip(keep, lines2):
            sorig.extend([add_origin(dict(kind='repo', file=rel, line=lineno))] * len(ln))
        # annotations for this source
        s = Src(stext)
        edits = []
        for ai, ann in enumerate(unit.ANNS.get(rel, [])):
            try:
                res_edits = _resolve(s, ann)
            except ExtractError as e:
                # A lost anchor of an annotation that declares which properties depend on it makes exactly those
                # properties undecided for this unit; the annotation is left out and the other properties are still
                # decided.  An annotation without declared dependants (ghost declarations, attributes, contracts of
                # whole functions) is structural: the unit is undecided.
                if ann.tags and ann.pos not in ('sig', 'attr', 'impl-start'):
                    g.lost.append(dict(id=ann.id, tags=list(ann.tags), reason=str(e)))
                    continue
                if g.fatal is None:
                    g.fatal = str(e)
                continue
            for (a, b, newtext, is_ann) in res_edits:
                edits.append((a, b, newtext, is_ann, ann))
            g.anns.append(ann)
        # shape of every function: loops that carry no loop annotation and closures that carry no R12 header.  A function
        # with MORE of either than on the unchanged tree (vf/shapes.json) cannot be decided by the existing annotations: a
        # failed obligation there is a tool limit, not a verdict (check.py makes it undecided).
        for f in s.functions():
            if f.get('open') is None or f.get('close') is None:
                continue
            un = 0
            for l in s.loops(f['open'] + 1, f['close']):
                if not any(is_ann and l['kw'] <= a <= l['open'] for (a, b, nt, is_ann, an) in edits):
                    un += 1
            ncl = len(list(s.find_code(r'(?:[(,=]|\bmove)\s*\|[^|\n]*\|', f['open'] + 1, f['close'])))
            acl = len([1 for (a, b, nt, is_ann, an) in edits if an.pos.startswith('closure') and is_ann and f['open'] <= a <= f['close']])
            has_contract = any(an.scope.startswith('fn ') and an.scope[3:].split('#')[0].strip() == f['name'] and an.pos in ('sig', 'attr') for (a, b, nt, is_ann, an) in edits)
            calls = sorted(set(m.group(1) for m in s.find_code(r'\b([A-Za-z_]\w*)\s*(?:::<[^>]*>)?\(', f['open'] + 1, f['close'])))
            g.shapes.setdefault(rel, {})[f['name'] + "@" + str(len([x for x in g.shapes.get(rel, {}) if x.split("@")[0] == f['name']]) + 1)] = dict(unannotated_loops=un, unannotated_closures=max(0, ncl - acl), has_contract=has_contract, calls=calls)
        edits.sort(key=lambda e: (e[0], e[1]))
        for e1, e2 in zip(edits, edits[1:]):
            if e2[0] < e1[1]:
                raise ExtractError("overlapping annotations %s / %s" % (e1[4].id, e2[4].id))
        # apply in descending order; stable for equal offsets: later-listed goes after earlier-listed
        out_t, out_o = [], []
        cur = 0
        for (a, b, newtext, is_ann, ann) in edits:
            out_t.append(stext[cur:a])
            out_o.extend(sorig[cur:a])
            if is_ann:
                # one origin per line of the annotation text
                for k, ln in enumerate(newtext.splitlines(True)):
                    oid = add_origin(dict(kind='ann', ann=ann, line=k))
                    out_t.append(ln)
                    out_o.extend([oid] * len(ln))
            else:
                oid = sorig[a] if a < len(sorig) else sorig[-1]
                out_t.append(newtext)
                out_o.extend([oid] * len(newtext))
            cur = b
        out_t.append(stext[cur:])
        out_o.extend(sorig[cur:])
        text += "".join(out_t)
        orig.extend(out_o)
        if not text.endswith('\n'):
            text += '\n'
            orig.append(orig[-1])

    epi = getattr(unit, 'EPILOGUE', '')
    epi_ann = Ann('end', '', epi, unit.NAME + '.epilogue', ())
    for k, ln in enumerate((epi.strip('\n') + '\n} // verus!\nfn main() {}\n').splitlines(True)):
        oid = add_origin(dict(kind='ann', ann=epi_ann, line=k))
        text += ln
        orig.extend([oid] * len(ln))

    # per-line origins + clause markers
    g.text = text
    pos = 0
    cur_mark = {}
    for ln in text.splitlines(True):
        o = None
        for k, ch in enumerate(ln):
            if not ch.isspace():
                o = dict(origins_tbl[orig[pos + k]])
                break
        if o is None:
            o = dict(kind='blank')
        if o['kind'] in ('ann', 'prelude'):
            mm = MARK.search(ln.rstrip('\n'))
            if o['kind'] == 'ann':
                ann = o['ann']
                o['clause'] = ann.id
                o['tags'] = list(ann.tags)
                o['ann_id'] = ann.id
                o['scope'] = ann.scope
                del o['ann']
                if mm and (mm.group(1) or mm.group(2) is not None):
                    if mm.group(1):
                        o['clause'] = ann.id + '.' + mm.group(1)
                    if mm.group(2) is not None:
                        o['tags'] = [t.strip() for t in mm.group(2).split(',') if t.strip()]
                    o['marked'] = True
            else:
                if mm and mm.group(1):
                    o['clause'] = 'prelude.' + mm.group(1)
                    o['tags'] = [t.strip() for t in (mm.group(2) or '').split(',') if t.strip()]
                    o['marked'] = True
        if o['kind'] == 'repo':
            mb = MARKB.search(ln)
            if mb:
                o['clause'] = unit.NAME.replace('V-', '') + '.' + mb.group(1)
                o['tags'] = [t.strip() for t in (mb.group(2) or '').split(',') if t.strip()]
                o['marked'] = True
        o['text'] = ln.rstrip('\n')
        g.origins.append(o)
        pos += len(ln)
    g.sha = hashlib.sha256(text.encode()).hexdigest()
    return g
