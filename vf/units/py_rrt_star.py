"""Unit V-pybind-rrt_star: oxmpl-py/src/geometric wrapper of the rrt_star planner under delegation contracts (see py_bindings.py)."""
from units import py_bindings as _b

globals().update(_b.planner_unit("rrt_star"))
