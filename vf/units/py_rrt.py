"""Unit V-pybind-rrt: oxmpl-py/src/geometric wrapper of the rrt planner under delegation contracts (see py_bindings.py)."""
from units import py_bindings as _b

globals().update(_b.planner_unit("rrt"))
