"""Unit V-js: oxmpl-js/src/base/state_validity_checker.rs and goal.rs (the wasm callback glue) under contract."""
import re
from extract import Ann

NAME = "V-js"
SRC_VC = "oxmpl-js/src/base/state_validity_checker.rs"
SRC_GOAL = "oxmpl-js/src/base/goal.rs"
SOURCES = [SRC_VC, SRC_GOAL]
PRELUDE = ["core.rs", "js.rs"]
SERVES = ["C20"]
TYPES = ["RealVectorState", "SO2State", "SO3State", "SE2State", "SE3State", "CompoundState"]
FUNCTIONS = [SRC_VC + "::JsStateValidityChecker::call_is_valid"] + [SRC_VC + "::<JsStateValidityChecker as StateValidityChecker<%s>>::is_valid" % t for t in TYPES] + \
            [SRC_GOAL + "::JsGoal::" + f for f in ("call_is_satisfied", "call_distance_goal", "call_sample_goal")] + [SRC_GOAL + "::<JsGoal as Goal/GoalRegion/GoalSampleableRegion<%s>>" % t for t in TYPES]
TRUSTED = ["verus/prelude/js.rs: js-sys / wasm-bindgen stubs — a JS call either returns a value or throws; as_bool is Some only for a JS boolean; Reflect::get and the Function cast may fail",
           "the wasm code cannot be executed in this sandbox: it is verified as text only"]

# unit-specific, line-preserving preprocessing: wasm-bindgen attributes and the `extern "C"` type block are dropped
def _pre(text):
    text = re.sub(r'(?m)^[ \t]*#\[wasm_bindgen[^\n]*\]', '', text)
    text = re.sub(r'extern "C" \{[^}]*\}', lambda m: '\n' * m.group(0).count('\n'), text)
    return text


PREPROCESS = {SRC_VC: _pre, SRC_GOAL: _pre}
EXTRA_RULES = {
    SRC_VC: [("RJ1", r'&JsValue::NULL', '&jsvalue_null()', "`&JsValue::NULL` -> `&jsvalue_null()`"),
             ("RJ2", r'&("(?:[^"\\]|\\.)*")\.into\(\)', r'&js_str(\1)', '`&"..".into()` -> `&js_str("..")`')],
    SRC_GOAL: [("RJ2", r'&("(?:[^"\\]|\\.)*")\.into\(\)', r'&js_str(\1)', '`&"..".into()` -> `&js_str("..")`'),
               ("RJ3", r'\|_\| ', '|_e| ', "`|_|` -> `|_e|` (Verus rejects `_` closure parameters)")],
}
# the planner-side assumption "a goal sample satisfies the goal" is on USER samplers, not an obligation of the glue
PRELUDE_EDITS = [
    ("            r is Ok ==> self.sat(&r->Ok_0),\n", "            true, // (r is Ok ==> sat) is an assumption on user samplers, not an obligation of the glue\n"),
]

VC = []
GO = []
VC.append(Ann('fn new', 'attr', '#[verifier::external_body]', 'js.vc.new'))
VALID = "js_fail_closed(js_call1(&self.callback, &js_null_spec(), &state.to_js_spec()))"
VC.append(Ann('fn call_is_valid', 'sig', """
        ensures r == %s,   //@ fail_closed [C20]
""" % VALID, 'js.vc.call', ret='r', tags=['C20']))
# impl#1 new, impl#2 helper, impl#3.. the six checker impls
for k, t in enumerate(TYPES, 3):
    VC.append(Ann('impl#%d' % k, 'impl-start', """
    /// C20: the validity predicate this wrapper implements IS the fail-closed reading of the JS callback
    closed spec fn valid(&self, state: &%s) -> bool { %s }      //@ valid_is_fail_closed [C20]
""" % (t, VALID), 'js.vc.spec%d' % k, tags=['C20']))

SAT = 'js_fail_closed(js_method1(&self.instance, "isSatisfied", &state.to_js_spec()))'
GO.append(Ann('fn call_is_satisfied', 'sig', """
        ensures r == %s,   //@ sat_fail_closed [C20]
""" % SAT, 'js.goal.sat', ret='r', tags=['C20']))
GO.append(Ann('fn call_distance_goal', 'sig', """
        ensures r == js_fail_inf(js_method1(&self.instance, "distanceGoal", &state.to_js_spec())),   //@ distance_fail_infinite [C20]
""", 'js.goal.dist', ret='r', tags=['C20']))
GO.append(Ann('fn call_sample_goal', 'sig', """
        ensures
            r is Err ==> r->Err_0 is GoalRegionUnsatisfiable,                       //@ sample_fail_is_error [C20]
            r is Ok ==> js_method0(&self.instance, "sampleGoal") is Some && S::from_js_spec(js_method0(&self.instance, "sampleGoal")->Some_0) == Some(r->Ok_0),   //@ sample_ok_only_if_returned [C20]
""", 'js.goal.sample', ret='r', tags=['C20']))
GO.append(Ann('fn call_sample_goal', 'closure /\\|_e\\| /', '|_e: String| -> (x: StateSamplingError) ensures x is GoalRegionUnsatisfiable', 'js.goal.sample.maperr', tags=['C20']))
# impl#1 new, impl#2 helpers, then per type: Goal, GoalRegion, GoalSampleableRegion
for i, t in enumerate(TYPES):
    k = 3 + 3 * i
    GO.append(Ann('impl#%d' % k, 'impl-start', """
    closed spec fn sat(&self, state: &%s) -> bool { %s }      //@ sat_is_fail_closed [C20]
""" % (t, SAT), 'js.goal.spec%d' % k, tags=['C20']))
    GO.append(Ann('impl#%d' % (k + 2), 'impl-start', """
    closed spec fn goal_sample_set(&self, s: &%s) -> bool { true }
""" % t, 'js.goal.ss%d' % k))

ANNS = {SRC_VC: VC, SRC_GOAL: GO}

EPILOGUE = r'''
proof fn canary_must_fail(o: Option<JsValue>)
    requires js_fail_closed(o),
{
    assert(false);   //@ canary []
}
'''
