"""Unit V-rrt: oxmpl/src/geometric/planners/rrt.rs under contract."""
from extract import Ann
from units.common import TREE_SPECS, NEAREST_SPECS, STEER_LEMMAS

NAME = "V-rrt"
SRC = "oxmpl/src/geometric/planners/rrt.rs"
SOURCES = [SRC]
PRELUDE = ["core.rs"]
SERVES = ["C01", "C02", "C03", "C04", "C05", "C06", "C07", "C08", "C15", "C16"]
FUNCTIONS = [SRC + "::" + f for f in ("RRT::new", "RRT::check_motion", "RRT::reconstruct_path", "<RRT as Planner>::setup", "<RRT as Planner>::solve")]
TRUSTED = ["verus/prelude/core.rs: trait contracts, std/rand/clock stubs, EXACT f64 axioms", "helpers f64_ceil_to_usize / usize_to_f64 (external_body, rules R1/R2)"]

A = []

RRT_STEP = r'''
/// C16: the effect of one RRT iteration on the tree, for sample q
spec fn rrt_step<S: State, SP: StateSpace<StateType = S>>(g0: Seq<Node<S>>, t1: Seq<Node<S>>, sp: &SP, vc: &dyn StateValidityChecker<S>, q: &S, max: f64) -> bool {
    exists|k: int| #[trigger] t_nearest(g0, sp, q, k, g0.len() as int) && {
        let qn = steer_spec(sp, &g0[k].state, q, max);
        if motion_checked(sp, vc, &g0[k].state, &qn) { t1 =~= g0.push(Node { state: qn, parent_index: Some(k as usize) }) } else { t1 =~= g0 }
    }
}
'''


def ann(*a, **k):
    A.append(Ann(*a, **k))


ann('top', '', TREE_SPECS + NEAREST_SPECS + STEER_LEMMAS + RRT_STEP, 'rrt.vocab')

for g in ('S', 'SP', 'G'):
    ann('struct RRT', 'attr', '#[verifier::reject_recursive_types(%s)]' % g, 'rrt.attr.' + g)

# ---------------------------------------------------------------- struct-level specification
ann('impl#1', 'impl-start', r'''
    pub closed spec fn is_setup(&self) -> bool { self.problem_def is Some }
    pub closed spec fn cur_pd(&self) -> Arc<ProblemDefinition<S, SP, G>> { self.problem_def->Some_0 }
    pub closed spec fn cur_vc(&self) -> Arc<dyn StateValidityChecker<S>> { self.validity_checker->Some_0 }
    /// typestate + shape + root (holds between any two public calls)
    pub closed spec fn wf(&self) -> bool {
        &&& (self.problem_def is Some <==> self.validity_checker is Some)
        &&& (self.problem_def is Some ==> {
            &&& t_shape(self.tree@)
            &&& self.tree@.len() >= 1
            &&& self.cur_pd().start_states.len() >= 1
            &&& self.tree@[0].state == self.cur_pd().start_states@[0]
        })
    }
    pub closed spec fn valid_inv(&self) -> bool {
        self.problem_def is Some && self.validity_checker is Some ==> t_valid(self.tree@, &*self.cur_vc())
    }
    pub closed spec fn checked_inv(&self) -> bool {
        self.problem_def is Some && self.validity_checker is Some ==> t_checked(self.tree@, &*self.cur_pd().space, &*self.cur_vc())
    }
    pub closed spec fn rng_ok(&self) -> bool {
        seeded_mode() ==> self.rng is Some && self.rng->Some_0.det()
    }
    pub closed spec fn edges_le(&self, m: real) -> bool {
        self.problem_def is Some ==> t_edges_le(self.tree@, &*self.cur_pd().space, m)
    }
    pub closed spec fn sp_max(&self) -> f64 { self.max_distance }
    pub closed spec fn sp_bias(&self) -> f64 { self.goal_bias }
    pub closed spec fn sp_rng(&self) -> Option<Box<StdRng>> { self.rng }
    pub closed spec fn tree_len(&self) -> nat { self.tree@.len() }
    pub closed spec fn tree_is_root_of(&self, s: S) -> bool { self.tree@ =~= seq![Node { state: s, parent_index: None }] }
    pub closed spec fn in_bounds_inv(&self) -> bool {
        self.problem_def is Some ==> t_in_bounds(self.tree@, &*self.cur_pd().space)
    }
''', 'rrt.specs')

ann('fn new', 'sig', r'''
        requires seeded_mode() ==> config.seed is Some,      // the seeded world: planners are built with a seed
        ensures
            r.wf(), r.valid_inv(), r.checked_inv(),           //@ wf [C02,C08,C15]
            !r.is_setup(),                                    //@ not_setup [C08]
            r.rng_ok(),                                       //@ rng [C07]
            r.sp_max() == max_distance, r.sp_bias() == goal_bias,
''', 'rrt.new', ret='r')
ann('fn new', 'closure /\|s\| /', '|s: u64| -> (b: Box<StdRng>) ensures b.det()   //@ seeded [C07]', 'rrt.new.closure', tags=['C07'])

# ---------------------------------------------------------------- check_motion: strongest postcondition
ann('fn check_motion', 'sig', r'''
        requires self.problem_def is Some, self.validity_checker is Some,
        ensures r == motion_checked(&*self.cur_pd().space, &*self.cur_vc(), from, to),   //@ post [C01,C03,C15]
''', 'rrt.check_motion', ret='r')
ann('fn check_motion', 'body-start', 'proof { ax_f64_obeys(); reveal(motion_checked); }', 'rrt.check_motion.ax')
ann('fn check_motion', 'loop for#1', r'''
                invariant
                    num_steps == num_steps_spec(&*self.cur_pd().space, from, to),
                    num_steps > 1,
                    self.problem_def is Some, self.validity_checker is Some,
                    pd == self.problem_def->Some_0, vc == self.validity_checker->Some_0,
                    *space == pd.space,
                    <f64 as DivSpec>::obeys_div_spec(),
                    0 <= iter.index@ <= num_steps,
                    iter.index@ < num_steps ==> i == iter.index@ + 1,
                    forall|j: usize| 1 <= j <= iter.index@ ==> vc.valid(&#[trigger] space.interp_spec(from, to, t_of(j, num_steps))),   //@ inv [C01,C03,C15]
''', 'rrt.check_motion.loop', label='iter')
ann('fn check_motion', 'before /return false;/', r'''
                    proof {
                        reveal(motion_checked);
                        assert(1 <= i <= num_steps);
                        assert(t == t_of(i, num_steps));
                        assert(interpolated_state == space.interp_spec(from, to, t_of(i, num_steps)));
                        assert(!vc.valid(&space.interp_spec(from, to, t_of(i, num_steps))));
                    }
''', 'rrt.check_motion.false')

# ---------------------------------------------------------------- reconstruct_path: exactly the parent chain, reversed
ann('fn reconstruct_path', 'sig', r'''
        requires t_shape(self.tree@), start_node_idx < self.tree.len(),
        ensures p.0@ == t_up(self.tree@, start_node_idx as int).reverse(),   //@ post [C01,C02,C03,C05,C15]
''', 'rrt.reconstruct_path', ret='p')
ann('fn reconstruct_path', 'loop while#1', r'''
            invariant
                t_shape(self.tree@),
                start_node_idx < self.tree.len(),
                current_index is Some ==> current_index->Some_0 < self.tree.len(),
                path_states@ + (if current_index is Some { t_up(self.tree@, current_index->Some_0 as int) } else { Seq::<S>::empty() })
                    =~= t_up(self.tree@, start_node_idx as int),    //@ inv [C01,C02,C03,C05,C15]
            ensures current_index is None,
            decreases (if current_index is Some { current_index->Some_0 + 1 } else { 0 }),     //@ terminates [C15]
''', 'rrt.reconstruct_path.loop')
ann('fn reconstruct_path', 'loop-end while#1', r'''
            proof {
                reveal(t_shape);
                let t = self.tree@;
                if path_states@.len() > 0 { axiom_state_clone::<S>(t[index as int].state, path_states@.last()); }
                let rest = if index > 0 { t_up(t, t[index as int].parent_index->Some_0 as int) } else { Seq::<S>::empty() };
                assert(t_up(t, index as int) =~= seq![t[index as int].state] + rest);
                assert(path_states@ + rest =~= old_ps + (seq![t[index as int].state] + rest));
            }
''', 'rrt.reconstruct_path.step')
ann('fn reconstruct_path', 'loop-body-start while#1',
    'let ghost old_ps = path_states@;', 'rrt.reconstruct_path.ghost')
ann('fn reconstruct_path', 'loop-after while#1', r'''
        proof { assert(path_states@ + Seq::<S>::empty() =~= path_states@); }
''', 'rrt.reconstruct_path.end')

# ---------------------------------------------------------------- Planner impl
ann('impl#2', 'impl-start', r'''
    closed spec fn p_wf(&self) -> bool { self.wf() }
    closed spec fn p_valid(&self) -> bool { self.valid_inv() }
    closed spec fn p_checked(&self) -> bool { self.checked_inv() }
    closed spec fn p_rng_ok(&self) -> bool { self.rng_ok() }
    closed spec fn p_is_setup(&self) -> bool { self.is_setup() }
    closed spec fn p_pd(&self) -> Arc<ProblemDefinition<S, SP, G>> { self.cur_pd() }
    closed spec fn p_vc(&self) -> Arc<dyn StateValidityChecker<S>> { self.cur_vc() }
    closed spec fn p_edges_le(&self, m: real) -> bool { self.edges_le(m) }
    closed spec fn p_step_limit(&self) -> real { rv(self.max_distance) }
    closed spec fn p_step_params_ok(&self) -> bool { fle(0.0f64, self.max_distance) }
    closed spec fn p_in_bounds(&self) -> bool { self.in_bounds_inv() }
    closed spec fn p_space_ok(&self, sp: &SP) -> bool { true }
''', 'rrt.planner_specs')

ann('fn setup', 'sig', r'''
        ensures
            final(self).tree_is_root_of(problem_def.start_states@[0]),                                     //@ tree_is_root [C02,C15]
            final(self).sp_max() == old(self).sp_max(), final(self).sp_bias() == old(self).sp_bias(),
            final(self).sp_rng() == old(self).sp_rng(),                                                    //@ rng_frame [C07]
            problem_def.space.in_bounds_spec(&problem_def.start_states@[0]) ==> final(self).p_in_bounds(),  //@ inb [C04]
''', 'rrt.setup')
ann('fn setup', 'before /let start_state = self\.problem_def\.as_ref\(\)\.unwrap\(\)\.start_states\[0\]\.clone\(\);/', r'''
        assert(self.problem_def->Some_0.start_states.len() >= 1);   //@ kf.empty_start [C08]
''', 'rrt.setup.start')
ann('fn setup', 'after /let start_state = self\.problem_def\.as_ref\(\)\.unwrap\(\)\.start_states\[0\]\.clone\(\);/', r'''
        proof { axiom_state_clone::<S>(self.problem_def->Some_0.start_states@[0], start_state); }
''', 'rrt.setup.clone')
ann('fn setup', 'after /self\.tree\.push\(start_node\);/', r'''
        proof { lemma_tree_single(self.tree@, &*self.problem_def->Some_0.space, &*self.validity_checker->Some_0); }
''', 'rrt.setup.single')

ann('fn solve', 'attr', '#[verifier::exec_allows_no_decreases_clause]', 'rrt.solve.attr')
ann('fn solve', 'sig', r'''
        ensures
            // C01, second sentence: the start is validated before any planning
            old(self).p_is_setup() && !old(self).p_vc().valid(&old(self).p_pd().start_states@[0])
                ==> r == Err::<Path<S>, PlanningError>(PlanningError::InvalidStartState),                //@ invalid_start [C01,C08]
            // C06 (b): the only results are a path, Timeout, InvalidStartState, PlannerUninitialised
            r is Err ==> (r->Err_0 is Timeout || r->Err_0 is InvalidStartState || r->Err_0 is PlannerUninitialised),   //@ result_domain [C06]
            final(self).sp_max() == old(self).sp_max(), final(self).sp_bias() == old(self).sp_bias(),
            final(self).tree_len() >= old(self).tree_len(),
            // C05 (IDEAL, premise-guarded): consecutive path states are at most max_distance apart
            (old(self).p_is_setup() && interp_speed_ok(&*old(self).p_pd().space) && old(self).p_step_params_ok() && old(self).p_edges_le(old(self).p_step_limit())) ==> {
                &&& final(self).p_edges_le(old(self).p_step_limit())                                                         //@ edges_le [C05,C15]
                &&& r is Ok ==> forall|k: int| #![trigger r->Ok_0.0[k]] 0 <= k < r->Ok_0.0.len() - 1 ==>
                        rv(old(self).p_pd().space.dist_spec(&r->Ok_0.0[k], &r->Ok_0.0[k + 1])) <= old(self).p_step_limit()     //@ path_step [C05]
            },
            // C04 (premise-guarded): every path state satisfies the bounds
            (old(self).p_is_setup() && in_bounds_premises(&*old(self).p_pd(), old(self).sp_max()) && old(self).p_in_bounds()) ==> {
                &&& final(self).p_in_bounds()                                                                                //@ in_bounds [C04]
                &&& r is Ok ==> forall|k: int| 0 <= k < r->Ok_0.0.len() ==> old(self).p_pd().space.in_bounds_spec(&#[trigger] r->Ok_0.0[k])   //@ path_in_bounds [C04]
            },
''', 'rrt.solve', ret='r')
ann('fn solve', 'body-start', 'proof { ax_f64_obeys(); }', 'rrt.solve.ax')
ann('fn solve', 'loop loop#1', r'''
            invariant
                self.wf(), self.is_setup(),                                        //@ wf [C02,C08,C15]
                self.valid_inv(),                                                  //@ valid [C01,C15]
                self.checked_inv(),                                                //@ checked [C03,C15]
                self.problem_def == old(self).problem_def, self.validity_checker == old(self).validity_checker,   //@ frame [C02,C08]
                pd == self.problem_def->Some_0, vc == self.validity_checker->Some_0, goal == &pd.goal,
                vc.valid(&self.tree@[0].state),                                    //@ root_valid [C01,C15]
                self.max_distance == old(self).max_distance, self.goal_bias == old(self).goal_bias,
                seeded_mode() ==> rng.det(),                                       //@ rng [C07]
                self.tree@.len() >= old(self).tree@.len(),
                (interp_speed_ok(&*pd.space) && fle(0.0f64, self.max_distance) && old(self).edges_le(rv(self.max_distance))) ==> self.edges_le(rv(self.max_distance)),   //@ edges [C05,C15]
                (in_bounds_premises(&**pd, self.max_distance) && old(self).in_bounds_inv()) ==> self.in_bounds_inv(),    //@ in_bounds [C04]
                <f64 as DivSpec>::obeys_div_spec(), <f64 as PartialOrdSpec<f64>>::obeys_partial_cmp_spec(),
''', 'rrt.solve.loop')
ann('fn solve', 'before /let q_rand = if rng\.random_bool\(self\.goal_bias\) \{/', r'''
            assert(fle(0.0f64, self.goal_bias) && fle(self.goal_bias, 1.0f64));   //@ kf.goal_bias_range [C08]
''', 'rrt.solve.bias')
ann('fn solve', 'loop for#1', r'''
                invariant
                    self.wf(), self.is_setup(), pd == self.problem_def->Some_0,
                    1 <= i <= self.tree.len(),
                    nearest_node_index < self.tree.len(),
                    <f64 as PartialOrdSpec<f64>>::obeys_partial_cmp_spec(),
                    min_dist == pd.space.dist_spec(&self.tree@[nearest_node_index as int].state, &q_rand),     //@ min_dist [C05,C16]
                    t_nearest(self.tree@, &*pd.space, &q_rand, nearest_node_index as int, i as int),            //@ nearest [C16]
''', 'rrt.solve.nearest', tags=['C05', 'C16'])
ann('fn solve', 'loop-end for#1', r'''
                proof { lemma_nearest_step(self.tree@, &*pd.space, &q_rand, g_near as int, i as int); }
''', 'rrt.solve.nearest.step', tags=['C16'])
ann('fn solve', 'loop-body-start for#1', 'let ghost g_near = nearest_node_index;', 'rrt.solve.nearest.ghost')
ann('fn solve', 'loop-body-start loop#1', r'''
            let ghost g0 = self.tree@;
            let ghost mut g_deadline_checked = false;
''', 'rrt.solve.iter.ghost')
ann('fn solve', 'after /if elapsed__v > timeout \{[^}]*\}/', r'''
            proof {
                ax_duration_obeys();
                assert(!elapsed__v.is_gt(&timeout));          //@ deadline_exit [C06]
                g_deadline_checked = true;
            }
''', 'rrt.solve.deadline', tags=['C06'])
ann('fn solve', 'before /let mut nearest_node_index = 0;/', r'''
            let ghost g_q = q_rand;
            proof {
                lemma_nearest_init(self.tree@, &*pd.space, &q_rand);
                assert(g_deadline_checked);                    //@ deadline_first [C06]
                // goal bias: the sample comes from the goal region or from the space; never from the goal for bias 0, always for bias 1
                assert(goal.goal_sample_set(&q_rand) || pd.space.sample_set(&q_rand));                 //@ sample_source [C16]
                assert(feq(self.goal_bias, 0.0f64) ==> pd.space.sample_set(&q_rand));                  //@ bias_zero [C16]
                assert(feq(self.goal_bias, 1.0f64) ==> goal.goal_sample_set(&q_rand));                 //@ bias_one [C16]
            }
''', 'rrt.solve.sample', tags=['C06', 'C16'])
ann('fn solve', 'after /let mut q_new = q_near\.clone\(\);/', r'''
            proof { axiom_state_clone::<S>(*q_near, q_new); }
''', 'rrt.solve.clone1')
ann('fn solve', 'before /if self\.check_motion\(q_near, &q_new\) \{/', r'''
            proof {
                assert(q_new == steer_spec(&*pd.space, q_near, &g_q, self.max_distance));                //@ steer [C05,C16]
                if in_bounds_premises(&**pd, self.max_distance) && t_in_bounds(self.tree@, &*pd.space) {
                    lemma_sample_in_bounds(&**pd, &g_q);
                    lemma_in_bounds_at(self.tree@, &*pd.space, nearest_node_index as int);
                    lemma_steer_in_bounds(&*pd.space, q_near, &g_q, self.max_distance);
                    assert(pd.space.in_bounds_spec(&q_new));                                             //@ steer_in_bounds [C04]
                }
                if interp_speed_ok(&*pd.space) && fle(0.0f64, self.max_distance) {
                    lemma_steer_len(&*pd.space, q_near, &g_q, self.max_distance);
                    assert(rv(pd.space.dist_spec(q_near, &q_new)) <= rv(self.max_distance));             //@ steer_len [C05]
                }
            }
''', 'rrt.solve.steer', tags=['C04', 'C05', 'C16'])
ann('fn solve', 'before /let new_node = Node \{/', r'''
                let ghost g_tree = self.tree@;
''', 'rrt.solve.ghost')
ann('fn solve', 'after /self\.tree\.push\(new_node\);/', r'''
                proof {
                    let t = self.tree@;
                    let n = t.len() - 1;
                    axiom_state_clone::<S>(q_new, t[n].state);
                    assert(g_tree == g0);
                    assert(t =~= g_tree.push(t[n]));
                    assert(t[n].parent_index == Some(nearest_node_index));
                    lemma_mc_valid(&*pd.space, &**vc, &g_tree[nearest_node_index as int].state, &q_new);
                    lemma_tree_push(g_tree, t, &*pd.space, &**vc, nearest_node_index);
                    assert(t_shape(t));                                                            //@ push_shape [C15]
                    assert(t_checked(t, &*pd.space, &**vc));                                       //@ push_checked [C03,C15]
                    assert(t_valid(t, &**vc));                                                     //@ push_valid [C01,C15]
                    if interp_speed_ok(&*pd.space) && fle(0.0f64, self.max_distance) && t_edges_le(g_tree, &*pd.space, rv(self.max_distance)) {
                        assert(t_edges_le(t, &*pd.space, rv(self.max_distance)));                  //@ push_edge_len [C05,C15]
                    }
                    if in_bounds_premises(&**pd, self.max_distance) && t_in_bounds(g_tree, &*pd.space) {
                        assert(t_in_bounds(t, &*pd.space));                                        //@ push_in_bounds [C04]
                    }
                    // C16: exactly one node was appended: the steered state, as a child of a nearest node
                    assert(t_nearest(g0, &*pd.space, &g_q, nearest_node_index as int, g0.len() as int));
                    assert(rrt_step(g0, t, &*pd.space, &**vc, &g_q, self.max_distance));           //@ one_step [C16]
                }
''', 'rrt.solve.push', tags=['C01', 'C03', 'C04', 'C05', 'C15', 'C16'])
ann('fn solve', 'loop-end loop#1', r'''
            proof {
                assert(t_nearest(g0, &*pd.space, &g_q, nearest_node_index as int, g0.len() as int));
                assert(rrt_step(g0, self.tree@, &*pd.space, &**vc, &g_q, self.max_distance));       //@ one_step_or_none [C16]
            }
''', 'rrt.solve.iter.end', tags=['C16'])
ann('fn solve', 'before /return Ok\(self\.reconstruct_path\(self\.tree\.len\(\) - 1\)\);/', r'''
                    proof {
                        lemma_chain_path(self.tree@, self.tree@.len() - 1, &*pd.space, &**vc, rv(self.max_distance));
                    }
''', 'rrt.solve.ok', tags=['C01', 'C02', 'C03', 'C04', 'C05'])

ANNS = {SRC: A}

EPILOGUE = r'''
// vacuity canary: must FAIL (if it verifies, the axioms or a precondition are contradictory)
proof fn canary_must_fail<S: State, SP: StateSpace<StateType = S>>(sp: &SP, a: f64, b: f64)
    requires metric_ok(sp), interp_speed_ok(sp), convex_ok(sp), flt(a, b),
{
    ax_f64_obeys(); ax_zero_refl(); ax_rv_consts(); ax_rv_cmp(a, b);
    assert(false);   //@ canary []
}
'''
