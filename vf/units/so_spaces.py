"""Unit V-sosample (C14): the samplers of so2_state_space.rs and so3_state_space.rs under STRUCTURAL contracts: the sample is
exactly the documented construction over rand's draws (one draw for SO(2); for SO(3) the FIRST tuple of four draws from the
cube that lies in the unit ball (norm^2 in (1e-9, 1)) and, normalised, inside the cone).  Every other function of the two files is
external_body here (rem_euclid / acos / sin: Kani harnesses and the lattice family)."""
import re
from extract import Ann

NAME = "V-sosample"
SO2 = "oxmpl/src/base/spaces/so2_state_space.rs"
SO3 = "oxmpl/src/base/spaces/so3_state_space.rs"
SOURCES = [SO2, SO3]
PRELUDE = ["core.rs", "spaces.rs", "sampling.rs"]
SERVES = ["C14", "C04", "C11"]
FUNCTIONS = [SO2 + "::SO2StateSpace::sample_uniform", SO3 + "::SO3StateSpace::sample_uniform"]
# the structural contract stands for a distributional property: a failure counts only together with a report of the statistical family
PROXY_FUNCTIONS = {"sample_uniform": ["C14"]}
TRUSTED = ["every function of so2_state_space.rs / so3_state_space.rs other than sample_uniform is external_body in this unit (its trait contract is assumed): distance enters the SO(3) sampler as the uninterpreted dist_spec",
           "SO2State / SO3State / StateError are unit text (struct definitions and external stubs of normalise / identity / clone)",
           "rand's random_range as a deterministic function of the generator state (prelude sampling.rs); uniformity and independence of the draws is rand's documented law; that normalising a uniform point of the 4-ball gives the Haar measure, and that conditioning on the cone gives the conditioned Haar measure, are mathematical facts outside the verifier",
           "the rejection loop of the SO(3) sampler has no termination proof (it terminates with probability 1): exec_allows_no_decreases_clause",
           "unit rules RV2 (random_range), RV4 (private field made pub), f64 +, *, /, sqrt uninterpreted but the same operations"]


def _pre(text):
    text = re.sub(r'rng\.random_range\((-?[\w.]+)\.\.(-?[\w.]+)\)', r'rng_random_range_f64(rng, \1, \2)', text)
    text = text.replace("    longest_valid_segment_fraction: f64,\n}", "    pub longest_valid_segment_fraction: f64,\n}")
    text = text.replace("#[derive(Clone)]\npub struct SO", "\npub struct SO")
    return text


PREPROCESS = {SO2: _pre, SO3: _pre}
PRELUDE_EDITS = [
    ("        requires seeded_mode() ==> old(rng).det(),                  //@ space.sample_uniform.det [C07]\n        ensures final(rng).det() == old(rng).det(),\n            r is Ok ==> self.sample_set(&r->Ok_0);\n",
     "        requires self.space_ok(), seeded_mode() ==> old(rng).det(),                  //@ space.sample_uniform.det [C07]\n        ensures final(rng).det() == old(rng).det(), r is Ok ==> self.sample_draws(*old(rng), *final(rng), &r->Ok_0),     //@ space.sample_uniform.draws [C14]\n            r is Ok ==> self.sample_set(&r->Ok_0);     //@ space.sample_uniform.in_bounds [C11,C04]\n"),
    ("    spec fn sample_set(&self, s: &Self::StateType) -> bool;      // the states sample_uniform can return\n",
     "    spec fn sample_set(&self, s: &Self::StateType) -> bool; spec fn sample_draws<R>(&self, g0: R, g1: R, s: &Self::StateType) -> bool; spec fn space_ok(&self) -> bool;\n"),
]

A2, A3 = [], []
VOCAB = r'''
use std::f64::consts::PI;
pub struct SO2State { pub value: f64 }
impl State for SO2State { }
impl Clone for SO2State { #[verifier::external_body] fn clone(&self) -> (r: Self) ensures r == *self { unimplemented!() } }
impl SO2State {
    #[verifier::external_body] pub fn normalise(&mut self) -> Self { unimplemented!() }
}
pub struct SO3State { pub x: f64, pub y: f64, pub z: f64, pub w: f64 }
impl State for SO3State { }
impl Clone for SO3State { #[verifier::external_body] fn clone(&self) -> (r: Self) ensures r == *self { unimplemented!() } }
pub enum StateError { ZeroMagnitude }
impl SO3State {
    #[verifier::external_body] pub fn normalise(&mut self) -> Result<Self, StateError> { unimplemented!() }
    #[verifier::external_body] pub fn identity() -> Self { unimplemented!() }
}
'''
A2.append(Ann('top', '', VOCAB, 'so.vocab'))
for f in ('new', 'get_maximum_extent', 'set_longest_valid_segment_fraction', 'distance', 'interpolate', 'enforce_bounds', 'satisfies_bounds', 'get_longest_valid_segment_length'):
    A2.append(Ann('fn ' + f, 'attr', '#[verifier::external_body]', 'so2.%s.ext' % f))
    A3.append(Ann('fn ' + f, 'attr', '#[verifier::external_body]', 'so3.%s.ext' % f))
A2.append(Ann('impl#2', 'impl-start', r'''
    uninterp spec fn dist_spec(&self, a: &SO2State, b: &SO2State) -> f64;
    uninterp spec fn interp_spec(&self, a: &SO2State, b: &SO2State, t: f64) -> SO2State;
    uninterp spec fn lvsl_spec(&self) -> f64;
    uninterp spec fn in_bounds_spec(&self, a: &SO2State) -> bool;
    open spec fn sample_set(&self, s: &SO2State) -> bool { true }      // C11 for SO(2) is decided by the Kani harness so2_sample_range, not here
    /// what every constructed space satisfies (SO2StateSpace::new contract, Kani so2_new_contract): a non-empty interval of finite width
    open spec fn space_ok(&self) -> bool { flt(self.bounds.0, self.bounds.1) && f64_pred(1, self.bounds.1.sub_spec(self.bounds.0)) }
    /// C14: the angle IS one draw random_range(lower..upper) from the caller's generator, nothing else
    open spec fn sample_draws<R>(&self, g0: R, g1: R, s: &SO2State) -> bool {
        &&& s.value == draw_f64(g0, self.bounds.0, self.bounds.1)      //@ so2.sample_is_one_draw [C14]
        &&& g1 == after_draw(g0)                                       //@ so2.sample_uses_one_draw [C14]
    }
''', 'so2.specs', tags=['C14']))
A2.append(Ann('fn sample_uniform', 'body-start', 'proof { ax_f64_obeys(); }', 'so2.sample.ax'))

A3.append(Ann('top', '', r'''
/// the candidate built from four successive draws from the cube [-1,1)^4 starting at generator state g
/// the generator state at which candidate number k starts (four draws per candidate)
pub open spec fn cand_gen<R>(g0: R, k: nat) -> R { nth_gen(g0, 4 * k) }
pub open spec fn so3_cand_raw<R>(g: R) -> (f64, f64, f64, f64) {
    (draw_f64(g, -1.0f64, 1.0f64), draw_f64(after_draw(g), -1.0f64, 1.0f64), draw_f64(after_draw(after_draw(g)), -1.0f64, 1.0f64), draw_f64(after_draw(after_draw(after_draw(g))), -1.0f64, 1.0f64))
}
pub open spec fn so3_cand_norm_sq<R>(g: R) -> f64 {
    let c = so3_cand_raw(g);
    c.0.mul_spec(c.0).add_spec(c.1.mul_spec(c.1)).add_spec(c.2.mul_spec(c.2)).add_spec(c.3.mul_spec(c.3))
}
pub open spec fn so3_cand<R>(g: R) -> SO3State {
    let c = so3_cand_raw(g); let n = f64_fn1(2, so3_cand_norm_sq(g));
    SO3State { x: c.0.div_spec(n), y: c.1.div_spec(n), z: c.2.div_spec(n), w: c.3.div_spec(n) }
}
/// accepted: inside the unit 4-ball (and not at the origin), and -- after normalisation -- inside the cone
pub open spec fn so3_accepts<R>(sp: &SO3StateSpace, g: R) -> bool {
    &&& fgt(so3_cand_norm_sq(g), 1e-9f64) && flt(so3_cand_norm_sq(g), 1.0f64)      //@ so3.accept_inside_unit_ball [C14]
    &&& fle(sp.dist_spec(&sp.bounds.0, &so3_cand(g)), sp.bounds.1)              //@ so3.accept_inside_cone [C14]
}
''', 'so3.vocab', tags=['C14']))
A3.append(Ann('impl#2', 'impl-start', r'''
    uninterp spec fn dist_spec(&self, a: &SO3State, b: &SO3State) -> f64;
    uninterp spec fn interp_spec(&self, a: &SO3State, b: &SO3State, t: f64) -> SO3State;
    uninterp spec fn lvsl_spec(&self) -> f64;
    uninterp spec fn in_bounds_spec(&self, a: &SO3State) -> bool;
    /// C11 / C04: a sample satisfies the cone bound (the centre itself for a degenerate cone)
    open spec fn sample_set(&self, s: &SO3State) -> bool {
        if flt(self.bounds.1, 1e-9f64) { *s == self.bounds.0 } else { fle(self.dist_spec(&self.bounds.0, s), self.bounds.1) }      //@ so3.sample_inside_cone [C11,C04]
    }
    open spec fn space_ok(&self) -> bool { true }
    /// C14: the sample is the cone centre for a degenerate cone; otherwise it is the normalised FIRST accepted candidate of the stream
    /// of 4-draw candidates (rejection sampling from the cube to the ball to the cone), and the generator has advanced by exactly those draws
    open spec fn sample_draws<R>(&self, g0: R, g1: R, s: &SO3State) -> bool {
        if flt(self.bounds.1, 1e-9f64) {
            *s == self.bounds.0 && g1 == g0                                                 //@ so3.degenerate_cone_returns_centre [C14]
        } else {
            exists|k: nat| {
                &&& forall|j: nat| j < k ==> !so3_accepts(self, #[trigger] cand_gen(g0, j))  //@ so3.earlier_candidates_rejected [C14]
                &&& so3_accepts(self, #[trigger] cand_gen(g0, k))
                &&& *s == so3_cand(cand_gen(g0, k))                                    //@ so3.sample_is_first_accepted_candidate [C14]
                &&& g1 == cand_gen(g0, k + 1)
            }
        }
    }
''', 'so3.specs', tags=['C14']))
A3.append(Ann('fn sample_uniform', 'attr', '#[verifier::exec_allows_no_decreases_clause]', 'so3.sample.nodec'))
A3.append(Ann('fn sample_uniform', 'body-start', 'proof { ax_f64_obeys(); ax_unit_range(); } let ghost mut k: nat = 0;', 'so3.sample.ghost'))
A3.append(Ann('fn sample_uniform', 'loop loop#1', r'''
            invariant
                <f64 as AddSpec>::obeys_add_spec(), <f64 as MulSpec>::obeys_mul_spec(), <f64 as DivSpec>::obeys_div_spec(), <f64 as PartialOrdSpec<f64>>::obeys_partial_cmp_spec(),
                flt(-1.0f64, 1.0f64), f64_pred(1, (1.0f64).sub_spec(-1.0f64)),
                !flt(self.bounds.1, 1e-9f64),
                center_rotation == &self.bounds.0, max_angle == &self.bounds.1,
                rng.det() == old(rng).det(), seeded_mode() ==> rng.det(),
                *rng == cand_gen(*old(rng), k),
                forall|j: nat| j < k ==> !so3_accepts(self, #[trigger] cand_gen(*old(rng), j)),      //@ so3.loop.rejected_so_far [C14]
''', 'so3.sample.loop', tags=['C14']))
A3.append(Ann('fn sample_uniform', 'loop-body-start loop#1', r'''
            proof { lemma_nth4(*old(rng), k); }
            let ghost g = *rng;
''', 'so3.sample.body'))
A3.append(Ann('fn sample_uniform', 'loop-end loop#1', r'''
            proof { k = k + 1; }
''', 'so3.sample.end'))

ANNS = {SO2: A2, SO3: A3}

EPILOGUE = r'''
pub axiom fn ax_unit_range() ensures flt(-1.0f64, 1.0f64), f64_pred(1, (1.0f64).sub_spec(-1.0f64));      // audited: Layer-0 harness ax_unit_range
pub proof fn lemma_nth4<R>(g: R, k: nat)
    ensures nth_gen(g, 4 * k + 1) == after_draw(nth_gen(g, 4 * k)), nth_gen(g, 4 * k + 2) == after_draw(after_draw(nth_gen(g, 4 * k))),
            nth_gen(g, 4 * k + 3) == after_draw(after_draw(after_draw(nth_gen(g, 4 * k)))), nth_gen(g, 4 * k + 4) == after_draw(after_draw(after_draw(after_draw(nth_gen(g, 4 * k))))),
            nth_gen(g, 4 * (k + 1)) == nth_gen(g, 4 * k + 4),
{
    reveal_with_fuel(nth_gen, 5);
    assert(4 * (k + 1) == 4 * k + 4);
}
proof fn canary_must_fail(a: f64, b: f64)
    requires flt(a, b),
{
    ax_f64_obeys();
    assert(false);   //@ canary []
}
'''
