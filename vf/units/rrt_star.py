"""Unit V-rrtstar: oxmpl/src/geometric/planners/rrt_star.rs under contract."""
from extract import Ann
from units.common import NEAREST_SPECS

NAME = "V-rrtstar"
SRC = "oxmpl/src/geometric/planners/rrt_star.rs"
SOURCES = [SRC]
PRELUDE = ["core.rs"]
SERVES = ["C01", "C02", "C03", "C04", "C05", "C06", "C07", "C08", "C15", "C16", "C17"]
FUNCTIONS = [SRC + "::" + f for f in ("RRTStar::new", "RRTStar::check_motion", "RRTStar::cost", "RRTStar::find_neighbours", "RRTStar::reconstruct_path",
                                      "<RRTStar as Planner>::setup", "<RRTStar as Planner>::solve")]
TRUSTED = ["verus/prelude/core.rs: trait contracts, std/rand/clock stubs, EXACT f64 axioms",
           "helpers f64_ceil_to_usize / usize_to_f64 / f64_infinity (external_body, rules R1/R2/R4)"]
A = []


def ann(*a, **k):
    A.append(Ann(*a, **k))


VOCAB = r'''
// ---- RRT* tree vocabulary (annotation text; not repo code).  Parent links may point to NEWER nodes (rewiring).
spec fn t_par<S: State>(t: Seq<Node<S>>, i: int) -> int { t[i].parent_index->Some_0 as int }

/// parent links are in range; node 0 is the only root
#[verifier::opaque]
spec fn t_shape<S: State>(t: Seq<Node<S>>) -> bool {
    &&& t.len() >= 1
    &&& t[0].parent_index is None
    &&& forall|i: int| 1 <= i < t.len() ==> (#[trigger] t[i]).parent_index is Some && t[i].parent_index->Some_0 < t.len()
}
#[verifier::opaque]
spec fn t_valid<S: State>(t: Seq<Node<S>>, vc: &dyn StateValidityChecker<S>) -> bool {
    forall|i: int| 1 <= i < t.len() ==> vc.valid(&(#[trigger] t[i]).state)
}
#[verifier::opaque]
spec fn t_checked<S: State, SP: StateSpace<StateType = S>>(t: Seq<Node<S>>, sp: &SP, vc: &dyn StateValidityChecker<S>) -> bool {
    forall|i: int| 1 <= i < t.len() ==> motion_checked(sp, vc, &t[t_par(t, i)].state, &(#[trigger] t[i]).state)
}
/// every edge has ideal length <= m, measured in one of the two directions
#[verifier::opaque]
spec fn t_edges_le<S: State, SP: StateSpace<StateType = S>>(t: Seq<Node<S>>, sp: &SP, m: real) -> bool {
    forall|i: int| 1 <= i < t.len() ==> rv(sp.dist_spec(&t[t_par(t, i)].state, &(#[trigger] t[i]).state)) <= m || rv(sp.dist_spec(&t[i].state, &t[t_par(t, i)].state)) <= m
}
#[verifier::opaque]
spec fn t_in_bounds<S: State, SP: StateSpace<StateType = S>>(t: Seq<Node<S>>, sp: &SP) -> bool {
    forall|i: int| 0 <= i < t.len() ==> sp.in_bounds_spec(&(#[trigger] t[i]).state)
}
/// lexicographic key (recorded cost, ghost tie-breaker)
spec fn key_lt(c1: f64, k1: nat, c2: f64, k2: nat) -> bool { flt(c1, c2) || (feq(c1, c2) && k1 < k2) }
/// C15 for RRT*: every parent has a strictly smaller key than its child, costs are >= 0 (hence not NaN)
#[verifier::opaque]
spec fn t_ranked<S: State>(t: Seq<Node<S>>, tie: Seq<nat>) -> bool {
    &&& tie.len() == t.len()
    &&& t.len() >= 1 && feq(t[0].cost, 0.0f64)
    &&& forall|i: int| 0 <= i < t.len() ==> fle(0.0f64, (#[trigger] t[i]).cost)
    &&& forall|i: int| 1 <= i < t.len() ==> t[i].parent_index is Some && 0 <= t_par(t, i) < t.len() && key_lt(t[t_par(t, i)].cost, tie[t_par(t, i)], (#[trigger] t[i]).cost, tie[i])
}
/// C17 (IDEAL): recorded cost >= parent's recorded cost + edge length (equality at link time); root cost 0
#[verifier::opaque]
spec fn t_cost_ok<S: State, SP: StateSpace<StateType = S>>(t: Seq<Node<S>>, sp: &SP) -> bool {
    &&& rv(t[0].cost) == 0real
    &&& forall|i: int| 1 <= i < t.len() ==> rv((#[trigger] t[i]).cost) >= rv(t[t_par(t, i)].cost) + rv(sp.dist_spec(&t[i].state, &t[t_par(t, i)].state))
}
/// premise on the space used by the RRT* rank argument: distances are >= 0 and never NaN
#[verifier::opaque]
spec fn dist_nonneg<SP: StateSpace>(sp: &SP) -> bool {
    forall|a: &SP::StateType, b: &SP::StateType| fle(0.0f64, #[trigger] sp.dist_spec(a, b))
}

/// rank measure of a key: order-preserving on non-NaN costs
spec fn key_rank(c: f64, k: nat) -> (int, nat) { (ford(c), k) }

/// the states on the parent chain of node i (well-founded because keys strictly decrease)
spec fn t_up<S: State>(t: Seq<Node<S>>, tie: Seq<nat>, i: int) -> Seq<S>
    decreases (if 0 <= i < t.len() && tie.len() == t.len() { ford(t[i].cost) } else { 0 }), (if 0 <= i < t.len() && tie.len() == t.len() { tie[i] } else { 0 })
    via t_up_decreases::<S>
{
    if 0 <= i < t.len() && tie.len() == t.len() && t[i].parent_index is Some && 0 <= t_par(t, i) < t.len()
        && key_lt(t[t_par(t, i)].cost, tie[t_par(t, i)], t[i].cost, tie[i]) {
        seq![t[i].state] + t_up(t, tie, t_par(t, i))
    } else if 0 <= i < t.len() {
        seq![t[i].state]
    } else {
        Seq::<S>::empty()
    }
}

#[via_fn]
proof fn t_up_decreases<S: State>(t: Seq<Node<S>>, tie: Seq<nat>, i: int) {
    if 0 <= i < t.len() && tie.len() == t.len() && t[i].parent_index is Some && 0 <= t_par(t, i) < t.len() {
        ax_ford(t[t_par(t, i)].cost, t[i].cost);
    }
}

/// a walk: indices w[0] = start, w[k+1] = parent(w[k]), ending at the root
#[verifier::opaque]
spec fn t_walk<S: State>(t: Seq<Node<S>>, w: Seq<int>, from: int) -> bool {
    &&& w.len() >= 1
    &&& w[0] == from
    &&& forall|k: int| 0 <= k < w.len() ==> 0 <= (#[trigger] w[k]) < t.len()
    &&& forall|k: int| 0 <= k < w.len() - 1 ==> (#[trigger] w[k]) >= 1 && t[w[k]].parent_index is Some && w[k + 1] == t_par(t, w[k])
    &&& w[w.len() - 1] == 0
}
spec fn walk_states<S: State>(t: Seq<Node<S>>, w: Seq<int>) -> Seq<S> { Seq::new(w.len(), |k: int| t[w[k]].state) }

spec fn path_props<S: State, SP: StateSpace<StateType = S>>(p: Seq<S>, sp: &SP, vc: &dyn StateValidityChecker<S>, first: S, last: S) -> bool {
    &&& p.len() >= 1
    &&& p[0] == first
    &&& p[p.len() - 1] == last
    &&& forall|k: int| 0 <= k < p.len() ==> vc.valid(&#[trigger] p[k])
    &&& forall|k: int| #![trigger p[k]] 0 <= k < p.len() - 1 ==> seg_checked(sp, vc, &p[k], &p[k + 1])
}
spec fn path_step_le<S: State, SP: StateSpace<StateType = S>>(p: Seq<S>, sp: &SP, m: real) -> bool {
    forall|k: int| #![trigger p[k]] 0 <= k < p.len() - 1 ==> rv(sp.dist_spec(&p[k], &p[k + 1])) <= m
}
spec fn path_in_bounds<S: State, SP: StateSpace<StateType = S>>(p: Seq<S>, sp: &SP) -> bool {
    forall|k: int| 0 <= k < p.len() ==> sp.in_bounds_spec(&#[trigger] p[k])
}
/// everything a returned path inherits from the tree invariants along any walk (no acyclicity needed)
proof fn lemma_walk_path<S: State, SP: StateSpace<StateType = S>>(t: Seq<Node<S>>, w: Seq<int>, n: int, sp: &SP, vc: &dyn StateValidityChecker<S>, m: real)
    requires t_shape(t), t_walk(t, w, n), t_valid(t, vc), vc.valid(&t[0].state), t_checked(t, sp, vc)
    ensures
        path_props(walk_states(t, w).reverse(), sp, vc, t[0].state, t[n].state),
        (t_edges_le(t, sp, m) && metric_ok(sp)) ==> path_step_le(walk_states(t, w).reverse(), sp, m),
        t_in_bounds(t, sp) ==> path_in_bounds(walk_states(t, w).reverse(), sp),
{
    reveal(t_shape); reveal(t_walk); reveal(t_valid); reveal(t_checked); reveal(t_edges_le); reveal(t_in_bounds);
    let u = walk_states(t, w);
    let p = u.reverse();
    assert forall|k: int| 0 <= k < p.len() implies vc.valid(&#[trigger] p[k]) by {
        assert(p[k] == u[u.len() - 1 - k]);
        assert(u[u.len() - 1 - k] == t[w[u.len() - 1 - k]].state);
    }
    assert forall|k: int| #![trigger p[k]] 0 <= k < p.len() - 1 implies seg_checked(sp, vc, &p[k], &p[k + 1]) by {
        let a = u.len() - 2 - k;
        assert(p[k] == u[a + 1]);
        assert(p[k + 1] == u[a]);
        assert(u[a] == t[w[a]].state);
        assert(u[a + 1] == t[w[a + 1]].state);
        assert(w[a + 1] == t_par(t, w[a]));
        assert(motion_checked(sp, vc, &t[t_par(t, w[a])].state, &t[w[a]].state));
    }
    assert(p[0] == u[u.len() - 1]);
    assert(p[p.len() - 1] == u[0]);
    if t_edges_le(t, sp, m) && metric_ok(sp) {
        reveal(metric_ok);
        assert forall|k: int| #![trigger p[k]] 0 <= k < p.len() - 1 implies rv(sp.dist_spec(&p[k], &p[k + 1])) <= m by {
            let a = u.len() - 2 - k;
            assert(p[k] == u[a + 1]);
            assert(p[k + 1] == u[a]);
            assert(u[a] == t[w[a]].state);
            assert(u[a + 1] == t[w[a + 1]].state);
            assert(w[a + 1] == t_par(t, w[a]));
            assert(sp.dist_spec(&p[k], &p[k + 1]) == sp.dist_spec(&p[k + 1], &p[k]));
        }
    }
    if t_in_bounds(t, sp) {
        assert forall|k: int| 0 <= k < p.len() implies sp.in_bounds_spec(&#[trigger] p[k]) by {
            assert(p[k] == u[u.len() - 1 - k]);
            assert(u[u.len() - 1 - k] == t[w[u.len() - 1 - k]].state);
        }
    }
}
/// one step towards the root: a non-root node has a parent inside the tree whose key (cost rank, tie) is strictly smaller; the root has none
proof fn lemma_rank_step<S: State>(t: Seq<Node<S>>, tie: Seq<nat>, i: int)
    requires t_shape(t), t_ranked(t, tie), 0 <= i < t.len()
    ensures
        i == 0 ==> t[i].parent_index is None,
        i >= 1 ==> t[i].parent_index is Some && t[i].parent_index->Some_0 < t.len()
            && (ford(t[t[i].parent_index->Some_0 as int].cost) < ford(t[i].cost)
                || (ford(t[t[i].parent_index->Some_0 as int].cost) == ford(t[i].cost) && tie[t[i].parent_index->Some_0 as int] < tie[i])),
        ford(t[i].cost) >= 0,
        i >= 1 ==> ford(t[t[i].parent_index->Some_0 as int].cost) >= 0,
{
    reveal(t_shape); reveal(t_ranked);
    ax_ford(t[i].cost, t[i].cost);
    if i >= 1 {
        let p = t_par(t, i);
        ax_ford(t[p].cost, t[i].cost);
    }
}

/// C15 (RRT*): on a ranked tree the parent chain is finite: t_up is total (its `decreases` is the argument) and ends at the root
proof fn lemma_ranked_chain<S: State>(t: Seq<Node<S>>, tie: Seq<nat>, i: int)
    requires t_shape(t), t_ranked(t, tie), 0 <= i < t.len()
    ensures t_up(t, tie, i).len() >= 1, t_up(t, tie, i)[0] == t[i].state, t_up(t, tie, i).last() == t[0].state
    decreases ford(t[i].cost), tie[i]
{
    reveal(t_shape); reveal(t_ranked);
    if i >= 1 {
        let p = t_par(t, i);
        ax_ford(t[p].cost, t[i].cost);
        lemma_ranked_chain(t, tie, p);
    }
}

proof fn lemma_shape_facts<S: State>(t: Seq<Node<S>>)
    requires t_shape(t)
    ensures t.len() >= 1, t[0].parent_index is None
{ reveal(t_shape); }
proof fn lemma_tree_single<S: State, SP: StateSpace<StateType = S>>(t: Seq<Node<S>>, sp: &SP, vc: &dyn StateValidityChecker<S>)
    requires t.len() == 1, t[0].parent_index is None
    ensures t_shape(t), t_valid(t, vc), t_checked(t, sp, vc), forall|m: real| #[trigger] t_edges_le(t, sp, m), sp.in_bounds_spec(&t[0].state) ==> t_in_bounds(t, sp),
        feq(t[0].cost, 0.0f64) ==> t_ranked(t, seq![0nat]),
        rv(t[0].cost) == 0real ==> t_cost_ok(t, sp),
{ reveal(t_shape); reveal(t_valid); reveal(t_checked); reveal(t_edges_le); reveal(t_in_bounds); reveal(t_ranked); reveal(t_cost_ok); ax_eq_sym(t[0].cost, 0.0f64); }
proof fn lemma_in_bounds_at<S: State, SP: StateSpace<StateType = S>>(t: Seq<Node<S>>, sp: &SP, i: int)
    requires t_in_bounds(t, sp), 0 <= i < t.len()
    ensures sp.in_bounds_spec(&t[i].state)
{ reveal(t_in_bounds); }

/// appending node t[n] (parent ku, cost c) preserves every invariant
proof fn lemma_star_push<S: State, SP: StateSpace<StateType = S>>(g: Seq<Node<S>>, t: Seq<Node<S>>, sp: &SP, vc: &dyn StateValidityChecker<S>, ku: usize, tie: Seq<nat>)
    requires t_shape(g), t.len() == g.len() + 1, t =~= g.push(t[g.len() as int]), t[g.len() as int].parent_index == Some(ku), 0 <= ku < g.len()
    ensures
        t_shape(t),
        t_valid(g, vc) && vc.valid(&t[g.len() as int].state) ==> t_valid(t, vc),
        t_checked(g, sp, vc) && motion_checked(sp, vc, &g[ku as int].state, &t[g.len() as int].state) ==> t_checked(t, sp, vc),
        forall|m: real| t_edges_le(g, sp, m) && (rv(sp.dist_spec(&g[ku as int].state, &t[g.len() as int].state)) <= m || rv(sp.dist_spec(&t[g.len() as int].state, &g[ku as int].state)) <= m) ==> #[trigger] t_edges_le(t, sp, m),
        t_in_bounds(g, sp) && sp.in_bounds_spec(&t[g.len() as int].state) ==> t_in_bounds(t, sp),
        // rank: new cost = parent cost + d with d >= 0
        (t_ranked(g, tie) && fle(g[ku as int].cost, t[g.len() as int].cost) && fle(0.0f64, t[g.len() as int].cost)) ==> t_ranked(t, tie.push(tie[ku as int] + 1)),
        (t_cost_ok(g, sp) && rv(t[g.len() as int].cost) >= rv(g[ku as int].cost) + rv(sp.dist_spec(&t[g.len() as int].state, &g[ku as int].state))) ==> t_cost_ok(t, sp),
{
    reveal(t_shape); reveal(t_valid); reveal(t_checked); reveal(t_edges_le); reveal(t_in_bounds); reveal(t_ranked); reveal(t_cost_ok);
    let n = g.len() as int;
    let k = ku as int;
    assert(forall|i: int| 0 <= i < n ==> t[i] == g[i]);
    assert(t_par(t, n) == k);
    assert forall|m: real| t_edges_le(g, sp, m) && (rv(sp.dist_spec(&g[k].state, &t[n].state)) <= m || rv(sp.dist_spec(&t[n].state, &g[k].state)) <= m) implies #[trigger] t_edges_le(t, sp, m) by {
        assert forall|i: int| 1 <= i < t.len() implies rv(sp.dist_spec(&t[t_par(t, i)].state, &(#[trigger] t[i]).state)) <= m || rv(sp.dist_spec(&t[i].state, &t[t_par(t, i)].state)) <= m by {
            if i < n { assert(t[i] == g[i]); assert(t_par(t, i) == t_par(g, i)); assert(t[t_par(g, i)] == g[t_par(g, i)]); }
        }
    }
    if t_checked(g, sp, vc) && motion_checked(sp, vc, &g[k].state, &t[n].state) {
        assert forall|i: int| 1 <= i < t.len() implies motion_checked(sp, vc, &t[t_par(t, i)].state, &(#[trigger] t[i]).state) by {
            if i < n { assert(t[i] == g[i]); assert(t_par(t, i) == t_par(g, i)); assert(t[t_par(g, i)] == g[t_par(g, i)]); }
        }
    }
    if t_ranked(g, tie) && fle(g[k].cost, t[n].cost) && fle(0.0f64, t[n].cost) {
        let tie2 = tie.push(tie[k] + 1);
        assert forall|i: int| 1 <= i < t.len() implies t[i].parent_index is Some && 0 <= t_par(t, i) < t.len() && key_lt(t[t_par(t, i)].cost, tie2[t_par(t, i)], (#[trigger] t[i]).cost, tie2[i]) by {
            if i < n { assert(t[i] == g[i]); assert(t_par(t, i) == t_par(g, i)); assert(t[t_par(g, i)] == g[t_par(g, i)]); assert(tie2[i] == tie[i]); assert(tie2[t_par(g, i)] == tie[t_par(g, i)]); }
            else { assert(tie2[k] == tie[k]); }
        }
    }
    if t_cost_ok(g, sp) && rv(t[n].cost) >= rv(g[k].cost) + rv(sp.dist_spec(&t[n].state, &g[k].state)) {
        assert forall|i: int| 1 <= i < t.len() implies rv((#[trigger] t[i]).cost) >= rv(t[t_par(t, i)].cost) + rv(sp.dist_spec(&t[i].state, &t[t_par(t, i)].state)) by {
            if i < n { assert(t[i] == g[i]); assert(t_par(t, i) == t_par(g, i)); assert(t[t_par(g, i)] == g[t_par(g, i)]); }
        }
    }
}

/// C17 rewiring: node b (an older node, not the parent of the new node nn) gets parent nn and cost c2 < old cost
proof fn lemma_star_rewire<S: State, SP: StateSpace<StateType = S>>(g: Seq<Node<S>>, t: Seq<Node<S>>, sp: &SP, vc: &dyn StateValidityChecker<S>, b: int, nn: int, tie: Seq<nat>)
    requires t_shape(g), t.len() == g.len(), 1 <= b < g.len(), 0 <= nn < g.len(), b != nn, nn <= usize::MAX,
        g[nn].parent_index != Some(b as usize),
        t[b].state == g[b].state, t[b].parent_index == Some(nn as usize),
        forall|i: int| 0 <= i < g.len() && i != b ==> t[i] == g[i],
        flt(t[b].cost, g[b].cost),
    ensures
        t_shape(t),
        t_valid(g, vc) ==> t_valid(t, vc),
        t_checked(g, sp, vc) && motion_checked(sp, vc, &g[nn].state, &g[b].state) ==> t_checked(t, sp, vc),
        forall|m: real| t_edges_le(g, sp, m) && (rv(sp.dist_spec(&g[nn].state, &g[b].state)) <= m || rv(sp.dist_spec(&g[b].state, &g[nn].state)) <= m) ==> #[trigger] t_edges_le(t, sp, m),
        t_in_bounds(g, sp) ==> t_in_bounds(t, sp),
        (t_ranked(g, tie) && fle(g[nn].cost, t[b].cost) && fle(0.0f64, t[b].cost)) ==> t_ranked(t, tie.update(b, tie[nn] + 1)),
        (t_cost_ok(g, sp) && rv(t[b].cost) >= rv(g[nn].cost) + rv(sp.dist_spec(&g[b].state, &g[nn].state))) ==> t_cost_ok(t, sp),
{
    reveal(t_shape); reveal(t_valid); reveal(t_checked); reveal(t_edges_le); reveal(t_in_bounds); reveal(t_ranked); reveal(t_cost_ok);
    assert(t_par(t, b) == nn);
    assert forall|i: int| 1 <= i < t.len() implies (#[trigger] t[i]).parent_index is Some && t[i].parent_index->Some_0 < t.len() by {
        if i != b { assert(t[i] == g[i]); }
    }
    assert(t[0] == g[0]);
    assert forall|i: int| 0 <= i < t.len() implies (#[trigger] t[i]).state == g[i].state by { if i != b { assert(t[i] == g[i]); } }
    assert forall|i: int| 1 <= i < t.len() && i != b implies t_par(t, i) == t_par(g, i) by { assert(t[i] == g[i]); }
    if t_valid(g, vc) {
        assert forall|i: int| 1 <= i < t.len() implies vc.valid(&(#[trigger] t[i]).state) by { assert(t[i].state == g[i].state); }
    }
    if t_checked(g, sp, vc) && motion_checked(sp, vc, &g[nn].state, &g[b].state) {
        assert forall|i: int| 1 <= i < t.len() implies motion_checked(sp, vc, &t[t_par(t, i)].state, &(#[trigger] t[i]).state) by {
            if i != b { assert(t_par(t, i) == t_par(g, i)); assert(t[t_par(g, i)].state == g[t_par(g, i)].state); assert(t[i].state == g[i].state); }
            else { assert(t[nn].state == g[nn].state); }
        }
    }
    assert forall|m: real| t_edges_le(g, sp, m) && (rv(sp.dist_spec(&g[nn].state, &g[b].state)) <= m || rv(sp.dist_spec(&g[b].state, &g[nn].state)) <= m) implies #[trigger] t_edges_le(t, sp, m) by {
        assert forall|i: int| 1 <= i < t.len() implies rv(sp.dist_spec(&t[t_par(t, i)].state, &(#[trigger] t[i]).state)) <= m || rv(sp.dist_spec(&t[i].state, &t[t_par(t, i)].state)) <= m by {
            if i != b { assert(t_par(t, i) == t_par(g, i)); assert(t[t_par(g, i)].state == g[t_par(g, i)].state); assert(t[i].state == g[i].state); }
            else { assert(t[nn].state == g[nn].state); }
        }
    }
    if t_in_bounds(g, sp) {
        assert forall|i: int| 0 <= i < t.len() implies sp.in_bounds_spec(&(#[trigger] t[i]).state) by { assert(t[i].state == g[i].state); }
    }
    if t_ranked(g, tie) && fle(g[nn].cost, t[b].cost) && fle(0.0f64, t[b].cost) {
        let tie2 = tie.update(b, tie[nn] + 1);
        assert forall|i: int| 0 <= i < t.len() implies fle(0.0f64, (#[trigger] t[i]).cost) by { if i != b { assert(t[i] == g[i]); } }
        assert forall|i: int| 1 <= i < t.len() implies t[i].parent_index is Some && 0 <= t_par(t, i) < t.len() && key_lt(t[t_par(t, i)].cost, tie2[t_par(t, i)], (#[trigger] t[i]).cost, tie2[i]) by {
            if i == b {
                assert(t[nn] == g[nn]);
                assert(tie2[nn] == tie[nn]);
                assert(tie2[b] == tie[nn] + 1);
            } else {
                assert(t[i] == g[i]);
                let p = t_par(g, i);
                assert(t_par(t, i) == p);
                assert(tie2[i] == tie[i]);
                assert(key_lt(g[p].cost, tie[p], g[i].cost, tie[i]));
                if p == b {
                    // child of the rewired node: its cost is >= the OLD cost of b, which is > the new cost of b
                    if flt(g[b].cost, g[i].cost) { ax_lt_trans(t[b].cost, g[b].cost, g[i].cost); }
                    else { ax_lt_le_trans(t[b].cost, g[b].cost, g[i].cost); }
                } else {
                    assert(t[p] == g[p]);
                    assert(tie2[p] == tie[p]);
                }
            }
        }
    }
    if t_cost_ok(g, sp) && rv(t[b].cost) >= rv(g[nn].cost) + rv(sp.dist_spec(&g[b].state, &g[nn].state)) {
        ax_rv_cmp(t[b].cost, g[b].cost);
        assert forall|i: int| 1 <= i < t.len() implies rv((#[trigger] t[i]).cost) >= rv(t[t_par(t, i)].cost) + rv(sp.dist_spec(&t[i].state, &t[t_par(t, i)].state)) by {
            if i == b {
                assert(t[nn] == g[nn]);
            } else {
                assert(t[i] == g[i]);
                let p = t_par(g, i);
                assert(t_par(t, i) == p);
                assert(t[p].state == g[p].state);
                if p != b { assert(t[p] == g[p]); }
            }
        }
    }
}
'''

ann('top', '', VOCAB + NEAREST_SPECS, 'rs.vocab')
for g in ('S', 'SP', 'G'):
    ann('struct RRTStar', 'attr', '#[verifier::reject_recursive_types(%s)]' % g, 'rs.attr.' + g)
for f in ('solve',):
    ann('fn ' + f, 'attr', '#[verifier::exec_allows_no_decreases_clause]', 'rs.%s.attr' % f)


ann('impl#1', 'impl-start', r"""
    pub closed spec fn is_setup(&self) -> bool { self.problem_def is Some }
    pub closed spec fn cur_pd(&self) -> Arc<ProblemDefinition<S, SP, G>> { self.problem_def->Some_0 }
    pub closed spec fn cur_vc(&self) -> Arc<dyn StateValidityChecker<S>> { self.validity_checker->Some_0 }
    pub closed spec fn wf(&self) -> bool {
        &&& (self.problem_def is Some <==> self.validity_checker is Some)
        &&& (self.problem_def is Some ==> {
            &&& t_shape(self.tree@)
            &&& self.tree@.len() >= 1
            &&& self.cur_pd().start_states.len() >= 1
            &&& self.tree@[0].state == self.cur_pd().start_states@[0]
            // premise on the space (installed by setup's precondition p_space_ok): distances are >= 0 and never NaN
            &&& dist_nonneg(&*self.cur_pd().space)
            // C15 (RRT*): keys (recorded cost, ghost tie) strictly increase from parent to child
            &&& exists|tie: Seq<nat>| t_ranked(self.tree@, tie)
            // C17 (IDEAL): recorded costs dominate parent cost + edge length
            &&& t_cost_ok(self.tree@, &*self.cur_pd().space)
        })
    }
    pub closed spec fn valid_inv(&self) -> bool {
        self.problem_def is Some && self.validity_checker is Some ==> t_valid(self.tree@, &*self.cur_vc())
    }
    pub closed spec fn checked_inv(&self) -> bool {
        self.problem_def is Some && self.validity_checker is Some ==> t_checked(self.tree@, &*self.cur_pd().space, &*self.cur_vc())
    }
    pub closed spec fn rng_ok(&self) -> bool {
        seeded_mode() ==> self.rng is Some && self.rng->Some_0.det()
    }
    pub closed spec fn edges_le(&self, m: real) -> bool {
        self.problem_def is Some ==> t_edges_le(self.tree@, &*self.cur_pd().space, m)
    }
    pub closed spec fn sp_max(&self) -> f64 { self.max_distance }
    pub closed spec fn sp_bias(&self) -> f64 { self.goal_bias }
    pub closed spec fn sp_radius(&self) -> f64 { self.search_radius }
    pub closed spec fn step_limit(&self) -> real { if rv(self.max_distance) >= rv(self.search_radius) { rv(self.max_distance) } else { rv(self.search_radius) } }
    pub closed spec fn tree_is_root_of(&self, s: S) -> bool { self.tree@.len() == 1 && self.tree@[0].state == s && self.tree@[0].parent_index is None }
    pub closed spec fn in_bounds_inv(&self) -> bool {
        self.problem_def is Some ==> t_in_bounds(self.tree@, &*self.cur_pd().space)
    }
""", 'rs.specs')

ann('fn new', 'sig', r"""
        requires seeded_mode() ==> config.seed is Some,
        ensures
            r.wf(), r.valid_inv(), r.checked_inv(),           //@ wf [C02,C08,C15]
            !r.is_setup(),                                    //@ not_setup [C08]
            r.rng_ok(),                                       //@ rng [C07]
            r.sp_max() == max_distance, r.sp_bias() == goal_bias, r.sp_radius() == search_radius,
""", 'rs.new', ret='r')
ann('fn new', 'closure /\|s\| /', '|s: u64| -> (b: Box<StdRng>) ensures b.det()   //@ seeded [C07]', 'rs.new.closure', tags=['C07'])

# ---------------------------------------------------------------- check_motion
ann('fn check_motion', 'sig', r"""
        requires self.problem_def is Some, self.validity_checker is Some,
        ensures r == motion_checked(&*self.cur_pd().space, &*self.cur_vc(), from, to),   //@ post [C01,C03,C15,C17]
""", 'rs.check_motion', ret='r')
ann('fn check_motion', 'body-start', 'proof { ax_f64_obeys(); reveal(motion_checked); }', 'rs.check_motion.ax')
ann('fn check_motion', 'loop for#1', r"""
                invariant
                    num_steps == num_steps_spec(&*self.cur_pd().space, from, to),
                    num_steps > 1,
                    self.problem_def is Some, self.validity_checker is Some,
                    pd == self.problem_def->Some_0, vc == self.validity_checker->Some_0,
                    *space == pd.space,
                    <f64 as DivSpec>::obeys_div_spec(),
                    0 <= iter.index@ <= num_steps,
                    iter.index@ < num_steps ==> i == iter.index@ + 1,
                    forall|j: usize| 1 <= j <= iter.index@ ==> vc.valid(&#[trigger] space.interp_spec(from, to, t_of(j, num_steps))),   //@ inv [C01,C03,C15,C17]
""", 'rs.check_motion.loop', label='iter')
ann('fn check_motion', 'before /return false;/', r"""
                    proof {
                        reveal(motion_checked);
                        assert(1 <= i <= num_steps);
                        assert(t == t_of(i, num_steps));
                        assert(interpolated_state == space.interp_spec(from, to, t_of(i, num_steps)));
                        assert(!vc.valid(&space.interp_spec(from, to, t_of(i, num_steps))));
                    }
""", 'rs.check_motion.false')

# ---------------------------------------------------------------- cost / find_neighbours
ann('fn cost', 'sig', r"""
        requires self.problem_def is Some,
        ensures r == neighbour_node.cost.add_spec(self.cur_pd().space.dist_spec(&current_node.state, &neighbour_node.state)),   //@ post [C17]
""", 'rs.cost', ret='r')
ann('fn cost', 'body-start', 'proof { ax_f64_obeys(); }', 'rs.cost.ax')
ann('fn find_neighbours', 'sig', r"""
        requires self.problem_def is Some,
        ensures
            // exactly the indices within the search radius, in increasing order
            forall|k: int| 0 <= k < r@.len() ==> (#[trigger] r@[k]) < self.tree@.len()
                && flt(self.cur_pd().space.dist_spec(&node.state, &self.tree@[r@[k] as int].state), self.search_radius),          //@ sound [C05,C17]
            forall|k1: int, k2: int| 0 <= k1 < k2 < r@.len() ==> (#[trigger] r@[k1]) < (#[trigger] r@[k2]),                    //@ increasing [C17]
            forall|i: int| 0 <= i < self.tree@.len() && flt(self.cur_pd().space.dist_spec(&node.state, &(#[trigger] self.tree@[i]).state), self.search_radius)
                ==> r@.contains(i as usize),                                                                                    //@ complete [C17]
""", 'rs.find_neighbours', ret='r')
ann('fn find_neighbours', 'body-start', 'proof { ax_f64_obeys(); }', 'rs.find_neighbours.ax')
ann('fn find_neighbours', 'loop for#1', r"""
                invariant
                    self.problem_def is Some, pd == self.problem_def->Some_0,
                    0 <= i <= self.tree@.len(),
                    <f64 as PartialOrdSpec<f64>>::obeys_partial_cmp_spec(),
                    forall|k: int| 0 <= k < neighbours@.len() ==> (#[trigger] neighbours@[k]) < i
                        && flt(pd.space.dist_spec(&node.state, &self.tree@[neighbours@[k] as int].state), self.search_radius),
                    forall|k1: int, k2: int| 0 <= k1 < k2 < neighbours@.len() ==> (#[trigger] neighbours@[k1]) < (#[trigger] neighbours@[k2]),
                    forall|j: int| 0 <= j < i && flt(pd.space.dist_spec(&node.state, &(#[trigger] self.tree@[j]).state), self.search_radius)
                        ==> neighbours@.contains(j as usize),
""", 'rs.find_neighbours.loop', tags=['C05', 'C17'])
ann('fn find_neighbours', 'loop-body-start for#1', 'let ghost g_nb = neighbours@;', 'rs.find_neighbours.ghost')
ann('fn find_neighbours', 'loop-end for#1', r"""
                proof {
                    assert forall|j: int| 0 <= j < i + 1 && flt(pd.space.dist_spec(&node.state, &(#[trigger] self.tree@[j]).state), self.search_radius)
                        implies neighbours@.contains(j as usize) by {
                        if j < i { let w = choose|w: int| 0 <= w < g_nb.len() && g_nb[w] == j as usize; assert(neighbours@[w] == j as usize); }
                        else { assert(neighbours@[neighbours@.len() - 1] == i); }
                    }
                }
""", 'rs.find_neighbours.step', tags=['C17'])

# ---------------------------------------------------------------- reconstruct_path: a walk along parent links (no acyclicity needed for soundness)
ann('fn reconstruct_path', 'sig', r"""
        requires t_shape(self.tree@), start_node_idx < self.tree.len(), exists|tie: Seq<nat>| t_ranked(self.tree@, tie),
        ensures exists|w: Seq<int>| #[trigger] t_walk(self.tree@, w, start_node_idx as int) && p.0@ == walk_states(self.tree@, w).reverse(),   //@ post [C01,C02,C03,C05,C15]
""", 'rs.reconstruct_path', ret='p')
ann('fn reconstruct_path', 'after /let mut current_index = Some\(start_node_idx\);/', r"""
        let ghost mut g_w: Seq<int> = Seq::<int>::empty();
        let ghost g_tie = choose|tie: Seq<nat>| t_ranked(self.tree@, tie);
""", 'rs.reconstruct_path.ghost0')
ann('fn reconstruct_path', 'loop while#1', r"""
            invariant
                t_shape(self.tree@),
                start_node_idx < self.tree.len(),
                current_index is Some ==> current_index->Some_0 < self.tree.len(),
                g_w.len() == path_states@.len(),
                path_states@ =~= walk_states(self.tree@, g_w),                                  //@ inv [C01,C02,C03,C05,C15]
                forall|k: int| 0 <= k < g_w.len() ==> 0 <= (#[trigger] g_w[k]) < self.tree@.len(),
                forall|k: int| 0 <= k < g_w.len() - 1 ==> (#[trigger] g_w[k]) >= 1 && self.tree@[g_w[k]].parent_index is Some && g_w[k + 1] == t_par(self.tree@, g_w[k]),
                g_w.len() == 0 ==> current_index == Some(start_node_idx),
                g_w.len() > 0 ==> g_w[0] == start_node_idx as int,
                g_w.len() > 0 && current_index is Some ==> g_w[g_w.len() - 1] >= 1 && self.tree@[g_w[g_w.len() - 1]].parent_index == current_index,
                g_w.len() > 0 && current_index is None ==> self.tree@[g_w[g_w.len() - 1]].parent_index is None,
                t_ranked(self.tree@, g_tie),
            ensures current_index is None,
            // C15 (RRT*): the walk terminates because the key (cost, tie) strictly decreases towards the root
            decreases (if current_index is Some { ford(self.tree@[current_index->Some_0 as int].cost) + 1 } else { 0 }),
                      (if current_index is Some { g_tie[current_index->Some_0 as int] + 1 } else { 0 }),        //@ terminates [C15]
""", 'rs.reconstruct_path.loop')
ann('fn reconstruct_path', 'loop-end while#1', r"""
            proof {
                let t = self.tree@;
                axiom_state_clone::<S>(t[index as int].state, path_states@.last());
                g_w = g_w.push(index as int);
                lemma_rank_step(t, g_tie, index as int);
            }
""", 'rs.reconstruct_path.step')
ann('fn reconstruct_path', 'loop-after while#1', r"""
        proof {
            reveal(t_shape); reveal(t_walk);
            assert(g_w.len() >= 1);
            assert(g_w[g_w.len() - 1] == 0);
            assert(t_walk(self.tree@, g_w, start_node_idx as int));
        }
""", 'rs.reconstruct_path.end')

# ---------------------------------------------------------------- Planner impl
ann('impl#2', 'impl-start', r"""
    closed spec fn p_wf(&self) -> bool { self.wf() }
    closed spec fn p_valid(&self) -> bool { self.valid_inv() }
    closed spec fn p_checked(&self) -> bool { self.checked_inv() }
    closed spec fn p_rng_ok(&self) -> bool { self.rng_ok() }
    closed spec fn p_is_setup(&self) -> bool { self.is_setup() }
    closed spec fn p_pd(&self) -> Arc<ProblemDefinition<S, SP, G>> { self.cur_pd() }
    closed spec fn p_vc(&self) -> Arc<dyn StateValidityChecker<S>> { self.cur_vc() }
    closed spec fn p_edges_le(&self, m: real) -> bool { self.edges_le(m) }
    closed spec fn p_step_limit(&self) -> real { self.step_limit() }
    closed spec fn p_step_params_ok(&self) -> bool { fle(0.0f64, self.max_distance) }
    closed spec fn p_in_bounds(&self) -> bool { self.in_bounds_inv() }
    closed spec fn p_space_ok(&self, sp: &SP) -> bool { dist_nonneg(sp) }
""", 'rs.planner_specs')

ann('fn setup', 'sig', r"""
        ensures
            final(self).tree_is_root_of(problem_def.start_states@[0]),                                     //@ tree_is_root [C02,C15]
            final(self).sp_max() == old(self).sp_max(), final(self).sp_bias() == old(self).sp_bias(), final(self).sp_radius() == old(self).sp_radius(),
            problem_def.space.in_bounds_spec(&problem_def.start_states@[0]) ==> final(self).p_in_bounds(),  //@ inb [C04]
""", 'rs.setup')
ann('fn setup', 'before /let start_state = self\.problem_def\.as_ref\(\)\.unwrap\(\)\.start_states\[0\]\.clone\(\);/', r"""
        assert(self.problem_def->Some_0.start_states.len() >= 1);   //@ kf.empty_start [C08]
""", 'rs.setup.start')
ann('fn setup', 'after /let start_state = self\.problem_def\.as_ref\(\)\.unwrap\(\)\.start_states\[0\]\.clone\(\);/', r"""
        proof { axiom_state_clone::<S>(self.problem_def->Some_0.start_states@[0], start_state); }
""", 'rs.setup.clone')
ann('fn setup', 'after /self\.tree\.push\(start_node\);/', r"""
        proof {
            ax_zero_refl(); ax_rv_consts();
            lemma_tree_single(self.tree@, &*self.problem_def->Some_0.space, &*self.validity_checker->Some_0);
            assert(t_ranked(self.tree@, seq![0nat]));
        }
""", 'rs.setup.single')


STAR_STEP = r"""
/// cost of reaching state q through tree node c
spec fn via_cost<S: State, SP: StateSpace<StateType = S>>(t: Seq<Node<S>>, sp: &SP, q: &S, c: int) -> f64 { t[c].cost.add_spec(sp.dist_spec(q, &t[c].state)) }
/// C17 choose-parent: `best` is a candidate (the nearest node or a neighbour) with a valid motion, and no candidate
/// with a valid motion is strictly cheaper
spec fn chosen_parent<S: State, SP: StateSpace<StateType = S>>(t: Seq<Node<S>>, sp: &SP, vc: &dyn StateValidityChecker<S>, q: &S, near: int, nbs: Seq<usize>, upto: int, best: int, min_cost: f64) -> bool {
    &&& 0 <= best < t.len()
    &&& min_cost == via_cost(t, sp, q, best)
    &&& (best == near || nbs.take(upto).contains(best as usize))
    &&& motion_checked(sp, vc, &t[best].state, q)
    &&& !flt(via_cost(t, sp, q, near), min_cost)
    &&& forall|k: int| 0 <= k < upto ==> !(flt(via_cost(t, sp, q, (#[trigger] nbs[k]) as int), min_cost) && motion_checked(sp, vc, &t[nbs[k] as int].state, q))
}
/// C17 rewiring of one neighbour b by the new node n (g1 = tree right after the push, t = tree now)
spec fn rewired_ok<S: State, SP: StateSpace<StateType = S>>(g1: Seq<Node<S>>, t: Seq<Node<S>>, sp: &SP, vc: &dyn StateValidityChecker<S>, n: int, b: int) -> bool {
    let c2 = g1[n].cost.add_spec(sp.dist_spec(&g1[b].state, &g1[n].state));
    if g1[n].parent_index != Some(b as usize) && flt(c2, g1[b].cost) && motion_checked(sp, vc, &g1[n].state, &g1[b].state) {
        t[b].state == g1[b].state && t[b].parent_index == Some(n as usize) && t[b].cost == c2
    } else {
        t[b] == g1[b]
    }
}
"""
ann('top', '', STAR_STEP, 'rs.vocab2')

ann('fn solve', 'sig', r"""
        ensures
            old(self).p_is_setup() && !old(self).p_vc().valid(&old(self).p_pd().start_states@[0])
                ==> r == Err::<Path<S>, PlanningError>(PlanningError::InvalidStartState),                //@ invalid_start [C01,C08]
            r is Err ==> (r->Err_0 is Timeout || r->Err_0 is InvalidStartState || r->Err_0 is PlannerUninitialised),   //@ result_domain [C06]
            final(self).sp_max() == old(self).sp_max(), final(self).sp_bias() == old(self).sp_bias(), final(self).sp_radius() == old(self).sp_radius(),
            // C05 (IDEAL, premise-guarded): consecutive path states are at most max(max_distance, search_radius) apart
            (old(self).p_is_setup() && interp_speed_ok(&*old(self).p_pd().space) && metric_ok(&*old(self).p_pd().space) && old(self).p_step_params_ok() && old(self).p_edges_le(old(self).p_step_limit())) ==> {
                &&& final(self).p_edges_le(old(self).p_step_limit())                                                         //@ edges_le [C05,C15]
                &&& r is Ok ==> forall|k: int| #![trigger r->Ok_0.0[k]] 0 <= k < r->Ok_0.0.len() - 1 ==>
                        rv(old(self).p_pd().space.dist_spec(&r->Ok_0.0[k], &r->Ok_0.0[k + 1])) <= old(self).p_step_limit()     //@ path_step [C05]
            },
            (old(self).p_is_setup() && in_bounds_premises(&*old(self).p_pd(), old(self).sp_max()) && old(self).p_in_bounds()) ==> {
                &&& final(self).p_in_bounds()                                                                                //@ in_bounds [C04]
                &&& r is Ok ==> forall|k: int| 0 <= k < r->Ok_0.0.len() ==> old(self).p_pd().space.in_bounds_spec(&#[trigger] r->Ok_0.0[k])   //@ path_in_bounds [C04]
            },
""", 'rs.solve', ret='r')
ann('fn solve', 'body-start', 'proof { ax_f64_obeys(); }', 'rs.solve.ax')
ann('fn solve', 'before /let start_time = Instant::now\(\);/', r"""
        let ghost mut g_tie: Seq<nat> = choose|tie: Seq<nat>| t_ranked(self.tree@, tie);
""", 'rs.solve.tie')
ann('fn solve', 'loop loop#1', r"""
            invariant
                self.wf(), self.is_setup(),                                        //@ wf [C02,C08,C15,C17]
                self.valid_inv(),                                                  //@ valid [C01,C15]
                self.checked_inv(),                                                //@ checked [C03,C15]
                self.problem_def == old(self).problem_def, self.validity_checker == old(self).validity_checker,   //@ frame [C02,C08]
                pd == self.problem_def->Some_0, vc == self.validity_checker->Some_0, goal == &pd.goal,
                vc.valid(&self.tree@[0].state),                                    //@ root_valid [C01,C15]
                self.max_distance == old(self).max_distance, self.goal_bias == old(self).goal_bias, self.search_radius == old(self).search_radius,
                seeded_mode() ==> rng.det(),                                       //@ rng [C07]
                dist_nonneg(&*pd.space), t_ranked(self.tree@, g_tie),              //@ ranked [C15]
                (interp_speed_ok(&*pd.space) && fle(0.0f64, self.max_distance) && old(self).edges_le(self.step_limit())) ==> self.edges_le(self.step_limit()),   //@ edges [C05,C15]
                (in_bounds_premises(&**pd, self.max_distance) && old(self).in_bounds_inv()) ==> self.in_bounds_inv(),    //@ in_bounds [C04]
                <f64 as DivSpec>::obeys_div_spec(), <f64 as PartialOrdSpec<f64>>::obeys_partial_cmp_spec(), <f64 as AddSpec>::obeys_add_spec(),
""", 'rs.solve.loop')
ann('fn solve', 'loop-body-start loop#1', r"""
            let ghost g0 = self.tree@;
            let ghost mut g_deadline_checked = false;
""", 'rs.solve.iter.ghost')
ann('fn solve', 'after /if elapsed__v > timeout \{[^}]*\}/', r"""
            proof {
                ax_duration_obeys();
                assert(!elapsed__v.is_gt(&timeout));          //@ deadline_exit [C06]
                g_deadline_checked = true;
            }
""", 'rs.solve.deadline', tags=['C06'])
ann('fn solve', 'before /let q_rand = if rng\.random_bool\(self\.goal_bias\) \{/', r"""
            assert(fle(0.0f64, self.goal_bias) && fle(self.goal_bias, 1.0f64));   //@ kf.goal_bias_range [C08]
""", 'rs.solve.bias')
ann('fn solve', 'before /let mut nearest_node_index = 0;/', r"""
            let ghost g_q = q_rand;
            proof {
                lemma_nearest_init(self.tree@, &*pd.space, &q_rand);
                assert(g_deadline_checked);                    //@ deadline_first [C06]
                assert(goal.goal_sample_set(&q_rand) || pd.space.sample_set(&q_rand));                 //@ sample_source [C16]
                assert(feq(self.goal_bias, 0.0f64) ==> pd.space.sample_set(&q_rand));                  //@ bias_zero [C16]
                assert(feq(self.goal_bias, 1.0f64) ==> goal.goal_sample_set(&q_rand));                 //@ bias_one [C16]
            }
""", 'rs.solve.sample', tags=['C06', 'C16'])
ann('fn solve', 'loop for#1', r"""
                invariant
                    self.wf(), self.is_setup(), pd == self.problem_def->Some_0,
                    1 <= i <= self.tree.len(),
                    nearest_node_index < self.tree.len(),
                    <f64 as PartialOrdSpec<f64>>::obeys_partial_cmp_spec(),
                    min_dist == pd.space.dist_spec(&self.tree@[nearest_node_index as int].state, &q_rand),     //@ min_dist [C05,C16]
                    t_nearest(self.tree@, &*pd.space, &q_rand, nearest_node_index as int, i as int),            //@ nearest [C16]
""", 'rs.solve.nearest', tags=['C05', 'C16'])
ann('fn solve', 'loop-body-start for#1', 'let ghost g_near = nearest_node_index;', 'rs.solve.nearest.ghost')
ann('fn solve', 'loop-end for#1', r"""
                proof { lemma_nearest_step(self.tree@, &*pd.space, &q_rand, g_near as int, i as int); }
""", 'rs.solve.nearest.step', tags=['C16'])
ann('fn solve', 'after /let mut q_new = q_near\.clone\(\);/', r"""
            proof { axiom_state_clone::<S>(*q_near, q_new); }
""", 'rs.solve.clone1')
ann('fn solve', 'before /if !self\.check_motion\(q_near, &q_new\) \{/', r"""
            proof {
                assert(q_new == steer_spec(&*pd.space, q_near, &g_q, self.max_distance));                //@ steer [C05,C16]
                if in_bounds_premises(&**pd, self.max_distance) && t_in_bounds(self.tree@, &*pd.space) {
                    lemma_sample_in_bounds(&**pd, &g_q);
                    lemma_in_bounds_at(self.tree@, &*pd.space, nearest_node_index as int);
                    lemma_steer_in_bounds(&*pd.space, q_near, &g_q, self.max_distance);
                    assert(pd.space.in_bounds_spec(&q_new));                                             //@ steer_in_bounds [C04]
                }
                if interp_speed_ok(&*pd.space) && fle(0.0f64, self.max_distance) {
                    lemma_steer_len(&*pd.space, q_near, &g_q, self.max_distance);
                    assert(rv(pd.space.dist_spec(q_near, &q_new)) <= rv(self.max_distance));             //@ steer_len [C05]
                }
            }
""", 'rs.solve.steer', tags=['C04', 'C05', 'C16'])
ann('fn solve', 'after /let neighbours: Vec<usize> = self\.find_neighbours\(&temp_node\);/', r"""
            proof {
                axiom_state_clone::<S>(q_new, temp_node.state);
                ax_lt_irrefl(via_cost(self.tree@, &*pd.space, &q_new, nearest_node_index as int));
                assert(neighbours@.take(0) =~= Seq::<usize>::empty());
            }
""", 'rs.solve.nb')
ann('fn solve', 'loop while#1', r"""
                invariant
                    self.tree@ == g0, self.wf(), self.is_setup(), self.problem_def is Some, self.validity_checker is Some,
                    pd == self.problem_def->Some_0, vc == self.validity_checker->Some_0,
                    temp_node.state == q_new,
                    neighbour_idx__k <= neighbours@.len(),
                    forall|k: int| 0 <= k < neighbours@.len() ==> (#[trigger] neighbours@[k]) < g0.len(),
                    nearest_node_index < g0.len(),
                    <f64 as PartialOrdSpec<f64>>::obeys_partial_cmp_spec(), <f64 as AddSpec>::obeys_add_spec(),
                    chosen_parent(g0, &*pd.space, &**vc, &q_new, nearest_node_index as int, neighbours@, neighbour_idx__k as int, best_parent_index as int, min_cost),   //@ choose_parent [C17]
                decreases neighbours@.len() - neighbour_idx__k,
""", 'rs.solve.choose.loop', tags=['C03', 'C17'])
ann('fn solve', 'loop-body-start while#1', r"""
                let ghost g_best = best_parent_index;
                let ghost g_min = min_cost;
""", 'rs.solve.choose.ghost')
ann('fn solve', 'loop-end while#1', r"""
                proof {
                    let sp = pd.space;
                    let k1 = neighbour_idx__k as int;
                    assert(neighbours@.take(k1) =~= neighbours@.take(k1 - 1).push(neighbours@[k1 - 1]));
                    if best_parent_index != g_best {
                        // a strictly cheaper valid candidate was found: earlier candidates stay non-improving (lt is transitive)
                        assert(neighbours@.take(k1)[k1 - 1] == best_parent_index);
                        ax_lt_irrefl(min_cost);
                        assert forall|k: int| 0 <= k < k1 implies !(flt(via_cost(g0, &*sp, &q_new, (#[trigger] neighbours@[k]) as int), min_cost) && motion_checked(&*sp, &**vc, &g0[neighbours@[k] as int].state, &q_new)) by {
                            if k < k1 - 1 && flt(via_cost(g0, &*sp, &q_new, neighbours@[k] as int), min_cost) { ax_lt_trans(via_cost(g0, &*sp, &q_new, neighbours@[k] as int), min_cost, g_min); }
                        }
                        if flt(via_cost(g0, &*sp, &q_new, nearest_node_index as int), min_cost) { ax_lt_trans(via_cost(g0, &*sp, &q_new, nearest_node_index as int), min_cost, g_min); }
                    } else {
                        if g_best != nearest_node_index {
                            let tk = neighbours@.take(k1 - 1); let w = choose|w: int| 0 <= w < tk.len() && tk[w] == g_best;
                            assert(neighbours@.take(k1)[w] == g_best);
                        }
                    }
                }
""", 'rs.solve.choose.step', tags=['C17'])
ann('fn solve', 'before /let new_node = Node \{/', r"""
            let ghost g_tree = self.tree@;
            proof { assert(neighbours@.take(neighbours@.len() as int) =~= neighbours@); }
""", 'rs.solve.push.ghost')
ann('fn solve', 'after /let new_node_index = self\.tree\.len\(\) - 1;/', r"""
            let ghost g1 = self.tree@;
            proof {
                let sp = pd.space;
                let t = self.tree@;
                let n = t.len() - 1;
                axiom_state_clone::<S>(q_new, t[n].state);
                assert(t =~= g_tree.push(t[n]));
                let bp = best_parent_index as int;
                lemma_mc_valid(&*sp, &**vc, &g_tree[bp].state, &q_new);
                // rank premises: the parent's cost is >= 0 and distances are >= 0, so cost = parent.cost + d >= parent.cost
                reveal(dist_nonneg);
                assert(fle(0.0f64, g_tree[bp].cost)) by { reveal(t_ranked); }
                ax_add_mono(g_tree[bp].cost, sp.dist_spec(&q_new, &g_tree[bp].state));
                ax_rv_add(g_tree[bp].cost, sp.dist_spec(&q_new, &g_tree[bp].state));
                // edge length: nearest parent (steered, <= max_distance) or a neighbour (< search_radius)
                if interp_speed_ok(&*sp) && fle(0.0f64, self.max_distance) {
                    if bp != nearest_node_index as int {
                        let w = choose|w: int| 0 <= w < neighbours@.len() && neighbours@[w] == best_parent_index;
                        ax_rv_cmp(sp.dist_spec(&q_new, &g_tree[neighbours@[w] as int].state), self.search_radius);
                    }
                }
                lemma_star_push(g_tree, t, &*sp, &**vc, best_parent_index, g_tie);
                g_tie = g_tie.push(g_tie[bp] + 1);
                assert(t_shape(t));                                                            //@ push_shape [C15]
                assert(t_checked(t, &*sp, &**vc));                                             //@ push_checked [C03,C15]
                assert(t_valid(t, &**vc));                                                     //@ push_valid [C01,C15]
                assert(t_cost_ok(t, &*sp));                                                    //@ push_cost [C17]
                assert(t_ranked(t, g_tie));                                                    //@ push_ranked [C15]
                if interp_speed_ok(&*sp) && fle(0.0f64, self.max_distance) && t_edges_le(g_tree, &*sp, self.step_limit()) {
                    assert(t_edges_le(t, &*sp, self.step_limit()));                            //@ push_edge_len [C05,C15]
                }
                if in_bounds_premises(&**pd, self.max_distance) && t_in_bounds(g_tree, &*sp) {
                    assert(t_in_bounds(t, &*sp));                                              //@ push_in_bounds [C04]
                }
                // C17: the new node is linked to the cheapest candidate with a valid motion
                assert(chosen_parent(g0, &*sp, &**vc, &q_new, nearest_node_index as int, neighbours@, neighbours@.len() as int, bp, t[n].cost));   //@ cheapest_parent [C17]
            }
""", 'rs.solve.push', tags=['C01', 'C03', 'C04', 'C05', 'C15', 'C16', 'C17'])
ann('fn solve', 'loop while#2', r"""
                invariant
                    self.is_setup(), self.problem_def is Some, self.validity_checker is Some,
                    self.problem_def == old(self).problem_def, self.validity_checker == old(self).validity_checker,
                    pd == self.problem_def->Some_0, vc == self.validity_checker->Some_0, goal == &pd.goal,
                    self.max_distance == old(self).max_distance, self.goal_bias == old(self).goal_bias, self.search_radius == old(self).search_radius,
                    self.cur_pd().start_states.len() >= 1, g1[0].state == self.cur_pd().start_states@[0],
                    neighbour_idx__k <= neighbours@.len(),
                    new_node_index == g1.len() - 1, g1.len() >= 2, self.tree@.len() == g1.len(),
                    forall|k: int| 0 <= k < neighbours@.len() ==> (#[trigger] neighbours@[k]) < g1.len() - 1
                        && flt(pd.space.dist_spec(&g1[new_node_index as int].state, &g1[neighbours@[k] as int].state), self.search_radius),
                    forall|k1: int, k2: int| 0 <= k1 < k2 < neighbours@.len() ==> (#[trigger] neighbours@[k1]) < (#[trigger] neighbours@[k2]),
                    <f64 as PartialOrdSpec<f64>>::obeys_partial_cmp_spec(), <f64 as AddSpec>::obeys_add_spec(),
                    // frame (C17): states never change, the new node and every non-neighbour are untouched, unprocessed neighbours are untouched
                    forall|i: int| 0 <= i < g1.len() ==> (#[trigger] self.tree@[i]).state == g1[i].state,                      //@ states_frame [C16,C17]
                    self.tree@[new_node_index as int] == g1[new_node_index as int], self.tree@[0] == g1[0],
                    forall|i: int| 0 <= i < g1.len() && !neighbours@.contains(i as usize) ==> (#[trigger] self.tree@[i]) == g1[i],   //@ others_untouched [C17]
                    forall|k: int| neighbour_idx__k <= k < neighbours@.len() ==> self.tree@[(#[trigger] neighbours@[k]) as int] == g1[neighbours@[k] as int],
                    forall|k: int| 0 <= k < neighbour_idx__k ==> rewired_ok(g1, self.tree@, &*pd.space, &**vc, new_node_index as int, (#[trigger] neighbours@[k]) as int),   //@ rewired [C17]
                    // every tree invariant is maintained by each single rewiring
                    t_shape(self.tree@),                                               //@ rw_shape [C15]
                    t_valid(self.tree@, &**vc),                                        //@ rw_valid [C01,C15]
                    t_checked(self.tree@, &*pd.space, &**vc),                          //@ rw_checked [C03,C15]
                    t_cost_ok(self.tree@, &*pd.space),                                 //@ rw_cost [C17]
                    dist_nonneg(&*pd.space), t_ranked(self.tree@, g_tie),              //@ rw_ranked [C15]
                    (interp_speed_ok(&*pd.space) && fle(0.0f64, self.max_distance) && t_edges_le(g1, &*pd.space, self.step_limit())) ==> t_edges_le(self.tree@, &*pd.space, self.step_limit()),   //@ rw_edges [C05,C15]
                    t_in_bounds(g1, &*pd.space) ==> t_in_bounds(self.tree@, &*pd.space),                                       //@ rw_in_bounds [C04]
                decreases neighbours@.len() - neighbour_idx__k,
""", 'rs.solve.rewire.loop', tags=['C01', 'C03', 'C04', 'C05', 'C15', 'C17'])
ann('fn solve', 'loop-body-start while#2', r"""
                let ghost g_t0 = self.tree@;
                let ghost g_k = neighbour_idx__k - 1;
                proof {
                    // earlier neighbours are different indices, so this one is still untouched
                    assert(self.tree@[neighbour_idx as int] == g1[neighbour_idx as int]);
                }
""", 'rs.solve.rewire.ghost')
ann('fn solve', 'loop-end while#2', r"""
                proof {
                    let sp = pd.space;
                    let t = self.tree@;
                    let b = neighbour_idx as int;
                    let n = new_node_index as int;
                    if t != g_t0 {
                        // a rewiring happened: b got parent n and cost c2 < old cost, with a valid motion n -> b
                        let c2 = g1[n].cost.add_spec(sp.dist_spec(&g1[b].state, &g1[n].state));
                        assert(t =~= g_t0.update(b, t[b]));
                        reveal(dist_nonneg);
                        assert(fle(0.0f64, g_t0[n].cost) && feq(g_t0[0].cost, 0.0f64)) by { reveal(t_ranked); }
                        ax_add_mono(g1[n].cost, sp.dist_spec(&g1[b].state, &g1[n].state));
                        if b == 0 {
                            // the root cannot be rewired: c2 >= 0 cannot be < the root's cost 0
                            ax_eq_sym(g_t0[0].cost, 0.0f64);
                            ax_lt_le_trans(c2, g_t0[0].cost, 0.0f64);
                            ax_le_lt_trans(0.0f64, c2, 0.0f64);
                            ax_lt_irrefl(0.0f64);
                        }
                        ax_rv_add(g1[n].cost, sp.dist_spec(&g1[b].state, &g1[n].state));
                        ax_rv_cmp(sp.dist_spec(&g1[n].state, &g1[b].state), self.search_radius);
                        lemma_star_rewire(g_t0, t, &*sp, &**vc, b, n, g_tie);
                        g_tie = g_tie.update(b, g_tie[n] + 1);
                    }
                    assert(rewired_ok(g1, t, &*sp, &**vc, n, b));
                    assert forall|k: int| 0 <= k < neighbour_idx__k implies rewired_ok(g1, t, &*sp, &**vc, n, (#[trigger] neighbours@[k]) as int) by {
                        if k < g_k { assert(neighbours@[k] < neighbours@[g_k]); assert(t[neighbours@[k] as int] == g_t0[neighbours@[k] as int]); }
                    }
                    assert forall|k: int| neighbour_idx__k <= k < neighbours@.len() implies t[(#[trigger] neighbours@[k]) as int] == g1[neighbours@[k] as int] by {
                        assert(neighbours@[g_k] < neighbours@[k]);
                    }
                    assert forall|i: int| 0 <= i < g1.len() && !neighbours@.contains(i as usize) implies (#[trigger] t[i]) == g1[i] by {
                        assert(neighbours@[g_k] == neighbour_idx);
                        assert(neighbours@.contains(neighbour_idx));
                    }
                }
""", 'rs.solve.rewire.step', tags=['C01', 'C03', 'C04', 'C05', 'C15', 'C17'])
ann('fn solve', 'after /let new_node_ref = &self\.tree\[new_node_index\];\s*let neighbour_node = &self\.tree\[neighbour_idx\];/', r"""
                proof { assert(new_node_ref.parent_index == g1[new_node_index as int].parent_index); }
""", 'rs.solve.rewire.pre')
ann('fn solve', 'before /return Ok\(self\.reconstruct_path\(self\.tree\.len\(\) - 1\)\);/', r"""
                proof {
                    let t = self.tree@;
                    let n = t.len() - 1;
                    let sp = pd.space;
                    let m = self.step_limit();
                    assert(t_ranked(t, g_tie));
                    assert forall|w: Seq<int>| #[trigger] t_walk(t, w, n) implies
                        path_props(walk_states(t, w).reverse(), &*sp, &**vc, t[0].state, t[n].state)
                        && ((t_edges_le(t, &*sp, m) && metric_ok(&*sp)) ==> path_step_le(walk_states(t, w).reverse(), &*sp, m))
                        && (t_in_bounds(t, &*sp) ==> path_in_bounds(walk_states(t, w).reverse(), &*sp)) by {
                        lemma_walk_path(t, w, n, &*sp, &**vc, m);
                    }
                    assert(t[n].state == q_new);
                }
""", 'rs.solve.ok', tags=['C01', 'C02', 'C03', 'C04', 'C05'])

ANNS = {SRC: A}
EPILOGUE = r'''
proof fn canary_must_fail<S: State, SP: StateSpace<StateType = S>>(sp: &SP, a: f64, b: f64)
    requires metric_ok(sp), interp_speed_ok(sp), convex_ok(sp), dist_nonneg(sp), flt(a, b),
{
    ax_f64_obeys(); ax_zero_refl(); ax_rv_consts(); ax_rv_cmp(a, b);
    assert(false);   //@ canary []
}
'''
