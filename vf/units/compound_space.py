"""Unit V-compound: oxmpl/src/base/spaces/compound_state_space.rs (distance, bounds check, resolution) under contract, for
ALL layouts (any number and kind of components)."""
import re
from extract import Ann

NAME = "V-compound"
SRC = "oxmpl/src/base/spaces/compound_state_space.rs"
SOURCES = [SRC]
PRELUDE = ["core.rs", "spaces.rs"]
SERVES = ["C13", "C09"]
FUNCTIONS = [SRC + "::CompoundStateSpace::" + f for f in ("new", "distance", "interpolate", "enforce_bounds", "satisfies_bounds", "get_longest_valid_segment_length")]
TRUSTED = ["verus/prelude/spaces.rs: contract of the type-erased AnyStateSpace interface (deterministic component functions); the downcasting blanket impl is covered by Engine K",
           "f64 sqrt / powi as deterministic uninterpreted functions (prelude core.rs)"]


def _pre(text):
    # `assert_eq!(a, b, "msg")` (several lines) -> a call with the precondition a == b; line preserving
    def rep(m):
        return "assert_eq_usize(%s, %s);" % (m.group(1).strip(), m.group(2).strip()) + "\n" * m.group(0).count("\n")
    text = re.sub(r'assert_eq!\(\s*([^,]+),\s*([^,]+),\s*"[^"]*"\s*,?\s*\);', rep, text)
    text = text.replace("#[derive(Clone)]\npub struct CompoundStateSpace", "\npub struct CompoundStateSpace")
    # sample_uniform is NOT part of this unit (rand's RngCore object is outside the stubs): its body is blanked (line preserving)
    m = re.search(r'fn sample_uniform\(&self, rng: &mut impl Rng\) -> Result<Self::StateType, StateSamplingError> \{\n(.*?)\n    \}\n', text, re.S)
    if m:
        body = m.group(1)
        text = text[:m.start(1)] + "        unimplemented!()" + "\n" * body.count("\n") + text[m.end(1):]
    return text


PREPROCESS = {SRC: _pre}
EXTRA_RULES = {SRC: [("R19", r'\b(total_\w+) \+=', r'\1 = \1 +', "`x += e` on f64 -> `x = x + e` (Verus crashes on float compound assignment)")]}
# the StateSpace contract for this unit: well-typed states (one component per subspace, of the subspace's type) are a precondition
PRELUDE_EDITS = [
    ("    fn distance(&self, state1: &Self::StateType, state2: &Self::StateType) -> (r: f64)\n        ensures r == self.dist_spec(state1, state2);\n",
     "    fn distance(&self, state1: &Self::StateType, state2: &Self::StateType) -> (r: f64) requires self.state_ok(state1), self.state_ok(state2),\n        ensures r == self.dist_spec(state1, state2);\n"),
    ("    fn satisfies_bounds(&self, state: &Self::StateType) -> (r: bool)\n        ensures r == self.in_bounds_spec(state);\n",
     "    fn satisfies_bounds(&self, state: &Self::StateType) -> (r: bool) requires self.state_ok(state),\n        ensures r == self.in_bounds_spec(state);\n"),
    ("    spec fn in_bounds_spec(&self, a: &Self::StateType) -> bool;\n", "    spec fn in_bounds_spec(&self, a: &Self::StateType) -> bool; spec fn state_ok(&self, a: &Self::StateType) -> bool; spec fn space_ok(&self) -> bool;\n"),
    ("    fn interpolate(&self, from: &Self::StateType, to: &Self::StateType, t: f64, state: &mut Self::StateType)\n        ensures *final(state) == self.interp_spec(from, to, t);\n",
     "    fn interpolate(&self, from: &Self::StateType, to: &Self::StateType, t: f64, state: &mut Self::StateType) requires self.state_ok(from), self.state_ok(to), self.state_ok(old(state)),\n        ensures self.interp_rel(from, to, t, final(state)), self.state_ok(final(state));\n"),
    ("    fn enforce_bounds(&self, state: &mut Self::StateType);\n",
     "    spec fn interp_rel(&self, from: &Self::StateType, to: &Self::StateType, t: f64, out: &Self::StateType) -> bool; spec fn enforce_rel(&self, before: &Self::StateType, after: &Self::StateType) -> bool; fn enforce_bounds(&self, state: &mut Self::StateType) requires self.state_ok(old(state)), ensures self.enforce_rel(old(state), final(state)), self.state_ok(final(state));\n"),
    ("    fn get_longest_valid_segment_length(&self) -> (r: f64)\n        ensures r == self.lvsl_spec();\n",
     "    fn get_longest_valid_segment_length(&self) -> (r: f64) requires self.space_ok(),\n        ensures r == self.lvsl_spec();\n"),
]

A = []


def ann(*a, **k):
    A.append(Ann(*a, **k))


VOCAB = r'''
#[verifier::external_body]
pub fn assert_eq_usize(a: usize, b: usize)      // unit rule: assert_eq!(a, b, "..")
    requires a == b      //@ assert_eq.holds [C13,C08]
{ assert_eq!(a, b); }
impl State for CompoundState { }

// ---- the documented composition law (C13)
/// sum_{i < n} (d_i * w_i)^2, accumulated left to right starting from 0.0 exactly as the code does
pub open spec fn sq_sum(d: spec_fn(int) -> f64, w: Seq<f64>, n: int) -> f64
    decreases n
{
    if n <= 0 { 0.0f64 } else { sq_sum(d, w, n - 1).add_spec(f64_fn2(3, d(n - 1).mul_spec(w[n - 1]), spec_usize_to_f64(2usize))) }
}
'''
ann('top', '', VOCAB, 'cs.vocab')
ann('impl#1', 'impl-start', r'''
    pub open spec fn wf(&self) -> bool { self.subspaces@.len() == self.weights@.len() }
    pub open spec fn typed(&self, s: &CompoundState) -> bool {
        &&& s.components@.len() == self.subspaces@.len()
        &&& forall|i: int| 0 <= i < self.subspaces@.len() ==> (#[trigger] self.subspaces@[i]).dyn_accepts(&*s.components@[i])
    }
    pub open spec fn comp_dist(&self, a: &CompoundState, b: &CompoundState) -> spec_fn(int) -> f64 {
        |i: int| self.subspaces@[i].dyn_dist(&*a.components@[i], &*b.components@[i])
    }
    pub open spec fn comp_lvsl(&self) -> spec_fn(int) -> f64 { |i: int| self.subspaces@[i].dyn_lvsl() }
''', 'cs.specs')
ann('fn new', 'sig', r'''
        requires subspaces@.len() == weights@.len(),      //@ new.lengths_match [C08]
        ensures r.wf(), r.subspaces == subspaces, r.weights == weights,
''', 'cs.new', ret='r', tags=['C13'])

ann('impl#2', 'impl-start', r'''
    open spec fn state_ok(&self, s: &CompoundState) -> bool { self.wf() && self.typed(s) }
    open spec fn space_ok(&self) -> bool { self.wf() }
    /// C13: distance == sqrt( sum (d_i * w_i)^2 )
    open spec fn dist_spec(&self, a: &CompoundState, b: &CompoundState) -> f64 {
        f64_fn1(2, sq_sum(self.comp_dist(a, b), self.weights@, self.subspaces@.len() as int))        //@ distance_law [C13,C09]
    }
    /// C13: the bounds check is the conjunction of the component checks
    open spec fn in_bounds_spec(&self, s: &CompoundState) -> bool {
        forall|i: int| 0 <= i < self.subspaces@.len() ==> (#[trigger] self.subspaces@[i]).dyn_in_bounds(&*s.components@[i])     //@ bounds_law [C13]
    }
    /// C13: the resolution is the same weighted combination of the component resolutions
    open spec fn lvsl_spec(&self) -> f64 {
        f64_fn1(2, sq_sum(self.comp_lvsl(), self.weights@, self.subspaces@.len() as int))                //@ resolution_law [C13]
    }
    uninterp spec fn interp_spec(&self, a: &CompoundState, b: &CompoundState, t: f64) -> CompoundState;
    /// C13: interpolation and bounds enforcement act component by component
    open spec fn interp_rel(&self, from: &CompoundState, to: &CompoundState, t: f64, out: &CompoundState) -> bool {
        &&& out.components@.len() == self.subspaces@.len()
        &&& forall|i: int| 0 <= i < self.subspaces@.len() ==> (#[trigger] self.subspaces@[i]).dyn_interp_rel(&*from.components@[i], &*to.components@[i], t, &*out.components@[i])     //@ interpolate_law [C13]
    }
    open spec fn enforce_rel(&self, before: &CompoundState, after: &CompoundState) -> bool {
        &&& after.components@.len() == self.subspaces@.len()
        &&& forall|i: int| 0 <= i < self.subspaces@.len() ==> (#[trigger] self.subspaces@[i]).dyn_enforce_rel(&*before.components@[i], &*after.components@[i])     //@ enforce_law [C13]
    }
    uninterp spec fn sample_set(&self, s: &CompoundState) -> bool;
''', 'cs.stspecs', tags=['C13'])
for f in ('sample_uniform',):
    ann('fn ' + f, 'attr', '#[verifier::external_body]', 'cs.%s.ext' % f)
ann('fn distance', 'body-start', 'proof { ax_f64_obeys(); }', 'cs.distance.ax')
ann('fn distance', 'loop for#1', r'''
            invariant
                self.wf(), self.typed(state1), self.typed(state2),
                0 <= i <= self.subspaces@.len(),
                <f64 as AddSpec>::obeys_add_spec(), <f64 as MulSpec>::obeys_mul_spec(),
                total_dist_sq == sq_sum(self.comp_dist(state1, state2), self.weights@, i as int),       //@ partial_sum [C13,C09]
''', 'cs.distance.loop', tags=['C13', 'C09'])
ann('fn satisfies_bounds', 'loop for#1', r'''
            invariant
                self.wf(), self.typed(state),
                0 <= i <= self.subspaces@.len(),
                forall|j: int| 0 <= j < i ==> (#[trigger] self.subspaces@[j]).dyn_in_bounds(&*state.components@[j]),      //@ prefix_in_bounds [C13]
''', 'cs.satisfies.loop', tags=['C13'])
ann('fn interpolate', 'loop for#1', r'''
            invariant
                self.wf(), self.typed(from), self.typed(to), self.typed(out_state),
                0 <= i <= self.subspaces@.len(),
                out_state.components@.len() == old(out_state).components@.len(),
                forall|j: int| 0 <= j < i ==> (#[trigger] self.subspaces@[j]).dyn_interp_rel(&*from.components@[j], &*to.components@[j], t, &*out_state.components@[j]),     //@ prefix_interpolated [C13]
''', 'cs.interp.loop', tags=['C13'])
ann('fn enforce_bounds', 'loop for#1', r'''
            invariant
                self.wf(), self.typed(state),
                0 <= i <= self.subspaces@.len(),
                state.components@.len() == old(state).components@.len(),
                forall|j: int| 0 <= j < i ==> (#[trigger] self.subspaces@[j]).dyn_enforce_rel(&*old(state).components@[j], &*state.components@[j]),     //@ prefix_enforced [C13]
                forall|j: int| i <= j < self.subspaces@.len() ==> state.components@[j] == old(state).components@[j],
''', 'cs.enforce.loop', tags=['C13'])
ann('fn get_longest_valid_segment_length', 'body-start', 'proof { ax_f64_obeys(); }', 'cs.lvsl.ax')
ann('fn get_longest_valid_segment_length', 'loop for#1', r'''
            invariant
                self.wf(),
                0 <= i <= self.subspaces@.len(),
                <f64 as AddSpec>::obeys_add_spec(), <f64 as MulSpec>::obeys_mul_spec(),
                total_longest_valid_segment_length_sq == sq_sum(self.comp_lvsl(), self.weights@, i as int),     //@ partial_sum [C13]
''', 'cs.lvsl.loop', tags=['C13'])

ANNS = {SRC: A}

EPILOGUE = r'''
proof fn canary_must_fail(a: f64, b: f64)
    requires flt(a, b),
{
    ax_f64_obeys();
    assert(false);   //@ canary []
}
'''
