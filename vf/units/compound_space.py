"""Unit V-compound: oxmpl/src/base/spaces/compound_state_space.rs (distance, bounds check, resolution) under contract, for
ALL layouts (any number and kind of components)."""
import re
from extract import Ann

NAME = "V-compound"
SRC = "oxmpl/src/base/spaces/compound_state_space.rs"
ANY = "oxmpl/src/base/spaces/any_state_space.rs"
SE2 = "oxmpl/src/base/spaces/se2_state_space.rs"
SE3 = "oxmpl/src/base/spaces/se3_state_space.rs"
SOURCES = [SRC, ANY, SE2, SE3]
PRELUDE = ["core.rs", "spaces.rs"]
SERVES = ["C13", "C09", "C14", "C11", "C12"]
FUNCTIONS = [SRC + "::CompoundStateSpace::" + f for f in ("new", "distance", "interpolate", "sample_uniform", "enforce_bounds", "satisfies_bounds", "get_longest_valid_segment_length")] + \
    [ANY + "::<T as AnyStateSpace>::" + f for f in ("distance_dyn", "interpolate_dyn", "enforce_bounds_dyn", "satisfies_bounds_dyn", "get_longest_valid_segment_length_dyn")] + \
    [f_ + "::" + t + "::" + f for f_, t in ((SE2, "SE2StateSpace"), (SE3, "SE3StateSpace")) for f in ("new", "distance", "interpolate", "enforce_bounds", "satisfies_bounds", "sample_uniform", "get_longest_valid_segment_length")]
# functions whose contract pins an exact float expression (see check.py: a failure counts only with a concrete failing input)
PROXY_FUNCTIONS = {"distance": ["C13", "C09", "C14"], "get_longest_valid_segment_length": ["C13", "C09", "C14"]}
TRUSTED = ["verus/prelude/spaces.rs: the AnyStateSpace trait DECLARATION with its contract replaces the declaration in any_state_space.rs (the blanket impl with the downcasts IS verified against it); std::any::Any downcasts as the spec function dc::<S>() (downcast_state_ref / downcast_state_mut_unwrap stubs); compound_as_dyn_mut / rng_as_dyn stand for `&mut` unsizing coercions",
           "component spaces RealVectorStateSpace / SO2StateSpace / SO3StateSpace are opaque stubs in this unit (uninterpreted deterministic component functions, constructor = uninterpreted function new_spec_*)",
           "AnyStateSpace::sample_uniform_dyn of the blanket impl is external_body (local struct + impl inside the function body); Clone impls are external",
           "struct definitions CompoundState / SE2State / SE3State are prelude text",
           "f64 sqrt / powi / + / * as deterministic uninterpreted functions (prelude core.rs)"]


def _pre(text):
    # `assert_eq!(a, b, "msg")` (several lines) -> a call with the precondition a == b; line preserving
    def rep(m):
        return "assert_eq_usize(%s, %s);" % (m.group(1).strip(), m.group(2).strip()) + "\n" * m.group(0).count("\n")
    text = re.sub(r'assert_eq!\(\s*([^,]+),\s*([^,]+),\s*"[^"]*"\s*,?\s*\);', rep, text)
    text = text.replace("#[derive(Clone)]\npub struct CompoundStateSpace", "\npub struct CompoundStateSpace")
    # unit rule RD4
    text = text.replace('sample_uniform_dyn(rng)', 'sample_uniform_dyn(rng_as_dyn(rng))')
    # unit rule RD5: type annotation only (the invariant mentions `components` before inference has fixed its type)
    text = text.replace('let mut components = Vec::with_capacity(', 'let mut components: Vec<Box<dyn State>> = Vec::with_capacity(')
    return text




def _blank(text, a, b):
    """blank text[a:b] keeping the newlines"""
    return text[:a] + "".join(ch if ch == "\n" else " " for ch in text[a:b]) + text[b:]


def _pre_any(text):
    # the trait declarations and the clone_box plumbing are replaced by the contract trait of prelude spaces.rs: everything before
    # the blanket impl is blanked (line preserving)
    i = text.index("impl<T: StateSpace + Clone + 'static> AnyStateSpace for T")
    text = _blank(text, 0, i)
    # unit rule RD2 / RD1: Any downcasts of state objects -> the prelude's downcast functions
    def rep_mut(m):
        return "downcast_state_mut_unwrap::<%s>(%s)" % (m.group(2), m.group(1)) + "\n" * m.group(0).count("\n")
    text = re.sub(r'\((\w+) as &mut dyn Any\)\s*\.downcast_mut::<([\w:]+)>\(\)\s*\.unwrap\(\)', rep_mut, text)
    text = re.sub(r'\((\w+) as &dyn Any\)\.downcast_ref::<([\w:]+)>\(\)', r'downcast_state_ref::<\2>(\1)', text)
    # sample_uniform_dyn (local struct + impl inside a function body, rand's RngCore) is not part of this unit
    m = re.search(r'fn sample_uniform_dyn\([^)]*\) -> Result<Box<dyn State>, StateSamplingError> \{\n(.*?)\n    \}\n', text, re.S)
    text = text[:m.start(1)] + "        unimplemented!()" + "\n" * m.group(1).count("\n") + text[m.end(1):]
    return text


def _pre_se(text):
    text = text.replace("rand::Rng", "Rng").replace("crate::base::error::StateSamplingError", "StateSamplingError")
    # unit rule RD3: `&mut state.0` where `&mut dyn State` is expected
    text = re.sub(r'&mut state\.0\)', 'compound_as_dyn_mut(&mut state.0))', text)
    return text


PREPROCESS = {SRC: _pre, ANY: _pre_any, SE2: _pre_se, SE3: _pre_se}
EXTRA_RULES = {SRC: [("R19", r'\b(total_\w+) \+=', r'\1 = \1 +', "`x += e` on f64 -> `x = x + e` (Verus crashes on float compound assignment)")]}
# the StateSpace contract for this unit: well-typed states (one component per subspace, of the subspace's type) are a precondition
PRELUDE_EDITS = [
    ("    fn distance(&self, state1: &Self::StateType, state2: &Self::StateType) -> (r: f64)\n        ensures r == self.dist_spec(state1, state2);\n",
     "    fn distance(&self, state1: &Self::StateType, state2: &Self::StateType) -> (r: f64) requires self.state_ok(state1), self.state_ok(state2),\n        ensures r == self.dist_spec(state1, state2);     //@ space.distance.law [C13,C09]\n"),
    ("    fn satisfies_bounds(&self, state: &Self::StateType) -> (r: bool)\n        ensures r == self.in_bounds_spec(state);\n",
     "    fn satisfies_bounds(&self, state: &Self::StateType) -> (r: bool) requires self.state_ok(state),\n        ensures r == self.in_bounds_spec(state);     //@ space.satisfies_bounds.law [C13]\n"),
    ("    spec fn in_bounds_spec(&self, a: &Self::StateType) -> bool;\n", "    spec fn in_bounds_spec(&self, a: &Self::StateType) -> bool; spec fn state_ok(&self, a: &Self::StateType) -> bool; spec fn space_ok(&self) -> bool;\n"),
    ("    fn interpolate(&self, from: &Self::StateType, to: &Self::StateType, t: f64, state: &mut Self::StateType)\n        ensures *final(state) == self.interp_spec(from, to, t);\n",
     "    fn interpolate(&self, from: &Self::StateType, to: &Self::StateType, t: f64, state: &mut Self::StateType) requires self.state_ok(from), self.state_ok(to), self.state_ok(old(state)),\n        ensures self.interp_rel(from, to, t, final(state)), self.state_ok(final(state));     //@ space.interpolate.law [C13]\n"),
    ("    fn enforce_bounds(&self, state: &mut Self::StateType);\n",
     "    spec fn interp_rel(&self, from: &Self::StateType, to: &Self::StateType, t: f64, out: &Self::StateType) -> bool; spec fn enforce_rel(&self, before: &Self::StateType, after: &Self::StateType) -> bool; fn enforce_bounds(&self, state: &mut Self::StateType) requires self.state_ok(old(state)), ensures self.enforce_rel(old(state), final(state)), self.state_ok(final(state));     //@ space.enforce_bounds.law [C13,C11]\n"),
    ("    fn get_longest_valid_segment_length(&self) -> (r: f64)\n        ensures r == self.lvsl_spec();\n",
     "    fn get_longest_valid_segment_length(&self) -> (r: f64) requires self.space_ok(),\n        ensures r == self.lvsl_spec();     //@ space.lvsl.law [C13]\n"),
]

A = []


def ann(*a, **k):
    A.append(Ann(*a, **k))


def _stub_space(name, new_sig, specsig, specargs):
    return (r'''
// stub of the component space %(n)s (its own code is under contract in the Kani harnesses, not in this unit): an opaque type
// whose type-erased interface is a set of uninterpreted deterministic functions
#[verifier::external_body]
pub struct %(n)s { _p: u8 }
pub uninterp spec fn new_spec_%(n)s(%(specsig)s) -> Result<%(n)s, StateSpaceError>;
pub open spec fn dynbox_%(n)s(x: %(n)s) -> Box<dyn AnyStateSpace> { Box::new(x) }      // the unsizing coercion the compiler inserts
impl %(n)s {
    #[verifier::external_body]
    pub fn new(%(sig)s) -> (r: Result<Self, StateSpaceError>)
        ensures r == new_spec_%(n)s(%(specargs)s),
    { unimplemented!() }
}
impl AnyStateSpace for %(n)s {
    uninterp spec fn dyn_space_ok(&self) -> bool;
    uninterp spec fn dyn_dist(&self, a: &dyn State, b: &dyn State) -> f64;
    uninterp spec fn dyn_in_bounds(&self, a: &dyn State) -> bool;
    uninterp spec fn dyn_lvsl(&self) -> f64;
    uninterp spec fn dyn_accepts(&self, a: &dyn State) -> bool;
    uninterp spec fn dyn_sample_set(&self, a: &dyn State) -> bool;
    uninterp spec fn dyn_interp_rel(&self, from: &dyn State, to: &dyn State, t: f64, out: &dyn State) -> bool;
    uninterp spec fn dyn_enforce_rel(&self, before: &dyn State, after: &dyn State) -> bool;
    #[verifier::external_body] fn distance_dyn(&self, state1: &dyn State, state2: &dyn State) -> (r: f64) { unimplemented!() }
    #[verifier::external_body] fn satisfies_bounds_dyn(&self, state: &dyn State) -> (r: bool) { unimplemented!() }
    #[verifier::external_body] fn get_longest_valid_segment_length_dyn(&self) -> (r: f64) { unimplemented!() }
    #[verifier::external_body] fn sample_uniform_dyn(&self, rng: &mut dyn RngCore) -> Result<Box<dyn State>, StateSamplingError> { unimplemented!() }
    #[verifier::external_body] fn interpolate_dyn(&self, from: &dyn State, to: &dyn State, t: f64, state: &mut dyn State) { unimplemented!() }
    #[verifier::external_body] fn enforce_bounds_dyn(&self, state: &mut dyn State) { unimplemented!() }
}
''' % dict(n=name, sig=new_sig, specsig=specsig, specargs=specargs))


STUBS = _stub_space("RealVectorStateSpace", "dimension: usize, bounds_option: Option<Vec<(f64, f64)>>", "dimension: usize, bounds: Option<Seq<(f64, f64)>>",
                "dimension, match bounds_option { Some(v) => Some(v@), None => None }") + \
    _stub_space("SO2StateSpace", "bounds_option: Option<(f64, f64)>", "bounds: Option<(f64, f64)>", "bounds_option") + _stub_space("SO3StateSpace", "bounds_option: Option<(SO3State, f64)>", "bounds: Option<(SO3State, f64)>", "bounds_option") + \
    "#[verifier::external_body]\npub struct SO3State { _p: u8 }\n"

VOCAB = STUBS + r'''
use std::f64::consts::PI;      // the files' dropped `use` blocks import it; harmless when unused
#[verifier::external_body]
pub fn assert_eq_usize(a: usize, b: usize)      // unit rule: assert_eq!(a, b, "..")
    requires a == b      //@ assert_eq.holds [C13,C08]
{ assert_eq!(a, b); }
impl Clone for CompoundStateSpace { #[verifier::external_body] fn clone(&self) -> Self { unimplemented!() } }     // the real one is derived through Box<dyn AnyStateSpace>::clone_box

// ---- the documented composition law (C13)
/// sum_{i < n} (d_i * w_i)^2, accumulated left to right starting from 0.0 exactly as the code does
pub open spec fn sq_sum(d: spec_fn(int) -> f64, w: Seq<f64>, n: int) -> f64
    decreases n
{
    if n <= 0 { 0.0f64 } else { sq_sum(d, w, n - 1).add_spec(f64_fn2(3, d(n - 1).mul_spec(w[n - 1]), spec_usize_to_f64(2usize))) }
}
'''
ann('top', '', VOCAB, 'cs.vocab')
ann('impl#1', 'impl-start', r'''
    pub open spec fn wf(&self) -> bool { self.subspaces@.len() == self.weights@.len() }
    pub open spec fn typed(&self, s: &CompoundState) -> bool {
        &&& s.components@.len() == self.subspaces@.len()
        &&& forall|i: int| 0 <= i < self.subspaces@.len() ==> (#[trigger] self.subspaces@[i]).dyn_accepts(&*s.components@[i])
    }
    pub open spec fn comp_dist(&self, a: &CompoundState, b: &CompoundState) -> spec_fn(int) -> f64 {
        |i: int| self.subspaces@[i].dyn_dist(&*a.components@[i], &*b.components@[i])
    }
    pub open spec fn comp_lvsl(&self) -> spec_fn(int) -> f64 { |i: int| self.subspaces@[i].dyn_lvsl() }
''', 'cs.specs')
ann('fn new', 'sig', r'''
        requires subspaces@.len() == weights@.len(),      //@ new.lengths_match [C08]
        ensures r.wf(), r.subspaces == subspaces, r.weights == weights,
''', 'cs.new', ret='r', tags=['C13'])

ann('impl#2', 'impl-start', r'''
    open spec fn state_ok(&self, s: &CompoundState) -> bool { self.wf() && self.typed(s) }
    open spec fn space_ok(&self) -> bool { self.wf() && forall|i: int| 0 <= i < self.subspaces@.len() ==> (#[trigger] self.subspaces@[i]).dyn_space_ok() }
    /// C13: distance == sqrt( sum (d_i * w_i)^2 )
    open spec fn dist_spec(&self, a: &CompoundState, b: &CompoundState) -> f64 {
        f64_fn1(2, sq_sum(self.comp_dist(a, b), self.weights@, self.subspaces@.len() as int))        //@ distance_law [C13,C09]
    }
    /// C13: the bounds check is the conjunction of the component checks
    open spec fn in_bounds_spec(&self, s: &CompoundState) -> bool {
        forall|i: int| 0 <= i < self.subspaces@.len() ==> (#[trigger] self.subspaces@[i]).dyn_in_bounds(&*s.components@[i])     //@ bounds_law [C13,C11]
    }
    /// C13: the resolution is the same weighted combination of the component resolutions
    open spec fn lvsl_spec(&self) -> f64 {
        f64_fn1(2, sq_sum(self.comp_lvsl(), self.weights@, self.subspaces@.len() as int))                //@ resolution_law [C13]
    }
    uninterp spec fn interp_spec(&self, a: &CompoundState, b: &CompoundState, t: f64) -> CompoundState;
    /// C13: interpolation and bounds enforcement act component by component
    open spec fn interp_rel(&self, from: &CompoundState, to: &CompoundState, t: f64, out: &CompoundState) -> bool {
        &&& out.components@.len() == self.subspaces@.len()
        &&& forall|i: int| 0 <= i < self.subspaces@.len() ==> (#[trigger] self.subspaces@[i]).dyn_interp_rel(&*from.components@[i], &*to.components@[i], t, &*out.components@[i])     //@ interpolate_law [C13]
    }
    open spec fn enforce_rel(&self, before: &CompoundState, after: &CompoundState) -> bool {
        &&& after.components@.len() == self.subspaces@.len()
        &&& forall|i: int| 0 <= i < self.subspaces@.len() ==> (#[trigger] self.subspaces@[i]).dyn_enforce_rel(&*before.components@[i], &*after.components@[i])     //@ enforce_law [C13,C11]
    }
    /// C13: sampling draws every component from its own space, in order
    open spec fn sample_set(&self, s: &CompoundState) -> bool {
        &&& s.components@.len() == self.subspaces@.len()
        &&& forall|i: int| 0 <= i < self.subspaces@.len() ==> (#[trigger] self.subspaces@[i]).dyn_sample_set(&*s.components@[i]) && self.subspaces@[i].dyn_accepts(&*s.components@[i])     //@ sample_law [C13,C14]
    }
''', 'cs.stspecs', tags=['C13'])
ann('fn sample_uniform', 'loop while#1', r'''
            invariant
                subspace__k <= self.subspaces@.len(),
                components@.len() == subspace__k,
                rng.det() == old(rng).det(),
                forall|j: int| 0 <= j < subspace__k ==> (#[trigger] self.subspaces@[j]).dyn_sample_set(&*components@[j]) && self.subspaces@[j].dyn_accepts(&*components@[j]),     //@ prefix_sampled [C13,C14]
            decreases self.subspaces@.len() - subspace__k,
''', 'cs.sample.loop', tags=['C13', 'C14'])
ann('fn distance', 'body-start', 'proof { ax_f64_obeys(); }', 'cs.distance.ax')
ann('fn distance', 'loop for#1', r'''
            invariant
                self.wf(), self.typed(state1), self.typed(state2),
                0 <= i <= self.subspaces@.len(),
                <f64 as AddSpec>::obeys_add_spec(), <f64 as MulSpec>::obeys_mul_spec(),
                total_dist_sq == sq_sum(self.comp_dist(state1, state2), self.weights@, i as int),       //@ partial_sum [C13,C09]
''', 'cs.distance.loop', tags=['C13', 'C09'])
ann('fn satisfies_bounds', 'loop for#1', r'''
            invariant
                self.wf(), self.typed(state),
                0 <= i <= self.subspaces@.len(),
                forall|j: int| 0 <= j < i ==> (#[trigger] self.subspaces@[j]).dyn_in_bounds(&*state.components@[j]),      //@ prefix_in_bounds [C13,C11]
''', 'cs.satisfies.loop', tags=['C13'])
ann('fn interpolate', 'loop for#1', r'''
            invariant
                self.wf(), self.typed(from), self.typed(to), self.typed(out_state),
                0 <= i <= self.subspaces@.len(),
                out_state.components@.len() == old(out_state).components@.len(),
                forall|j: int| 0 <= j < i ==> (#[trigger] self.subspaces@[j]).dyn_interp_rel(&*from.components@[j], &*to.components@[j], t, &*out_state.components@[j]),     //@ prefix_interpolated [C13]
''', 'cs.interp.loop', tags=['C13'])
ann('fn enforce_bounds', 'loop for#1', r'''
            invariant
                self.wf(), self.typed(state),
                0 <= i <= self.subspaces@.len(),
                state.components@.len() == old(state).components@.len(),
                forall|j: int| 0 <= j < i ==> (#[trigger] self.subspaces@[j]).dyn_enforce_rel(&*old(state).components@[j], &*state.components@[j]),     //@ prefix_enforced [C13,C11]
                forall|j: int| i <= j < self.subspaces@.len() ==> state.components@[j] == old(state).components@[j],
''', 'cs.enforce.loop', tags=['C13', 'C11'])
ann('fn get_longest_valid_segment_length', 'body-start', 'proof { ax_f64_obeys(); }', 'cs.lvsl.ax')
ann('fn get_longest_valid_segment_length', 'loop for#1', r'''
            invariant
                self.space_ok(),
                0 <= i <= self.subspaces@.len(),
                <f64 as AddSpec>::obeys_add_spec(), <f64 as MulSpec>::obeys_mul_spec(),
                total_longest_valid_segment_length_sq == sq_sum(self.comp_lvsl(), self.weights@, i as int),     //@ partial_sum [C13]
''', 'cs.lvsl.loop', tags=['C13'])

B = []   # any_state_space.rs
B.append(Ann('impl#1', 'impl-start', r'''
    // the type-erased interface IS the concrete space's interface on the downcast states (C13 mechanism "per-component *_dyn calls")
    open spec fn dyn_space_ok(&self) -> bool { self.space_ok() }
    open spec fn dyn_accepts(&self, a: &dyn State) -> bool { dc::<T::StateType>(a) is Some && self.state_ok(&dc::<T::StateType>(a).unwrap()) }
    open spec fn dyn_dist(&self, a: &dyn State, b: &dyn State) -> f64 { self.dist_spec(&dc::<T::StateType>(a).unwrap(), &dc::<T::StateType>(b).unwrap()) }     //@ any.distance_is_concrete [C13,C09]
    open spec fn dyn_in_bounds(&self, a: &dyn State) -> bool { self.in_bounds_spec(&dc::<T::StateType>(a).unwrap()) }     //@ any.bounds_is_concrete [C13]
    open spec fn dyn_lvsl(&self) -> f64 { self.lvsl_spec() }     //@ any.lvsl_is_concrete [C13]
    open spec fn dyn_sample_set(&self, a: &dyn State) -> bool { dc::<T::StateType>(a) is Some && self.sample_set(&dc::<T::StateType>(a).unwrap()) }
    open spec fn dyn_interp_rel(&self, from: &dyn State, to: &dyn State, t: f64, out: &dyn State) -> bool {
        dc::<T::StateType>(out) is Some && self.interp_rel(&dc::<T::StateType>(from).unwrap(), &dc::<T::StateType>(to).unwrap(), t, &dc::<T::StateType>(out).unwrap())     //@ any.interp_is_concrete [C13]
    }
    open spec fn dyn_enforce_rel(&self, before: &dyn State, after: &dyn State) -> bool {
        dc::<T::StateType>(after) is Some && self.enforce_rel(&dc::<T::StateType>(before).unwrap(), &dc::<T::StateType>(after).unwrap())     //@ any.enforce_is_concrete [C13,C11]
    }
''', 'any.specs', tags=['C13']))
B.append(Ann('fn sample_uniform_dyn', 'attr', '#[verifier::external_body]', 'any.sample.ext'))


def se_anns(ty, st):
    S = []
    S.append(Ann('impl#2', 'impl-start', (r'''
    // C13: %(ty)s behaves exactly as its inner compound space on the inner compound state
    open spec fn state_ok(&self, s: &%(st)s) -> bool { self.0.state_ok(&s.0) }
    open spec fn space_ok(&self) -> bool { self.0.space_ok() }
    open spec fn dist_spec(&self, a: &%(st)s, b: &%(st)s) -> f64 { self.0.dist_spec(&a.0, &b.0) }     //@ se.distance_is_compound [C13,C09]
    open spec fn in_bounds_spec(&self, s: &%(st)s) -> bool { self.0.in_bounds_spec(&s.0) }     //@ se.bounds_is_compound [C13]
    open spec fn lvsl_spec(&self) -> f64 { self.0.lvsl_spec() }     //@ se.lvsl_is_compound [C13]
    uninterp spec fn interp_spec(&self, a: &%(st)s, b: &%(st)s, t: f64) -> %(st)s;
    open spec fn interp_rel(&self, from: &%(st)s, to: &%(st)s, t: f64, out: &%(st)s) -> bool { self.0.interp_rel(&from.0, &to.0, t, &out.0) }     //@ se.interp_is_compound [C13]
    open spec fn enforce_rel(&self, before: &%(st)s, after: &%(st)s) -> bool { self.0.enforce_rel(&before.0, &after.0) }     //@ se.enforce_is_compound [C13,C11]
    open spec fn sample_set(&self, s: &%(st)s) -> bool { self.0.sample_set(&s.0) }     //@ se.sample_is_compound [C13]
''' % dict(ty=ty, st=st)), 'se.specs.' + ty, tags=['C13']))
    S.append(Ann('fn new', 'sig', (r'''
        ensures
            r is Ok ==> r.unwrap().0.wf() && r.unwrap().0.weights@ == seq![1.0f64, weight] && r.unwrap().0.subspaces@.len() == 2,      //@ se.new.weights_1_w [C13]
            (bounds_option is Some && bounds_option.unwrap()@.len() != 3) ==> r is Err,      //@ se.new.bounds_len [C12]
            // the components are the translation space and the rotation space, in this order, built from the given bounds
            r is Ok ==> ({ let tb = match bounds_option { Some(b) => Some(%(tb)s), None => None };
                           let rb = %(rb)s;
                           &&& new_spec_RealVectorStateSpace(%(dim)s, tb) is Ok && new_spec_%(rot)s(rb) is Ok
                           &&& r.unwrap().0.subspaces@[0] == dynbox_RealVectorStateSpace(new_spec_RealVectorStateSpace(%(dim)s, tb).unwrap())      //@ se.new.translation_first [C13]
                           &&& r.unwrap().0.subspaces@[1] == dynbox_%(rot)s(new_spec_%(rot)s(rb).unwrap()) }),      //@ se.new.rotation_second [C13]
''' % (dict(tb="seq![b@[0], b@[1]]", rb="match bounds_option { Some(b) => Some(b@[2]), None => None }", dim="2", rot="SO2StateSpace") if ty == 'SE2StateSpace' else
         dict(tb="seq![b@[0], b@[1], b@[2]]", rb="None::<(SO3State, f64)>", dim="3", rot="SO3StateSpace"))), 'se.new.' + ty, ret='r', tags=['C13']))
    S.append(Ann('fn distance', 'body-start', 'proof { ax_dc_compound(&state1.0); ax_dc_compound(&state2.0); }', 'se.distance.ax.' + ty))
    S.append(Ann('fn interpolate', 'body-start', 'proof { ax_dc_compound(&from.0); ax_dc_compound(&to.0); }', 'se.interp.ax.' + ty))
    S.append(Ann('fn satisfies_bounds', 'body-start', 'proof { ax_dc_compound(&state.0); }', 'se.sat.ax.' + ty))
    return S


ANNS = {SRC: A, ANY: B, SE2: se_anns('SE2StateSpace', 'SE2State'), SE3: se_anns('SE3StateSpace', 'SE3State')}

EPILOGUE = r'''
proof fn canary_must_fail(a: f64, b: f64)
    requires flt(a, b),
{
    ax_f64_obeys();
    assert(false);   //@ canary []
}
'''
