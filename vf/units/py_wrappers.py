"""Unit V-py: oxmpl-py/src/base/state_validity_checker.rs and goal.rs (the callback glue) under contract."""
from extract import Ann

NAME = "V-py"
SRC_VC = "oxmpl-py/src/base/state_validity_checker.rs"
SRC_GOAL = "oxmpl-py/src/base/goal.rs"
SOURCES = [SRC_VC, SRC_GOAL]
PRELUDE = ["core.rs", "py.rs"]
SERVES = ["C20"]
FUNCTIONS = [SRC_VC + "::<PyStateValidityChecker as StateValidityChecker<%s>>::is_valid" % t for t in ("RealVectorState", "SO2State", "SO3State", "CompoundState", "SE2State", "SE3State")] + \
            [SRC_GOAL + "::<PyGoal as Goal>::is_satisfied", SRC_GOAL + "::<PyGoal as GoalRegion>::distance_goal", SRC_GOAL + "::<PyGoal as GoalSampleableRegion>::sample_goal"]
TRUSTED = ["verus/prelude/py.rs: pyo3 stubs (call1 / call_method / extract / Py::new / with_gil) — a Python call either returns an object or raises; extract::<bool> succeeds only on a Python bool"]

VC = []
GO = []

WRAP = [("OxmplRealVectorState", "PyRealVectorState", "Arc"), ("OxmplSO2State", "PySO2State", "Arc"), ("OxmplSO3State", "PySO3State", "Arc"),
        ("OxmplCompoundState", "PyCompoundState", "Rc"), ("OxmplSE2State", "PySE2State", "Rc"), ("OxmplSE3State", "PySE3State", "Rc")]

for k, (st, wr, ptr) in enumerate(WRAP, 1):
    w = "%s(%s::new(*state))" % (wr, ptr)
    spec = "py_new_ok(%s) && fail_closed(call_outcome(&self.callback, %s))" % (w, w)
    # impl#1 is `impl Clone`; the checker impls are impl#2..#7
    VC.append(Ann('impl#%d' % (k + 1), 'impl-start', """
    /// C20: the validity predicate this wrapper implements IS the fail-closed reading of the Python callback
    open spec fn valid(&self, state: &%s) -> bool { %s }      //@ valid_is_fail_closed [C20]
""" % (st, spec), 'py.vc.spec%d' % k, tags=['C20']))
    VC.append(Ann('fn is_valid#%d' % k, 'closure /\\|py\\| /', "|py: Python| -> (r0: bool) ensures r0 == (%s)   //@ gil_closure [C20]" % spec, 'py.vc.gil%d' % k, tags=['C20']))
    VC.append(Ann('fn is_valid#%d' % k, 'closure /\\(move \\|\\| /', "(move || -> (r1: PyResult<bool>) ensures (r1 is Ok ==> r1->Ok_0 == (%s)), (r1 is Err ==> !(%s))   //@ try_closure [C20]" % (spec, spec), 'py.vc.try%d' % k, tags=['C20']))

VC.append(Ann('fn clone', 'closure /\\|py\\| /', "|py: Python| -> (c0: PyStateValidityChecker) ensures c0.callback == self.callback", 'py.vc.clone', tags=['C20']))

# the planner-side ASSUMPTION "a goal sample satisfies the goal" is a contract on USER samplers; the wrapper cannot and
# need not establish it, so it is removed from the trait contract for this unit (the wrapper is verified against the rest)
PRELUDE_EDITS = [
    ("            r is Ok ==> self.sat(&r->Ok_0),\n", "            true, // (r is Ok ==> sat) is an assumption on user samplers, not an obligation of the glue\n"),
]

GO.append(Ann('struct PyGoal', 'attr', '#[verifier::reject_recursive_types(State)]', 'py.goal.attr'))
GO.append(Ann('fn clone', 'closure /\\|py\\| /', "|py: Python| -> (c0: PyGoal<State>) ensures c0.instance == self.instance", 'py.goal.clone', tags=['C20']))
# impl#1 Clone, impl#2 Goal, impl#3 GoalRegion, impl#4 GoalSampleableRegion
GO.append(Ann('impl#2', 'impl-start', """
    /// C20: the goal predicate IS the fail-closed reading of the Python method `is_satisfied`
    open spec fn sat(&self, state: &State) -> bool { fail_closed(method_outcome1(&self.instance, "is_satisfied", state.to_wrapper_spec())) }   //@ sat_is_fail_closed [C20]
""", 'py.goal.sat', tags=['C20']))
GO.append(Ann('fn is_satisfied', 'closure /\\|py\\| /', '|py: Python| -> (r0: bool) ensures r0 == fail_closed(method_outcome1(&self.instance, "is_satisfied", state.to_wrapper_spec()))   //@ gil_closure [C20]', 'py.goal.sat.gil', tags=['C20']))
GO.append(Ann('fn is_satisfied', 'closure /\\|res\\| /', '|res: PyObject| -> (x: PyResult<bool>) ensures (x is Ok) == (<bool as FromPy>::from_py(&res) is Some), x is Ok ==> x->Ok_0 == <bool as FromPy>::from_py(&res)->Some_0   //@ extract_closure [C20]', 'py.goal.sat.extract', tags=['C20']))
GO.append(Ann('fn distance_goal', 'sig', """
        ensures r == fail_inf(method_outcome1(&self.instance, "distance_goal", state.to_wrapper_spec())),   //@ distance_fail_infinite [C20]
""", 'py.goal.dist', ret='r', tags=['C20']))
GO.append(Ann('fn distance_goal', 'closure /\\|py\\| /', '|py: Python| -> (r0: f64) ensures r0 == fail_inf(method_outcome1(&self.instance, "distance_goal", state.to_wrapper_spec()))', 'py.goal.dist.gil', tags=['C20']))
GO.append(Ann('fn distance_goal', 'closure /\\|res\\| /', '|res: PyObject| -> (x: PyResult<f64>) ensures (x is Ok) == (<f64 as FromPy>::from_py(&res) is Some), x is Ok ==> x->Ok_0 == <f64 as FromPy>::from_py(&res)->Some_0', 'py.goal.dist.extract', tags=['C20']))
GO.append(Ann('impl#4', 'impl-start', """
    open spec fn goal_sample_set(&self, s: &State) -> bool { true }
""", 'py.goal.sampleset'))
SG_POST = """(match r0 {
            Ok(s) => method_outcome0(&self.instance, "sample_goal") is Some && <State::Wrapper as FromPy>::from_py(&method_outcome0(&self.instance, "sample_goal")->Some_0) is Some
                     && s == State::from_wrapper_spec(<State::Wrapper as FromPy>::from_py(&method_outcome0(&self.instance, "sample_goal")->Some_0)->Some_0),
            Err(e) => e is GoalRegionUnsatisfiable,
        })"""
GO.append(Ann('fn sample_goal', 'sig', """
        ensures
            // a raising / ill-typed sampler is reported as GoalRegionUnsatisfiable, never as a state
            r is Err ==> r->Err_0 is GoalRegionUnsatisfiable,                                                   //@ sample_fail_is_error [C20]
            r is Ok ==> method_outcome0(&self.instance, "sample_goal") is Some,                                 //@ sample_ok_only_if_returned [C20]
""", 'py.goal.sample', ret='r', tags=['C20']))
GO.append(Ann('fn sample_goal', 'closure /\\|py\\| /', '|py: Python| -> (r0: Result<State, StateSamplingError>) ensures ' + SG_POST.replace('\n', ' '), 'py.goal.sample.gil', tags=['C20']))
GO.append(Ann('fn sample_goal', 'closure /\\|res\\| /', '|res: PyObject| -> (x: PyResult<State::Wrapper>) ensures (x is Ok) == (<State::Wrapper as FromPy>::from_py(&res) is Some), x is Ok ==> x->Ok_0 == <State::Wrapper as FromPy>::from_py(&res)->Some_0', 'py.goal.sample.extract', tags=['C20']))
GO.append(Ann('fn sample_goal', 'closure /\\|e\\| /', '|e: PyErr| -> (x: StateSamplingError) ensures x is GoalRegionUnsatisfiable', 'py.goal.sample.maperr', tags=['C20']))

ANNS = {SRC_VC: VC, SRC_GOAL: GO}

EPILOGUE = r'''
proof fn canary_must_fail(cb: &PyObject, o: Option<PyObject>)
    requires fail_closed(o),
{
    assert(false);   //@ canary []
}
'''
