"""Unit V-pybind (C19): the oxmpl-py state / space / config wrappers and the four planner wrappers under DELEGATION contracts:
every wrapper method returns exactly what the core function returns on exactly the wrapped arguments (same order, same
objects), and raises the documented exception kind exactly when the core returns an error.  The core is a set of
uninterpreted deterministic functions (prelude pybind.rs); the pyo3 proc-macro glue (argument conversion) is outside."""
import re
from extract import Ann

NAME = "V-pybind"
B = "oxmpl-py/src/base/"
FILES = ["real_vector_state.rs", "so2_state.rs", "so3_state.rs", "se2_state.rs", "se3_state.rs", "py_state_convert.rs", "planner.rs",
         "real_vector_state_space.rs", "so2_state_space.rs", "so3_state_space.rs", "se2_state_space.rs", "se3_state_space.rs",
         "problem_definition.rs", "path.rs"]
SOURCES = [B + f for f in FILES]
PRELUDE = ["pybind.rs"]
SERVES = ["C19"]
FUNCTIONS = []
TRUSTED = ["verus/prelude/pybind.rs: the oxmpl core as uninterpreted deterministic functions `core_*` (constructors, distance, extent, setters, accessors); faithful Clone of the core state types",
           "pyo3: #[pyclass] / #[pymethods] / #[new] / #[getter] / #[staticmethod] / #[pyo3(signature)] attributes are dropped (the proc-macro glue that converts Python arguments is not verified); PyValueError / PyException constructors only record the exception kind",
           "std Mutex / RefCell as a two-state view per wrapper call (mutex_val / mutex_after, refcell_val / refcell_after); poisoning and re-entrant borrows are not modelled",
           "`__repr__` methods are external_body (formatting is not part of C19)"]


def _pre(text):
    # pyo3 attribute lines are dropped (line preserving)
    text = re.sub(r'(?m)^[ \t]*#\[(?:pyclass|pymethods|new|getter|staticmethod|classmethod|pyo3)\b[^\n]*\]?[ \t]*$', '', text)
    # __repr__ (string formatting) is not part of the unit: external_body with a blanked body (line preserving)
    def blank_repr(m):
        return m.group(1) + "#[verifier::external_body] fn __repr__(&self) -> String { unimplemented!()" + "\n" * m.group(2).count("\n") + m.group(3)
    text = re.sub(r'(?m)^([ \t]*)fn __repr__\(&self\) -> String \{(.*?)(\n    \}\n)', blank_repr, text, flags=re.S)
    # the pyo3 conversion bounds of the associated wrapper type are proc-macro glue
    text = text.replace("type Wrapper: for<'a> FromPyObject<'a> + for<'a> IntoPyObject<'a>;", "type Wrapper;")
    # PB6: a closure parameter pattern becomes a variable that is destructured first (Verus closures take variables only)
    text = text.replace("|(center_rotation, max_angle)| {", "|cr_ma| { let (center_rotation, max_angle) = cr_ma;")
    # PB1
    text = re.sub(r'\b(\w+)\.to_string\(\)', r'err_to_string(&\1)', text)
    # PB3 (write access) before PB2 (read access); a call chain may span lines: newlines are kept
    def keepnl(m, rep):
        return rep + "\n" * m.group(0).count("\n")
    text = re.sub(r'([\w.]+?)\s*\.lock\(\)\s*\.unwrap\(\)(\s*)\.set_longest_valid_segment_fraction\(',
                  lambda m: keepnl(m, "mutex_mut(&%s).set_longest_valid_segment_fraction(" % m.group(1)), text)
    text = re.sub(r'([\w.]+?)\s*\.lock\(\)\s*\.unwrap\(\)', lambda m: keepnl(m, "mutex_ref(&%s)" % m.group(1)), text)
    # PB5 / PB4
    text = re.sub(r'([\w.]+?)\s*\.borrow_mut\(\)', lambda m: keepnl(m, "refcell_mut(&%s)" % m.group(1)), text)
    text = re.sub(r'([\w.]+?)\s*\.borrow\(\)', lambda m: keepnl(m, "refcell_ref(&%s)" % m.group(1)), text)
    return text


def _blank_fn_body(text, name):
    """replace the body of `fn name` by unimplemented!() keeping the line count (the function is external_body in this unit)"""
    m = re.search(r'\bfn %s\b[^{;]*\{' % re.escape(name), text)
    if not m:
        return text
    o = m.end() - 1
    d, j = 0, o
    while j < len(text):
        if text[j] == '{':
            d += 1
        elif text[j] == '}':
            d -= 1
            if d == 0:
                break
        j += 1
    body = text[o + 1:j]
    return text[:o + 1] + " unimplemented!() " + "\n" * body.count("\n") + text[j:]


def _pre_path(text):
    text = _pre(text)
    for f in ("from_real_vector_states", "from_so2_states", "from_so3_states", "from_compound_states", "from_se2_states", "from_se3_states", "get_states"):
        text = _blank_fn_body(text, f)
    return text.replace("py: Python<'_>", "py: PyObject")      # only in the signature of the blanked get_states


PREPROCESS = {s: _pre for s in SOURCES}
PREPROCESS[B + "path.rs"] = _pre_path
ANNS = {s: [] for s in SOURCES}


def ann(f, scope, ens, cid, ret='r', tags=('C19',)):
    ANNS[B + f].append(Ann(scope, 'sig', "        ensures\n" + ens, cid, ret=ret, tags=list(tags)))
    FUNCTIONS.append(B + f + "::" + scope[3:])


# ---- states: constructors call the core constructor on the same arguments in the same order; getters return the core's fields
ann("real_vector_state.rs", 'fn new', "            *r.0 == core_rv_state_new(values@),      //@ rv_state.new [C19]\n", 'pb.rv_state.new')
ann("real_vector_state.rs", 'fn get_values', "            r@ == self.0.values@,      //@ rv_state.values [C19]\n", 'pb.rv_state.values')
ann("so2_state.rs", 'fn new', "            *r.0 == core_so2_state_new(value),      //@ so2_state.new [C19]\n", 'pb.so2_state.new')
ann("so2_state.rs", 'fn get_value', "            r == self.0.value,      //@ so2_state.value [C19]\n", 'pb.so2_state.value')
ann("so3_state.rs", 'fn new', "            *r.0 == core_so3_state_new(x, y, z, w),      //@ so3_state.new [C19]\n", 'pb.so3_state.new')
for c in "xyzw":
    ann("so3_state.rs", 'fn get_' + c, "            r == self.0.%s,      //@ so3_state.%s [C19]\n" % (c, c), 'pb.so3_state.' + c)
ann("so3_state.rs", 'fn identity', "            *r.0 == core_so3_state_new(0.0, 0.0, 0.0, 1.0),      //@ so3_state.identity [C19]\n", 'pb.so3_state.identity')
ann("se2_state.rs", 'fn new', "            *r.0 == core_se2_state_new(x, y, yaw),      //@ se2_state.new [C19]\n", 'pb.se2_state.new')
for k, c in enumerate(("x", "y", "yaw")):
    ann("se2_state.rs", 'fn get_' + c, "            r == core_se2_get(*self.0, %d),      //@ se2_state.%s [C19]\n" % (k, c), 'pb.se2_state.' + c)
ann("se2_state.rs", 'fn get_translation', "            *r.0 == core_se2_translation(*self.0),      //@ se2_state.translation [C19]\n", 'pb.se2_state.translation')
ann("se2_state.rs", 'fn get_rotation', "            *r.0 == core_se2_rotation(*self.0),      //@ se2_state.rotation [C19]\n", 'pb.se2_state.rotation')
ann("se3_state.rs", 'fn new', "            *r.0 == core_se3_state_new(x, y, z, *rotation.0),      //@ se3_state.new [C19]\n", 'pb.se3_state.new')
for k, c in enumerate(("x", "y", "z")):
    ann("se3_state.rs", 'fn get_' + c, "            r == core_se3_get(*self.0, %d),      //@ se3_state.%s [C19]\n" % (k, c), 'pb.se3_state.' + c)
ann("se3_state.rs", 'fn get_translation', "            *r.0 == core_se3_translation(*self.0),      //@ se3_state.translation [C19]\n", 'pb.se3_state.translation')
ann("se3_state.rs", 'fn get_rotation', "            *r.0 == core_se3_rotation(*self.0),      //@ se3_state.rotation [C19]\n", 'pb.se3_state.rotation')
# ---- state conversion used by the callback wrappers (C20) and by paths: wrapping and unwrapping are inverse and lossless
for k in range(1, 7):
    ann("py_state_convert.rs", 'fn to_py_wrapper#%d' % k, "            *r.0 == *self,      //@ convert.to_py#%d [C19]\n" % k, 'pb.convert.to_py%d' % k)
    ann("py_state_convert.rs", 'fn from_py_wrapper#%d' % k, "            r == *wrapper.0,      //@ convert.from_py#%d [C19]\n" % k, 'pb.convert.from_py%d' % k)
# ---- planner config
ann("planner.rs", 'fn new', "            r.0.seed == seed,      //@ config.seed [C19]\n", 'pb.config.new')
ann("planner.rs", 'fn get_seed', "            r == self.0.seed,      //@ config.get_seed [C19]\n", 'pb.config.get_seed')
# ---- spaces: ValueError exactly where the core constructor returns an error; distance / extent are the core's on the wrapped objects
SP = [("real_vector_state_space.rs", "core_rv_space_new(dimension, opt_seq(bounds))", "mutex_val(*r.unwrap().0)", "mutex_val(*self.0)", True),
      ("so2_state_space.rs", "core_so2_space_new(bounds)", "mutex_val(*r.unwrap().0)", "mutex_val(*self.0)", True),
      ("se2_state_space.rs", "core_se2_space_new(weight, opt_seq(bounds))", "refcell_val(*r.unwrap().0)", "refcell_val(*self.0)", False),
      ("se3_state_space.rs", "core_se3_space_new(weight, opt_seq(bounds))", "refcell_val(*r.unwrap().0)", "refcell_val(*self.0)", False)]
for f, corenew, rinner, sinner, full in SP:
    t = f[:-3]
    ann(f, 'fn new', ("            (r is Ok) == (%(c)s is Ok),      //@ %(t)s.new.ok_iff_core_ok [C19]\n"
                      "            r is Ok ==> %(ri)s == %(c)s.unwrap(),      //@ %(t)s.new.wraps_core_space [C19]\n"
                      "            r is Err ==> err_kind(r->Err_0) == 1,      //@ %(t)s.new.value_error [C19]\n") % dict(c=corenew, ri=rinner, t=t), 'pb.%s.new' % t)
    ann(f, 'fn distance', "            r == %s.core_dist(*state1.0, *state2.0),      //@ %s.distance [C19]\n" % (sinner, t), 'pb.%s.distance' % t)
    if full:
        ann(f, 'fn get_maximum_extent', "            r == %s.core_extent(),      //@ %s.extent [C19]\n" % (sinner, t), 'pb.%s.extent' % t)
        ann(f, 'fn set_longest_valid_segment_fraction', "            mutex_after(*old(self).0) == mutex_val(*old(self).0).core_set_lvsf(fraction), final(self).0 == old(self).0,      //@ %s.set_lvsf [C19]\n" % t, 'pb.%s.set_lvsf' % t, ret=None)
# SO(3): the cone centre is unwrapped first
ann("so3_state_space.rs", 'fn new', ("            (r is Ok) == (core_so3_space_new(so3_bounds(bounds)) is Ok),      //@ so3_state_space.new.ok_iff_core_ok [C19]\n"
                                     "            r is Ok ==> mutex_val(*r.unwrap().0) == core_so3_space_new(so3_bounds(bounds)).unwrap(),      //@ so3_state_space.new.wraps_core_space [C19]\n"
                                     "            r is Err ==> err_kind(r->Err_0) == 1,      //@ so3_state_space.new.value_error [C19]\n"), 'pb.so3_state_space.new')
ann("so3_state_space.rs", 'fn distance', "            r == mutex_val(*self.0).core_dist(*state1.0, *state2.0),      //@ so3_state_space.distance [C19]\n", 'pb.so3_state_space.distance')
ann("so3_state_space.rs", 'fn get_maximum_extent', "            r == mutex_val(*self.0).core_extent(),      //@ so3_state_space.extent [C19]\n", 'pb.so3_state_space.extent')
ann("so3_state_space.rs", 'fn set_longest_valid_segment_fraction', "            mutex_after(*old(self).0) == mutex_val(*old(self).0).core_set_lvsf(fraction), final(self).0 == old(self).0,      //@ so3_state_space.set_lvsf [C19]\n", 'pb.so3_state_space.set_lvsf', ret=None)
ANNS[B + "py_state_convert.rs"].append(Ann('top', '', r'''
pub struct PyCompoundState(pub Rc<OxmplCompoundState>);      // oxmpl-py/src/base/compound_state.rs (its methods use pyo3 list / extraction API: not in this unit)
''', 'pb.compound.vocab'))
ANNS[B + "so3_state_space.rs"].append(Ann('top', '', r'''
pub open spec fn so3_bounds(b: Option<(PySO3State, f64)>) -> Option<(OxmplSO3State, f64)> { match b { Some(p) => Some((*p.0.0, p.1)), None => None } }
''', 'pb.so3.vocab'))
# the closure of `bounds.map(|(c, a)| ..)` gets an explicit header (rule R12)
ANNS[B + "so3_state_space.rs"].append(Ann('fn new', r'closure /\|cr_ma\| /', r'''|cr_ma: (PySO3State, f64)| -> (o: (OxmplSO3State, f64))
            ensures o == (*cr_ma.0.0, cr_ma.1)''', 'pb.so3.closure', tags=['C19']))

# ---- problem definition: the core problem holds a snapshot of the wrapped space, exactly the wrapped start state and the goal object
ANNS[B + "problem_definition.rs"].append(Ann('top', '', r'''
pub struct PyCompoundStateSpace(pub Rc<RefCell<OxmplCompoundStateSpace>>);      // oxmpl-py/src/base/compound_state_space.rs (constructor uses pyo3 extraction API: not in this unit)
pub open spec fn pd_is<S, SP>(pd: Arc<ProblemDefinition<S, SP, PyGoal<S>>>, space: SP, start: S, goal: PyObject) -> bool {
    &&& *pd.space == space
    &&& pd.start_states@ == seq![start]
    &&& pd.goal.instance == goal
}
''', 'pb.pd.vocab'))
for fn_, var, sp in [("from_real_vector", "RealVector", "mutex_val(*space.0)"), ("from_so2", "SO2", "mutex_val(*space.0)"), ("from_so3", "SO3", "mutex_val(*space.0)"),
                     ("from_compound", "Compound", "refcell_val(*space.0)"), ("from_se2", "SE2", "refcell_val(*space.0)"), ("from_se3", "SE3", "refcell_val(*space.0)")]:
    ann("problem_definition.rs", 'fn ' + fn_, ("            r.0 is %(v)s,      //@ pd.%(f)s.variant [C19]\n"
                                               "            r.0 is %(v)s ==> *(r.0->%(v)s_0).space == %(sp)s,      //@ pd.%(f)s.space_snapshot [C19]\n"
                                               "            r.0 is %(v)s ==> (r.0->%(v)s_0).start_states@.len() == 1 && (r.0->%(v)s_0).start_states@[0] == *start_state.0,      //@ pd.%(f)s.start_state [C19]\n"
                                               "            r.0 is %(v)s ==> (r.0->%(v)s_0).goal.instance == goal,      //@ pd.%(f)s.goal_object [C19]\n") % dict(v=var, f=fn_, sp=sp), 'pb.pd.' + fn_)
# ---- path: conversions from a core path keep it as it is; __len__ is the number of states
for k, var in enumerate(("RealVector", "SO2", "SO3", "Compound", "SE2", "SE3"), 1):
    st = {"RealVector": "OxmplRealVectorState", "SO2": "OxmplSO2State", "SO3": "OxmplSO3State", "Compound": "OxmplCompoundState", "SE2": "OxmplSE2State", "SE3": "OxmplSE3State"}[var]
    ANNS[B + "path.rs"].append(Ann('impl#%d' % (k + 1), 'attr', (r'''impl vstd::std_specs::convert::FromSpecImpl<OxmplPath<%(st)s>> for PyPath {
    open spec fn obeys_from_spec() -> bool { true }
    open spec fn from_spec(path: OxmplPath<%(st)s>) -> PyPath { PyPath(PathVariant::%(v)s(path)) }      //@ path.from.%(v)s [C19]
}''' % dict(st=st, v=var)), 'pb.path.from%d' % k, tags=['C19']))
    FUNCTIONS.append(B + "path.rs::<PyPath as From<OxmplPath<%s>>>::from" % st)
for f in ("from_real_vector_states", "from_so2_states", "from_so3_states", "from_compound_states", "from_se2_states", "from_se3_states", "get_states"):
    ANNS[B + "path.rs"].append(Ann('fn ' + f, 'attr', '#[verifier::external_body]', 'pb.path.%s.ext' % f))
ann("path.rs", 'fn __len__', r'''            r == (match self.0 { PathVariant::RealVector(p) => p.0@.len(), PathVariant::SO2(p) => p.0@.len(), PathVariant::SO3(p) => p.0@.len(),
                                 PathVariant::Compound(p) => p.0@.len(), PathVariant::SE2(p) => p.0@.len(), PathVariant::SE3(p) => p.0@.len() }),      //@ path.len [C19]
''', 'pb.path.len')

EPILOGUE = r'''
proof fn canary_must_fail(a: int)
    requires a > 0,
{
    assert(false);   //@ canary []
}
'''


# ----------------------------------------------------------------------------------------------------------------- planner wrappers
VARIANTS = ["RealVector", "SO2", "SO3", "Compound", "SE2", "SE3"]


def planner_unit(key):
    """module attributes of the unit for oxmpl-py/src/geometric/<file>: the base sources (their annotations are re-checked) plus
    the planner wrapper under delegation contracts"""
    fname, label, nparams = {"rrt": ("rrt.rs", "RRT", 2), "rrt_connect": ("rrt_connect.rs", "RRTConnect", 2), "rrt_star": ("rrt_star.rs", "RRTStar", 3), "prm": ("prm.rs", "PRM", 2)}[key]
    G = "oxmpl-py/src/geometric/" + fname
    pnames = {"rrt": ["max_distance", "goal_bias"], "rrt_connect": ["max_distance", "goal_bias"], "rrt_star": ["max_distance", "goal_bias", "search_radius"], "prm": ["timeout", "connection_radius"]}[key]
    pref = {"rrt": "RrtFor", "rrt_connect": "RrtConnectFor", "rrt_star": "RrtStarFor", "prm": "PrmFor"}[key]
    newspec = "core_planner_new%d::<" % nparams + pref + "%%(v)s>(%s, seed)" % ", ".join("a%d" % i for i in range(nparams))
    aparams = ", ".join("a%d: f64" % i for i in range(nparams))
    def arms(fmt, wild="false"):
        return "\n".join("        " + fmt % dict(v=v) for v in VARIANTS) + ("\n        _ => %s," % wild if wild else "")
    vocab = """
// the names under which this file imports the core types (its `use` block is dropped by the extractor)
type RealVectorState = OxmplRealVectorState; type SO2State = OxmplSO2State; type SO3State = OxmplSO3State;
type CompoundState = OxmplCompoundState; type SE2State = OxmplSE2State; type SE3State = OxmplSE3State;
type RealVectorStateSpace = OxmplRealVectorStateSpace; type SO2StateSpace = OxmplSO2StateSpace; type SO3StateSpace = OxmplSO3StateSpace;
type CompoundStateSpace = OxmplCompoundStateSpace; type SE2StateSpace = OxmplSE2StateSpace; type SE3StateSpace = OxmplSE3StateSpace;
spec fn inv(v: PlannerVariant, pdv: ProblemDefinitionVariant) -> bool {
    match (v, pdv) {
%s
    }
}
/// the planner object is the core constructor's result for exactly these parameters, of the variant of the given problem, and the problem is kept
spec fn new_ok(v: PlannerVariant, pdv: ProblemDefinitionVariant, inp: ProblemDefinitionVariant, seed: Option<u64>, %s) -> bool {
    match (v, pdv, inp) {
%s
    }
}
/// setup hands the core planner the stored problem and a checker around exactly the given callback
spec fn setup_ok(v: PlannerVariant, pdv: ProblemDefinitionVariant, cb: PyObject) -> bool {
    match (v, pdv) {
%s
    }
}
/// solve returns the core planner's path unchanged, or raises Exception when the core returns an error; the timeout is passed on
spec fn solve_ok(v: PlannerVariant, t: f32, r: PyResult<PyPath>) -> bool {
    match v {
%s
    }
}
""" % (arms("(PlannerVariant::%(v)s(_), ProblemDefinitionVariant::%(v)s(_)) => true,"),
       aparams,
       arms("(PlannerVariant::%(v)s(p), ProblemDefinitionVariant::%(v)s(pd), ProblemDefinitionVariant::%(v)s(pd0)) => pd == pd0 && refcell_val(*p) == " + newspec + ","),
       arms("(PlannerVariant::%(v)s(p), ProblemDefinitionVariant::%(v)s(pd)) => refcell_after(*p) == core_setup::<" + pref + "%(v)s, _, _>(refcell_val(*p), pd, cb),"),
       arms("PlannerVariant::%(v)s(p) => { let o = core_solve::<" + pref + "%(v)s, %(v)sState>(refcell_val(*p), dur_f32(t)); refcell_after(*p) == o.1 && (match o.0 { Ok(path) => r is Ok && r->Ok_0.0 == PathVariant::%(v)s(path), Err(e) => r is Err && err_kind(r->Err_0) == 2 }) },", wild=None))
    anns = [Ann('top', '', vocab, 'pb.%s.vocab' % key)]
    anns.append(Ann('fn new', 'sig', ("        ensures\n            r is Ok,      //@ %(k)s.new.ok [C19]\n"
                                      "            r is Ok ==> new_ok(r->Ok_0.planner, r->Ok_0.pd, problem_definition.0, planner_config.0.seed, %(ps)s),      //@ %(k)s.new.core_constructor [C19]\n") % dict(k=key, ps=", ".join(pnames)),
                    'pb.%s.new' % key, ret='r', tags=['C19']))
    anns.append(Ann('fn setup', 'sig', ("        requires inv(old(self).planner, old(self).pd),\n        ensures\n            r is Ok,      //@ %(k)s.setup.ok [C19]\n"
                                        "            setup_ok(old(self).planner, old(self).pd, validity_callback),      //@ %(k)s.setup.core_setup [C19]\n"
                                        "            final(self).planner == old(self).planner, final(self).pd == old(self).pd,\n") % dict(k=key), 'pb.%s.setup' % key, ret='r', tags=['C19']))
    anns.append(Ann('fn solve', 'sig', ("        ensures\n            solve_ok(old(self).planner, timeout_secs, r),      //@ %(k)s.solve.core_solve [C19]\n"
                                        "            final(self).planner == old(self).planner, final(self).pd == old(self).pd,\n") % dict(k=key), 'pb.%s.solve' % key, ret='r', tags=['C19']))
    fns = [G + "::Py%s::%s" % (label, f) for f in ("new", "setup", "solve")]
    if key == "prm":
        anns[0] = Ann('top', '', vocab + """
spec fn construct_ok(v: PlannerVariant, r: PyResult<()>) -> bool {
    match v {
%s
    }
}
""" % arms("PlannerVariant::%(v)s(p) => { let o = core_construct::<" + pref + "%(v)s>(refcell_val(*p)); refcell_after(*p) == o.1 && (r is Ok) == (o.0 is Ok) && (r is Err ==> err_kind(r->Err_0) == 2) },", wild=None), 'pb.prm.vocab')
        anns.append(Ann('fn construct_roadmap', 'sig', "        ensures\n            construct_ok(old(self).planner, r),      //@ prm.construct.core_construct [C19]\n            final(self).planner == old(self).planner, final(self).pd == old(self).pd,\n", 'pb.prm.construct', ret='r', tags=['C19']))
        fns.append(G + "::PyPRM::construct_roadmap")
    # the base files are re-checked in this unit (the planner wrapper needs their types) but their clauses are counted once, in V-pybind
    A2 = {f: [Ann(a.scope, a.pos, a.text.replace("[C19]", "[]"), a.id, tags=(), ret=a.ret, label=a.label) for a in lst] for f, lst in ANNS.items()}
    A2[G] = anns
    P2 = dict(PREPROCESS)
    P2[G] = _pre
    return dict(NAME="V-pybind-" + key, SOURCES=SOURCES + [G], PRELUDE=PRELUDE, SERVES=["C19"], FUNCTIONS=fns, TRUSTED=TRUSTED + ["the wrapper struct invariant `planner and problem have the same variant` is established by the only constructor (fields are private) and is a precondition of setup"],
                PREPROCESS=P2, ANNS=A2, EPILOGUE=EPILOGUE)
