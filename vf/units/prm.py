"""Unit V-prm: oxmpl/src/geometric/planners/prm.rs under contract."""
from extract import Ann

NAME = "V-prm"
SRC = "oxmpl/src/geometric/planners/prm.rs"
SOURCES = [SRC]
PRELUDE = ["core.rs"]
SERVES = ["C01", "C02", "C03", "C04", "C05", "C06", "C07", "C08", "C18"]
FUNCTIONS = [SRC + "::" + f for f in ("PRM::new", "PRM::set_problem_definition", "PRM::construct_roadmap", "PRM::check_motion", "PRM::reconstruct_path",
                                      "<PRM as Planner>::setup", "<PRM as Planner>::solve")]
TRUSTED = ["verus/prelude/core.rs: trait contracts, std/rand/clock stubs, EXACT f64 axioms",
           "helpers f64_ceil_to_usize / usize_to_f64 / vec_extend / vecdeque_from_vec / vec_of_false (external_body, rules R1/R2/R6b/R7/R11)",
           "vstd HashMap<usize,_> model (obeys_key_model::<usize>, RandomState builds valid hashers), <[T]>::contains specification"]

A = []


def ann(*a, **k):
    A.append(Ann(*a, **k))


VOCAB = r'''
// ---- roadmap vocabulary (annotation text; not repo code)
spec fn rm_e<S: State>(rm: Seq<Node<S>>, i: int, k: int) -> int { rm[i].edges@[k] as int }

/// adjacency lists are in range, have no self-links and no duplicates, and are symmetric
#[verifier::opaque]
spec fn rm_graph<S: State>(rm: Seq<Node<S>>) -> bool {
    &&& forall|i: int, k: int| 0 <= i < rm.len() && 0 <= k < rm[i].edges@.len() ==> 0 <= #[trigger] rm_e(rm, i, k) < rm.len() && rm_e(rm, i, k) != i
    &&& forall|i: int, k1: int, k2: int| 0 <= i < rm.len() && 0 <= k1 < k2 < rm[i].edges@.len() ==> #[trigger] rm_e(rm, i, k1) != #[trigger] rm_e(rm, i, k2)
    &&& forall|i: int, k: int| 0 <= i < rm.len() && 0 <= k < rm[i].edges@.len() ==> rm[#[trigger] rm_e(rm, i, k)].edges@.contains(i as usize)
}
#[verifier::opaque]
spec fn rm_valid<S: State>(rm: Seq<Node<S>>, vc: &dyn StateValidityChecker<S>) -> bool {
    forall|i: int| 0 <= i < rm.len() ==> vc.valid(&(#[trigger] rm[i]).state)
}
#[verifier::opaque]
spec fn rm_checked<S: State, SP: StateSpace<StateType = S>>(rm: Seq<Node<S>>, sp: &SP, vc: &dyn StateValidityChecker<S>) -> bool {
    forall|i: int, k: int| 0 <= i < rm.len() && 0 <= k < rm[i].edges@.len() ==> 0 <= #[trigger] rm_e(rm, i, k) < rm.len() && seg_checked(sp, vc, &rm[i].state, &rm[rm_e(rm, i, k)].state)
}
#[verifier::opaque]
spec fn rm_edges_le<S: State, SP: StateSpace<StateType = S>>(rm: Seq<Node<S>>, sp: &SP, m: real) -> bool {
    forall|i: int, k: int| 0 <= i < rm.len() && 0 <= k < rm[i].edges@.len() ==> 0 <= #[trigger] rm_e(rm, i, k) < rm.len() &&
        (rv(sp.dist_spec(&rm[i].state, &rm[rm_e(rm, i, k)].state)) <= m || rv(sp.dist_spec(&rm[rm_e(rm, i, k)].state, &rm[i].state)) <= m)
}
#[verifier::opaque]
spec fn rm_in_bounds<S: State, SP: StateSpace<StateType = S>>(rm: Seq<Node<S>>, sp: &SP) -> bool {
    forall|i: int| 0 <= i < rm.len() ==> sp.in_bounds_spec(&(#[trigger] rm[i]).state)
}
spec fn rm_states<S: State>(rm: Seq<Node<S>>) -> Seq<S> { Seq::new(rm.len(), |i: int| rm[i].state) }

/// the list of link targets computed for a new milestone q against roadmap g, after scanning g[0..upto]:
/// strictly increasing indices below `upto`, each closer than the radius and joined by a checked motion
#[verifier::opaque]
spec fn link_list<S: State, SP: StateSpace<StateType = S>>(g: Seq<Node<S>>, sp: &SP, vc: &dyn StateValidityChecker<S>, q: &S, radius: f64, e: Seq<usize>, upto: int) -> bool {
    &&& forall|k: int| 0 <= k < e.len() ==> 0 <= (#[trigger] e[k]) < upto
    &&& forall|k1: int, k2: int| 0 <= k1 < k2 < e.len() ==> (#[trigger] e[k1]) < (#[trigger] e[k2])
    &&& forall|k: int| 0 <= k < e.len() ==> flt(sp.dist_spec(q, &g[(#[trigger] e[k]) as int].state), radius) && motion_checked(sp, vc, q, &g[e[k] as int].state)
}
proof fn lemma_link_empty<S: State, SP: StateSpace<StateType = S>>(g: Seq<Node<S>>, sp: &SP, vc: &dyn StateValidityChecker<S>, q: &S, radius: f64)
    ensures link_list(g, sp, vc, q, radius, Seq::<usize>::empty(), 0)
{ reveal(link_list); }
proof fn lemma_link_step<S: State, SP: StateSpace<StateType = S>>(g: Seq<Node<S>>, sp: &SP, vc: &dyn StateValidityChecker<S>, q: &S, radius: f64, e: Seq<usize>, i: usize)
    requires link_list(g, sp, vc, q, radius, e, i as int), i < g.len()
    ensures
        link_list(g, sp, vc, q, radius, e, i + 1),
        flt(sp.dist_spec(q, &g[i as int].state), radius) && motion_checked(sp, vc, q, &g[i as int].state) ==> link_list(g, sp, vc, q, radius, e.push(i), i + 1),
{ reveal(link_list); }

/// the roadmap after milestone n = g.len() (state qs, link list e) was pushed and the back-edges of e[0..j] were added
#[verifier::opaque]
spec fn rm_linked<S: State>(g: Seq<Node<S>>, rm: Seq<Node<S>>, qs: S, e: Seq<usize>, j: int) -> bool {
    &&& rm.len() == g.len() + 1
    &&& rm[g.len() as int].state == qs
    &&& rm[g.len() as int].edges@ == e
    &&& forall|i: int| 0 <= i < g.len() ==> (#[trigger] rm[i]).state == g[i].state
    &&& forall|i: int| 0 <= i < g.len() ==> (#[trigger] rm[i]).edges@ == (if e.take(j).contains(i as usize) { g[i].edges@.push(g.len() as usize) } else { g[i].edges@ })
}
proof fn lemma_linked_start<S: State>(g: Seq<Node<S>>, rm: Seq<Node<S>>, qs: S, e: Seq<usize>)
    requires rm.len() == g.len() + 1, rm =~= g.push(rm[g.len() as int]), rm[g.len() as int].state == qs, rm[g.len() as int].edges@ == e
    ensures rm_linked(g, rm, qs, e, 0)
{
    reveal(rm_linked);
    assert(e.take(0) =~= Seq::<usize>::empty());
    assert forall|i: int| 0 <= i < g.len() implies (#[trigger] rm[i]).edges@ == (if e.take(0).contains(i as usize) { g[i].edges@.push(g.len() as usize) } else { g[i].edges@ }) by {
        assert(rm[i] == g[i]);
    }
}
/// one back-edge: rm1 is rm0 with g.len() appended to the adjacency list of e[j]
proof fn lemma_linked_step<S: State, SP: StateSpace<StateType = S>>(g: Seq<Node<S>>, rm0: Seq<Node<S>>, rm1: Seq<Node<S>>, qs: S, e: Seq<usize>, j: int, sp: &SP, vc: &dyn StateValidityChecker<S>, q: &S, radius: f64)
    requires rm_linked(g, rm0, qs, e, j), 0 <= j < e.len(), link_list(g, sp, vc, q, radius, e, g.len() as int), g.len() < usize::MAX,
        rm1.len() == rm0.len(),
        rm1[e[j] as int].state == rm0[e[j] as int].state,
        rm1[e[j] as int].edges@ == rm0[e[j] as int].edges@.push(g.len() as usize),
        forall|i: int| 0 <= i < rm0.len() && i != e[j] ==> rm1[i] == rm0[i],
    ensures rm_linked(g, rm1, qs, e, j + 1)
{
    reveal(rm_linked); reveal(link_list);
    let n = g.len() as int;
    let t0 = e.take(j);
    let t1 = e.take(j + 1);
    assert(t1 =~= t0.push(e[j]));
    assert(!t0.contains(e[j])) by {
        if t0.contains(e[j]) { let k = choose|k: int| 0 <= k < t0.len() && t0[k] == e[j]; assert(e[k] < e[j]); }
    }
    assert forall|i: int| 0 <= i < g.len() implies (#[trigger] rm1[i]).edges@ == (if t1.contains(i as usize) { g[i].edges@.push(n as usize) } else { g[i].edges@ }) by {
        if i == e[j] as int {
            assert(t1[j] == e[j]);
            assert(t1.contains(i as usize));
        } else {
            assert(rm1[i] == rm0[i]);
            if t0.contains(i as usize) { let k = choose|k: int| 0 <= k < t0.len() && t0[k] == i as usize; assert(t1[k] == i as usize); }
            if t1.contains(i as usize) { let k = choose|k: int| 0 <= k < t1.len() && t1[k] == i as usize; assert(t1[j] == e[j]); assert(k < j); assert(t0[k] == i as usize); }
        }
    }
    assert forall|i: int| 0 <= i < g.len() implies (#[trigger] rm1[i]).state == g[i].state by {
        if i != e[j] as int { assert(rm1[i] == rm0[i]); }
    }
}
/// when all back-edges are in, every roadmap invariant holds again
proof fn lemma_linked_done<S: State, SP: StateSpace<StateType = S>>(g: Seq<Node<S>>, rm: Seq<Node<S>>, qs: S, e: Seq<usize>, sp: &SP, vc: &dyn StateValidityChecker<S>, radius: f64)
    requires rm_linked(g, rm, qs, e, e.len() as int), link_list(g, sp, vc, &qs, radius, e, g.len() as int), rm_graph(g), g.len() < usize::MAX
    ensures
        rm_graph(rm),
        rm_states(rm) =~= rm_states(g).push(qs),
        rm_valid(g, vc) && vc.valid(&qs) ==> rm_valid(rm, vc),
        rm_checked(g, sp, vc) ==> rm_checked(rm, sp, vc),
        forall|m: real| rm_edges_le(g, sp, m) && rv(radius) <= m ==> #[trigger] rm_edges_le(rm, sp, m),
        rm_in_bounds(g, sp) && sp.in_bounds_spec(&qs) ==> rm_in_bounds(rm, sp),
{
    reveal(rm_linked); reveal(link_list); reveal(rm_graph); reveal(rm_valid); reveal(rm_checked); reveal(rm_edges_le); reveal(rm_in_bounds);
    let n = g.len() as int;
    assert(e.take(e.len() as int) =~= e);
    // shape of every adjacency list of rm
    assert forall|i: int, k: int| 0 <= i < rm.len() && 0 <= k < rm[i].edges@.len() implies
        0 <= #[trigger] rm_e(rm, i, k) < rm.len() && rm_e(rm, i, k) != i && rm[rm_e(rm, i, k)].edges@.contains(i as usize)
        && seg_checked_or_new(g, rm, sp, vc, i, k) by
    {
        if i == n {
            let t = e[k] as int;
            assert(rm_e(rm, i, k) == t);
            assert(e.contains(e[k]));
            assert(rm[t].edges@ == g[t].edges@.push(n as usize));
            assert(rm[t].edges@[g[t].edges@.len() as int] == n as usize);
        } else if k < g[i].edges@.len() {
            assert(rm_e(rm, i, k) == rm_e(g, i, k));
            let t = rm_e(g, i, k);
            assert(g[t].edges@.contains(i as usize));
            let kk = choose|kk: int| 0 <= kk < g[t].edges@.len() && g[t].edges@[kk] == i as usize;
            assert(rm[t].edges@[kk] == i as usize);
        } else {
            // the appended back-edge i -> n
            assert(e.contains(i as usize));
            assert(rm_e(rm, i, k) == n);
            let kk = choose|kk: int| 0 <= kk < e.len() && e[kk] == i as usize;
            assert(rm[n].edges@[kk] == i as usize);
        }
    }
    assert forall|i: int, k1: int, k2: int| 0 <= i < rm.len() && 0 <= k1 < k2 < rm[i].edges@.len() implies #[trigger] rm_e(rm, i, k1) != #[trigger] rm_e(rm, i, k2) by {
        if i == n {
            assert(e[k1] < e[k2]);
        } else if k2 < g[i].edges@.len() {
            assert(rm_e(rm, i, k1) == rm_e(g, i, k1));
            assert(rm_e(rm, i, k2) == rm_e(g, i, k2));
        } else {
            assert(rm_e(rm, i, k2) == n);
            assert(rm_e(rm, i, k1) == rm_e(g, i, k1));
            assert(rm_e(g, i, k1) < g.len());
        }
    }
    if rm_checked(g, sp, vc) {
        assert forall|i: int, k: int| 0 <= i < rm.len() && 0 <= k < rm[i].edges@.len() implies 0 <= #[trigger] rm_e(rm, i, k) < rm.len() && seg_checked(sp, vc, &rm[i].state, &rm[rm_e(rm, i, k)].state) by {
            assert(seg_checked_or_new(g, rm, sp, vc, i, k));
            if i == n {
                let t = e[k] as int;
                assert(motion_checked(sp, vc, &qs, &g[t].state));
            } else if k < g[i].edges@.len() {
                assert(rm_e(rm, i, k) == rm_e(g, i, k));
            } else {
                let kk = choose|kk: int| 0 <= kk < e.len() && e[kk] == i as usize;
                assert(e.contains(i as usize));
                assert(motion_checked(sp, vc, &qs, &g[e[kk] as int].state));
            }
        }
    }
    assert forall|m: real| rm_edges_le(g, sp, m) && rv(radius) <= m implies #[trigger] rm_edges_le(rm, sp, m) by {
        assert forall|i: int, k: int| 0 <= i < rm.len() && 0 <= k < rm[i].edges@.len() implies 0 <= #[trigger] rm_e(rm, i, k) < rm.len() &&
            (rv(sp.dist_spec(&rm[i].state, &rm[rm_e(rm, i, k)].state)) <= m || rv(sp.dist_spec(&rm[rm_e(rm, i, k)].state, &rm[i].state)) <= m) by {
            assert(seg_checked_or_new(g, rm, sp, vc, i, k));
            if i == n {
                let t = e[k] as int;
                ax_rv_cmp(sp.dist_spec(&qs, &g[t].state), radius);
            } else if k < g[i].edges@.len() {
                assert(rm_e(rm, i, k) == rm_e(g, i, k));
            } else {
                let kk = choose|kk: int| 0 <= kk < e.len() && e[kk] == i as usize;
                assert(e.contains(i as usize));
                ax_rv_cmp(sp.dist_spec(&qs, &g[e[kk] as int].state), radius);
            }
        }
    }
}
/// helper used only to give the big case split above a single trigger term
spec fn seg_checked_or_new<S: State, SP: StateSpace<StateType = S>>(g: Seq<Node<S>>, rm: Seq<Node<S>>, sp: &SP, vc: &dyn StateValidityChecker<S>, i: int, k: int) -> bool { true }

proof fn lemma_rm_empty<S: State, SP: StateSpace<StateType = S>>(rm: Seq<Node<S>>, sp: &SP, vc: &dyn StateValidityChecker<S>)
    requires rm.len() == 0
    ensures rm_graph(rm), rm_valid(rm, vc), rm_checked(rm, sp, vc), forall|m: real| #[trigger] rm_edges_le(rm, sp, m), rm_in_bounds(rm, sp)
{ reveal(rm_graph); reveal(rm_valid); reveal(rm_checked); reveal(rm_edges_le); reveal(rm_in_bounds); }
proof fn lemma_rm_empty_any<S: State, SP: StateSpace<StateType = S>>(rm: Seq<Node<S>>)
    requires rm.len() == 0
    ensures rm_graph(rm)
{ reveal(rm_graph); }
proof fn lemma_rm_valid_at<S: State>(rm: Seq<Node<S>>, vc: &dyn StateValidityChecker<S>, i: int)
    requires rm_valid(rm, vc), 0 <= i < rm.len()
    ensures vc.valid(&rm[i].state)
{ reveal(rm_valid); }

// ---- BFS vocabulary
/// parent_map describes a forest over roadmap indices rooted at start connections; `depth` is a ghost rank
#[verifier::opaque]
spec fn pm_ok<S: State>(pm: Map<usize, Option<usize>>, depth: Map<usize, nat>, rm: Seq<Node<S>>, sc: Seq<usize>) -> bool {
    forall|i: usize| #[trigger] pm.contains_key(i) ==> {
        &&& (i as int) < rm.len()
        &&& depth.contains_key(i)
        &&& match pm[i] {
            None => sc.contains(i) && depth[i] == 0,
            Some(j) => pm.contains_key(j) && (j as int) < rm.len() && rm[j as int].edges@.contains(i) && depth.contains_key(j) && depth[i] == depth[j] + 1,
        }
    }
}
/// indices from i up to a start connection
spec fn pm_up(pm: Map<usize, Option<usize>>, depth: Map<usize, nat>, i: usize) -> Seq<usize>
    decreases (if depth.contains_key(i) { depth[i] } else { 0 })
{
    if pm.contains_key(i) && pm[i] is Some && depth.contains_key(i) && depth.contains_key(pm[i]->Some_0) && depth[pm[i]->Some_0] < depth[i] {
        seq![i] + pm_up(pm, depth, pm[i]->Some_0)
    } else {
        seq![i]
    }
}
spec fn idx_states<S: State>(rm: Seq<Node<S>>, ix: Seq<usize>) -> Seq<S> { Seq::new(ix.len(), |k: int| rm[ix[k] as int].state) }

/// the chain from i ends at a start connection, stays in range, and consecutive elements are roadmap edges
proof fn lemma_pm_up<S: State>(pm: Map<usize, Option<usize>>, depth: Map<usize, nat>, rm: Seq<Node<S>>, sc: Seq<usize>, i: usize)
    requires pm_ok(pm, depth, rm, sc), pm.contains_key(i)
    ensures
        pm_up(pm, depth, i).len() >= 1, pm_up(pm, depth, i)[0] == i,
        sc.contains(pm_up(pm, depth, i).last()),
        forall|k: int| 0 <= k < pm_up(pm, depth, i).len() ==> (#[trigger] pm_up(pm, depth, i)[k] as int) < rm.len(),
        forall|k: int| #![trigger pm_up(pm, depth, i)[k]] 0 <= k < pm_up(pm, depth, i).len() - 1 ==>
            rm[pm_up(pm, depth, i)[k + 1] as int].edges@.contains(pm_up(pm, depth, i)[k]),
    decreases depth[i]
{
    reveal(pm_ok);
    if pm[i] is Some {
        let j = pm[i]->Some_0;
        lemma_pm_up(pm, depth, rm, sc, j);
        let u = pm_up(pm, depth, i);
        let v = pm_up(pm, depth, j);
        assert(u =~= seq![i] + v);
        assert forall|k: int| 0 <= k < u.len() implies (#[trigger] u[k] as int) < rm.len() by { if k > 0 { assert(u[k] == v[k - 1]); } }
        assert forall|k: int| #![trigger u[k]] 0 <= k < u.len() - 1 implies rm[u[k + 1] as int].edges@.contains(u[k]) by {
            if k == 0 { assert(u[1] == v[0]); } else { assert(u[k + 1] == v[k]); assert(u[k] == v[k - 1]); }
        }
        assert(u.last() == v.last());
    }
}

/// the chain does not depend on which rank witnesses well-foundedness
proof fn lemma_pm_up_unique<S: State>(pm: Map<usize, Option<usize>>, d1: Map<usize, nat>, d2: Map<usize, nat>, rm: Seq<Node<S>>, sc1: Seq<usize>, sc2: Seq<usize>, i: usize)
    requires pm_ok(pm, d1, rm, sc1), pm_ok(pm, d2, rm, sc2), pm.contains_key(i)
    ensures pm_up(pm, d1, i) == pm_up(pm, d2, i)
    decreases d1[i]
{
    reveal(pm_ok);
    if pm[i] is Some { lemma_pm_up_unique(pm, d1, d2, rm, sc1, sc2, pm[i]->Some_0); }
}
/// the path PRM returns for goal index gi: start state, then the chain from a start connection to gi
spec fn prm_path<S: State>(start: S, rm: Seq<Node<S>>, pm: Map<usize, Option<usize>>, depth: Map<usize, nat>, gi: usize) -> Seq<S> {
    seq![start] + idx_states(rm, pm_up(pm, depth, gi)).reverse()
}
spec fn sc_ok<S: State, SP: StateSpace<StateType = S>>(sc: Seq<usize>, rm: Seq<Node<S>>, sp: &SP, vc: &dyn StateValidityChecker<S>, start: &S, radius: f64, upto: int) -> bool {
    &&& forall|k: int| 0 <= k < sc.len() ==> 0 <= (#[trigger] sc[k]) < upto
    &&& forall|k: int| 0 <= k < sc.len() ==> flt(sp.dist_spec(start, &rm[(#[trigger] sc[k]) as int].state), radius) && motion_checked(sp, vc, start, &rm[sc[k] as int].state)
}
spec fn path_props_prm<S: State, SP: StateSpace<StateType = S>>(p: Seq<S>, sp: &SP, vc: &dyn StateValidityChecker<S>, first: S, last: S) -> bool {
    &&& p.len() >= 2
    &&& p[0] == first
    &&& p[p.len() - 1] == last
    &&& forall|k: int| 0 <= k < p.len() ==> vc.valid(&#[trigger] p[k])
    &&& forall|k: int| #![trigger p[k]] 0 <= k < p.len() - 1 ==> seg_checked(sp, vc, &p[k], &p[k + 1])
}
proof fn lemma_prm_path<S: State, SP: StateSpace<StateType = S>>(start: S, rm: Seq<Node<S>>, pm: Map<usize, Option<usize>>, depth: Map<usize, nat>, sc: Seq<usize>, gi: usize,
        sp: &SP, vc: &dyn StateValidityChecker<S>, radius: f64, m: real)
    requires pm_ok(pm, depth, rm, sc), pm.contains_key(gi), sc_ok(sc, rm, sp, vc, &start, radius, rm.len() as int),
        rm_graph(rm), rm_valid(rm, vc), rm_checked(rm, sp, vc), vc.valid(&start)
    ensures
        path_props_prm(prm_path(start, rm, pm, depth, gi), sp, vc, start, rm[gi as int].state),
        (rm_edges_le(rm, sp, m) && metric_ok(sp) && rv(radius) <= m) ==> forall|k: int| #![trigger prm_path(start, rm, pm, depth, gi)[k]] 0 <= k < prm_path(start, rm, pm, depth, gi).len() - 1 ==>
            rv(sp.dist_spec(&prm_path(start, rm, pm, depth, gi)[k], &prm_path(start, rm, pm, depth, gi)[k + 1])) <= m,
        (rm_in_bounds(rm, sp) && sp.in_bounds_spec(&start)) ==> forall|k: int| 0 <= k < prm_path(start, rm, pm, depth, gi).len() ==> sp.in_bounds_spec(&#[trigger] prm_path(start, rm, pm, depth, gi)[k]),
{
    reveal(rm_graph); reveal(rm_valid); reveal(rm_checked); reveal(rm_edges_le); reveal(rm_in_bounds);
    lemma_pm_up(pm, depth, rm, sc, gi);
    let u = pm_up(pm, depth, gi);
    let us = idx_states(rm, u);
    let r = us.reverse();
    let p = prm_path(start, rm, pm, depth, gi);
    assert(p.len() == u.len() + 1);
    assert forall|k: int| 1 <= k < p.len() implies p[k] == rm[u[u.len() - k] as int].state by {
        assert(p[k] == r[k - 1]);
        assert(r[k - 1] == us[us.len() - 1 - (k - 1)]);
    }
    assert(p[0] == start);
    assert(p[p.len() - 1] == rm[u[0] as int].state);
    assert forall|k: int| 0 <= k < p.len() implies vc.valid(&#[trigger] p[k]) by {
        if k >= 1 { assert(p[k] == rm[u[u.len() - k] as int].state); assert((u[u.len() - k] as int) < rm.len()); }
    }
    // first segment: start -> a start connection (the last chain element)
    let root = u.last();
    assert(sc.contains(root));
    let kr = choose|kr: int| 0 <= kr < sc.len() && sc[kr] == root;
    assert(motion_checked(sp, vc, &start, &rm[sc[kr] as int].state));
    assert(p[1] == rm[u[u.len() - 1] as int].state);
    assert forall|k: int| #![trigger p[k]] 0 <= k < p.len() - 1 implies seg_checked(sp, vc, &p[k], &p[k + 1]) by {
        if k == 0 {
        } else {
            // p[k] = rm[u[len-k]], p[k+1] = rm[u[len-k-1]];  u[len-k-1] is a child of u[len-k]
            let a = u.len() - k - 1;
            assert(p[k] == rm[u[a + 1] as int].state);
            assert(p[k + 1] == rm[u[a] as int].state);
            assert(rm[u[a + 1] as int].edges@.contains(u[a]));
            let ed = rm[u[a + 1] as int].edges@; let kk = choose|kk: int| 0 <= kk < ed.len() && ed[kk] == u[a];
            assert(rm_e(rm, u[a + 1] as int, kk) == u[a] as int);
        }
    }
    if rm_edges_le(rm, sp, m) && metric_ok(sp) && rv(radius) <= m {
        reveal(metric_ok);
        assert forall|k: int| #![trigger p[k]] 0 <= k < p.len() - 1 implies rv(sp.dist_spec(&p[k], &p[k + 1])) <= m by {
            if k == 0 {
                ax_rv_cmp(sp.dist_spec(&start, &rm[sc[kr] as int].state), radius);
            } else {
                let a = u.len() - k - 1;
                assert(p[k] == rm[u[a + 1] as int].state);
                assert(p[k + 1] == rm[u[a] as int].state);
                assert(rm[u[a + 1] as int].edges@.contains(u[a]));
                let ed = rm[u[a + 1] as int].edges@; let kk = choose|kk: int| 0 <= kk < ed.len() && ed[kk] == u[a];
                assert(rm_e(rm, u[a + 1] as int, kk) == u[a] as int);
                assert(sp.dist_spec(&p[k], &p[k + 1]) == sp.dist_spec(&p[k + 1], &p[k]));
            }
        }
    }
    if rm_in_bounds(rm, sp) && sp.in_bounds_spec(&start) {
        assert forall|k: int| 0 <= k < p.len() implies sp.in_bounds_spec(&#[trigger] p[k]) by {
            if k >= 1 { assert(p[k] == rm[u[u.len() - k] as int].state); assert((u[u.len() - k] as int) < rm.len()); }
        }
    }
}
'''

VOCAB += r'''
// ---- BFS step lemmas
proof fn lemma_pm_seed<S: State>(pm: Map<usize, Option<usize>>, depth: Map<usize, nat>, rm: Seq<Node<S>>, sc: Seq<usize>, i: usize)
    requires pm_ok(pm, depth, rm, sc), forall|k: usize| #[trigger] pm.contains_key(k) ==> pm[k] is None, sc.contains(i), (i as int) < rm.len()
    ensures pm_ok(pm.insert(i, None), depth.insert(i, 0), rm, sc), forall|k: usize| #[trigger] pm.insert(i, None).contains_key(k) ==> pm.insert(i, None)[k] is None
{ reveal(pm_ok); }
proof fn lemma_pm_insert<S: State>(pm: Map<usize, Option<usize>>, depth: Map<usize, nat>, rm: Seq<Node<S>>, sc: Seq<usize>, n: usize, cur: usize)
    requires pm_ok(pm, depth, rm, sc), !pm.contains_key(n), pm.contains_key(cur), (n as int) < rm.len(), (cur as int) < rm.len(), rm[cur as int].edges@.contains(n)
    ensures pm_ok(pm.insert(n, Some(cur)), depth.insert(n, depth[cur] + 1), rm, sc)
{
    reveal(pm_ok);
    let pm2 = pm.insert(n, Some(cur));
    let d2 = depth.insert(n, depth[cur] + 1);
    assert forall|i: usize| #[trigger] pm2.contains_key(i) implies {
        &&& (i as int) < rm.len()
        &&& d2.contains_key(i)
        &&& match pm2[i] {
            None => sc.contains(i) && d2[i] == 0,
            Some(j) => pm2.contains_key(j) && (j as int) < rm.len() && rm[j as int].edges@.contains(i) && d2.contains_key(j) && d2[i] == d2[j] + 1,
        }
    } by {
        if i != n { assert(pm.contains_key(i)); }
    }
}
proof fn lemma_pm_empty<S: State>(rm: Seq<Node<S>>, sc: Seq<usize>)
    ensures pm_ok(Map::<usize, Option<usize>>::empty(), Map::<usize, nat>::empty(), rm, sc)
{ reveal(pm_ok); }
proof fn lemma_rm_edge_in_range<S: State>(rm: Seq<Node<S>>, i: int, k: int)
    requires rm_graph(rm), 0 <= i < rm.len(), 0 <= k < rm[i].edges@.len()
    ensures 0 <= rm[i].edges@[k] < rm.len(), rm[i].edges@.contains(rm[i].edges@[k])
{ reveal(rm_graph); assert(rm_e(rm, i, k) == rm[i].edges@[k] as int); }
'''

VOCAB += r'''
// ---- query completeness (C18): NoSolutionFound only if no goal milestone is reachable from a start connection
spec fn start_conn<S: State, SP: StateSpace<StateType = S>>(rm: Seq<Node<S>>, sp: &SP, vc: &dyn StateValidityChecker<S>, start: &S, radius: f64, i: int) -> bool {
    0 <= i < rm.len() && flt(sp.dist_spec(start, &rm[i].state), radius) && motion_checked(sp, vc, start, &rm[i].state)
}
/// a walk on the roadmap that begins at a milestone the start connects to
spec fn q_walk<S: State, SP: StateSpace<StateType = S>>(rm: Seq<Node<S>>, sp: &SP, vc: &dyn StateValidityChecker<S>, start: &S, radius: f64, w: Seq<int>) -> bool {
    &&& w.len() >= 1
    &&& start_conn(rm, sp, vc, start, radius, w[0])
    &&& forall|k: int| 0 <= k < w.len() ==> 0 <= (#[trigger] w[k]) < rm.len()
    &&& forall|k: int| #![trigger w[k]] 0 <= k < w.len() - 1 ==> rm[w[k]].edges@.contains(w[k + 1] as usize)
}
/// no goal milestone is reachable
spec fn no_reachable_goal<S: State, SP: StateSpace<StateType = S>, G: Goal<S>>(rm: Seq<Node<S>>, sp: &SP, vc: &dyn StateValidityChecker<S>, start: &S, radius: f64, goal: &G) -> bool {
    forall|w: Seq<int>| #[trigger] q_walk(rm, sp, vc, start, radius, w) ==> !goal.sat(&rm[w[w.len() - 1]].state)
}
/// BFS bookkeeping: every finished node is not a goal and all its neighbours are visited
#[verifier::opaque]
spec fn bfs_done_ok<S: State, G: Goal<S>>(rm: Seq<Node<S>>, goal: &G, visited: Seq<bool>, done: Set<int>) -> bool {
    forall|i: int| #[trigger] done.contains(i) ==> {
        &&& 0 <= i < rm.len()
        &&& !goal.sat(&rm[i].state)
        &&& forall|k: int| 0 <= k < rm[i].edges@.len() ==> 0 <= (#[trigger] rm[i].edges@[k]) < visited.len() && visited[rm[i].edges@[k] as int]
    }
}
proof fn lemma_done_empty<S: State, G: Goal<S>>(rm: Seq<Node<S>>, goal: &G, visited: Seq<bool>)
    ensures bfs_done_ok(rm, goal, visited, Set::<int>::empty())
{ reveal(bfs_done_ok); }
/// marking one more index visited keeps the bookkeeping
proof fn lemma_done_mark<S: State, G: Goal<S>>(rm: Seq<Node<S>>, goal: &G, v0: Seq<bool>, v1: Seq<bool>, done: Set<int>, j: int)
    requires bfs_done_ok(rm, goal, v0, done), 0 <= j < v0.len(), v1 =~= v0.update(j, true)
    ensures bfs_done_ok(rm, goal, v1, done)
{
    reveal(bfs_done_ok);
    assert forall|i: int| #[trigger] done.contains(i) implies {
        &&& 0 <= i < rm.len()
        &&& !goal.sat(&rm[i].state)
        &&& forall|k: int| 0 <= k < rm[i].edges@.len() ==> 0 <= (#[trigger] rm[i].edges@[k]) < v1.len() && v1[rm[i].edges@[k] as int]
    } by {
        assert forall|k: int| 0 <= k < rm[i].edges@.len() implies 0 <= (#[trigger] rm[i].edges@[k]) < v1.len() && v1[rm[i].edges@[k] as int] by {
            assert(v0[rm[i].edges@[k] as int]);
        }
    }
}
/// a node whose neighbours are all visited and which is not a goal can be finished
proof fn lemma_done_add<S: State, G: Goal<S>>(rm: Seq<Node<S>>, goal: &G, visited: Seq<bool>, done: Set<int>, c: int)
    requires bfs_done_ok(rm, goal, visited, done), 0 <= c < rm.len(), !goal.sat(&rm[c].state),
        forall|k: int| 0 <= k < rm[c].edges@.len() ==> 0 <= (#[trigger] rm[c].edges@[k]) < visited.len() && visited[rm[c].edges@[k] as int]
    ensures bfs_done_ok(rm, goal, visited, done.insert(c))
{ reveal(bfs_done_ok); }
/// when every visited node is finished and every start connection is visited, the visited set contains every walk
proof fn lemma_bfs_complete<S: State, SP: StateSpace<StateType = S>, G: Goal<S>>(rm: Seq<Node<S>>, sp: &SP, vc: &dyn StateValidityChecker<S>, start: &S, radius: f64, goal: &G,
        visited: Seq<bool>, done: Set<int>)
    requires bfs_done_ok(rm, goal, visited, done), visited.len() == rm.len(), rm.len() <= usize::MAX,
        forall|i: int| 0 <= i < rm.len() && start_conn(rm, sp, vc, start, radius, i) ==> #[trigger] visited[i],
        forall|i: int| 0 <= i < rm.len() && #[trigger] visited[i] ==> done.contains(i),
    ensures no_reachable_goal(rm, sp, vc, start, radius, goal)
{
    reveal(bfs_done_ok);
    assert forall|w: Seq<int>| #[trigger] q_walk(rm, sp, vc, start, radius, w) implies !goal.sat(&rm[w[w.len() - 1]].state) by {
        lemma_walk_visited(rm, sp, vc, start, radius, goal, visited, done, w, w.len() - 1);
    }
}
proof fn lemma_walk_visited<S: State, SP: StateSpace<StateType = S>, G: Goal<S>>(rm: Seq<Node<S>>, sp: &SP, vc: &dyn StateValidityChecker<S>, start: &S, radius: f64, goal: &G,
        visited: Seq<bool>, done: Set<int>, w: Seq<int>, k: int)
    requires bfs_done_ok(rm, goal, visited, done), visited.len() == rm.len(), rm.len() <= usize::MAX, q_walk(rm, sp, vc, start, radius, w), 0 <= k < w.len(),
        forall|i: int| 0 <= i < rm.len() && start_conn(rm, sp, vc, start, radius, i) ==> #[trigger] visited[i],
        forall|i: int| 0 <= i < rm.len() && #[trigger] visited[i] ==> done.contains(i),
    ensures visited[w[k]], done.contains(w[k]), !goal.sat(&rm[w[k]].state)
    decreases k
{
    reveal(bfs_done_ok);
    if k == 0 {
        assert(visited[w[0]]);
    } else {
        lemma_walk_visited(rm, sp, vc, start, radius, goal, visited, done, w, k - 1);
        let a = w[k - 1];
        assert(rm[a].edges@.contains(w[k] as usize));
        let kk = choose|kk: int| 0 <= kk < rm[a].edges@.len() && rm[a].edges@[kk] == w[k] as usize;
        assert(visited[rm[a].edges@[kk] as int]);
    }
}
'''

VOCAB += r'''
// ---- hop-minimality (C18): the first goal milestone dequeued by the breadth-first search is a nearest one
/// every visited node's BFS depth is at most its position in ANY walk from a start connection
#[verifier::opaque]
spec fn bfs_min_ok<S: State, SP: StateSpace<StateType = S>>(rm: Seq<Node<S>>, sp: &SP, vc: &dyn StateValidityChecker<S>, start: &S, radius: f64, visited: Seq<bool>, depth: Map<usize, nat>) -> bool {
    forall|w: Seq<int>, k: int| #![trigger q_walk(rm, sp, vc, start, radius, w), visited[w[k]]]
        q_walk(rm, sp, vc, start, radius, w) && 0 <= k < w.len() && visited[w[k]] ==> depth.contains_key(w[k] as usize) && depth[w[k] as usize] <= k
}
spec fn queue_depths(queue: Seq<usize>, depth: Map<usize, nat>, lo: nat) -> bool {
    &&& forall|a: int| 0 <= a < queue.len() ==> depth.contains_key(#[trigger] queue[a]) && lo <= depth[queue[a]] <= lo + 1
    &&& forall|a: int, b: int| 0 <= a <= b < queue.len() ==> depth[#[trigger] queue[a]] <= depth[#[trigger] queue[b]]
}
/// every goal-ending walk visits at least n milestones
spec fn goal_min<S: State, SP: StateSpace<StateType = S>, G: Goal<S>>(rm: Seq<Node<S>>, sp: &SP, vc: &dyn StateValidityChecker<S>, start: &S, radius: f64, goal: &G, n: int) -> bool {
    forall|w: Seq<int>| #[trigger] q_walk(rm, sp, vc, start, radius, w) && goal.sat(&rm[w[w.len() - 1]].state) ==> n <= w.len()
}
/// on a walk, in front of an unvisited node there is a visited node that is not finished yet (it is in the queue or current)
proof fn lemma_frontier_witness<S: State, SP: StateSpace<StateType = S>, G: Goal<S>>(rm: Seq<Node<S>>, sp: &SP, vc: &dyn StateValidityChecker<S>, start: &S, radius: f64, goal: &G,
        visited: Seq<bool>, done: Set<int>, w: Seq<int>, k: int) -> (j: int)
    requires bfs_done_ok(rm, goal, visited, done), visited.len() == rm.len(), rm.len() <= usize::MAX, q_walk(rm, sp, vc, start, radius, w), 0 <= k < w.len(), !visited[w[k]],
        forall|i: int| 0 <= i < rm.len() && start_conn(rm, sp, vc, start, radius, i) ==> #[trigger] visited[i],
    ensures 0 <= j < k, visited[w[j]], !done.contains(w[j])
    decreases k
{
    reveal(bfs_done_ok);
    if k == 0 { assert(visited[w[0]]); 0 }
    else if visited[w[k - 1]] {
        if done.contains(w[k - 1]) {
            let a = w[k - 1];
            assert(rm[a].edges@.contains(w[k] as usize));
            let kk = choose|kk: int| 0 <= kk < rm[a].edges@.len() && rm[a].edges@[kk] == w[k] as usize;
            assert(visited[rm[a].edges@[kk] as int]);
        }
        k - 1
    } else {
        lemma_frontier_witness(rm, sp, vc, start, radius, goal, visited, done, w, k - 1)
    }
}
proof fn lemma_min_seeded<S: State, SP: StateSpace<StateType = S>>(rm: Seq<Node<S>>, sp: &SP, vc: &dyn StateValidityChecker<S>, start: &S, radius: f64, visited: Seq<bool>, depth: Map<usize, nat>)
    requires visited.len() == rm.len(), rm.len() <= usize::MAX, forall|i: int| 0 <= i < visited.len() && #[trigger] visited[i] ==> depth.contains_key(i as usize) && depth[i as usize] == 0
    ensures bfs_min_ok(rm, sp, vc, start, radius, visited, depth)
{ reveal(bfs_min_ok); }
/// discovering n from the current node c (depth d(c) + 1) keeps depths minimal
proof fn lemma_min_mark<S: State, SP: StateSpace<StateType = S>, G: Goal<S>>(rm: Seq<Node<S>>, sp: &SP, vc: &dyn StateValidityChecker<S>, start: &S, radius: f64, goal: &G,
        v0: Seq<bool>, v1: Seq<bool>, d0: Map<usize, nat>, d1: Map<usize, nat>, done: Set<int>, queue: Seq<usize>, c: usize, n: usize)
    requires bfs_min_ok(rm, sp, vc, start, radius, v0, d0), bfs_done_ok(rm, goal, v0, done), v0.len() == rm.len(), rm.len() <= usize::MAX,
        (n as int) < rm.len(), (c as int) < rm.len(), !v0[n as int], v1 =~= v0.update(n as int, true), d0.contains_key(c), d1 == d0.insert(n, d0[c] + 1),
        forall|i: int| 0 <= i < rm.len() && start_conn(rm, sp, vc, start, radius, i) ==> #[trigger] v0[i],
        forall|i: int| 0 <= i < v0.len() && #[trigger] v0[i] ==> queue.contains(i as usize) || done.contains(i) || i == c as int,
        forall|a: int| 0 <= a < queue.len() ==> d0.contains_key(#[trigger] queue[a]) && d0[c] <= d0[queue[a]],
    ensures bfs_min_ok(rm, sp, vc, start, radius, v1, d1)
{
    reveal(bfs_min_ok);
    assert forall|w: Seq<int>, k: int| #![trigger q_walk(rm, sp, vc, start, radius, w), v1[w[k]]]
        q_walk(rm, sp, vc, start, radius, w) && 0 <= k < w.len() && v1[w[k]] implies d1.contains_key(w[k] as usize) && d1[w[k] as usize] <= k by
    {
        if w[k] == n as int {
            let j = lemma_frontier_witness(rm, sp, vc, start, radius, goal, v0, done, w, k);
            assert(v0[w[j]]);
            assert(d0.contains_key(w[j] as usize) && d0[w[j] as usize] <= j);
            if w[j] != c as int {
                assert(queue.contains(w[j] as usize));
                let a = choose|a: int| 0 <= a < queue.len() && queue[a] == w[j] as usize;
                assert(d0[c] <= d0[queue[a]]);
            }
        } else {
            assert(v0[w[k]]);
            assert(d0.contains_key(w[k] as usize) && d0[w[k] as usize] <= k);
        }
    }
}
/// when the current node g satisfies the goal, every goal-ending walk visits at least depth(g) + 1 milestones
proof fn lemma_min_goal<S: State, SP: StateSpace<StateType = S>, G: Goal<S>>(rm: Seq<Node<S>>, sp: &SP, vc: &dyn StateValidityChecker<S>, start: &S, radius: f64, goal: &G,
        visited: Seq<bool>, depth: Map<usize, nat>, done: Set<int>, queue: Seq<usize>, g: usize)
    requires bfs_min_ok(rm, sp, vc, start, radius, visited, depth), bfs_done_ok(rm, goal, visited, done), visited.len() == rm.len(), rm.len() <= usize::MAX,
        (g as int) < rm.len(), depth.contains_key(g),
        forall|i: int| 0 <= i < rm.len() && start_conn(rm, sp, vc, start, radius, i) ==> #[trigger] visited[i],
        forall|i: int| 0 <= i < visited.len() && #[trigger] visited[i] ==> queue.contains(i as usize) || done.contains(i) || i == g as int,
        forall|a: int| 0 <= a < queue.len() ==> depth.contains_key(#[trigger] queue[a]) && depth[g] <= depth[queue[a]],
    ensures goal_min(rm, sp, vc, start, radius, goal, depth[g] as int + 1)
{
    reveal(bfs_min_ok); reveal(bfs_done_ok);
    assert forall|w: Seq<int>| #[trigger] q_walk(rm, sp, vc, start, radius, w) && goal.sat(&rm[w[w.len() - 1]].state) implies depth[g] as int + 1 <= w.len() by {
        let k = w.len() - 1;
        let h = w[k];
        if visited[h] {
            assert(depth.contains_key(h as usize) && depth[h as usize] <= k);
            if h != g as int {
                // h is a goal, so it is not finished: it is in the queue, behind g
                assert(!done.contains(h));
                assert(queue.contains(h as usize));
                let a = choose|a: int| 0 <= a < queue.len() && queue[a] == h as usize;
                assert(depth[g] <= depth[queue[a]]);
            }
        } else {
            let j = lemma_frontier_witness(rm, sp, vc, start, radius, goal, visited, done, w, k);
            assert(visited[w[j]]);
            assert(depth.contains_key(w[j] as usize) && depth[w[j] as usize] <= j);
            if w[j] != g as int {
                assert(queue.contains(w[j] as usize));
                let a = choose|a: int| 0 <= a < queue.len() && queue[a] == w[j] as usize;
                assert(depth[g] <= depth[queue[a]]);
            }
        }
    }
}
/// the chain from i has exactly depth(i) + 1 elements
proof fn lemma_pm_up_len<S: State>(pm: Map<usize, Option<usize>>, depth: Map<usize, nat>, rm: Seq<Node<S>>, sc: Seq<usize>, i: usize)
    requires pm_ok(pm, depth, rm, sc), pm.contains_key(i)
    ensures pm_up(pm, depth, i).len() == depth[i] + 1
    decreases depth[i]
{
    reveal(pm_ok);
    if pm[i] is Some {
        lemma_pm_up_len(pm, depth, rm, sc, pm[i]->Some_0);
        assert(pm_up(pm, depth, i) =~= seq![i] + pm_up(pm, depth, pm[i]->Some_0));
    }
}
'''

ann('top', '', VOCAB, 'prm.vocab')
for g in ('S', 'SP', 'G'):
    ann('struct PRM', 'attr', '#[verifier::reject_recursive_types(%s)]' % g, 'prm.attr.' + g)

ann('impl#1', 'impl-start', r'''
    pub closed spec fn is_setup(&self) -> bool { self.problem_def is Some && self.validity_checker is Some }
    pub closed spec fn has_pd(&self) -> bool { self.problem_def is Some }
    pub closed spec fn cur_pd(&self) -> Arc<ProblemDefinition<S, SP, G>> { self.problem_def->Some_0 }
    pub closed spec fn cur_vc(&self) -> Arc<dyn StateValidityChecker<S>> { self.validity_checker->Some_0 }
    /// the roadmap is a well-formed undirected graph (holds between any two public calls)
    pub closed spec fn wf(&self) -> bool {
        &&& rm_graph(self.roadmap@)
        &&& self.roadmap@.len() < usize::MAX
        &&& (self.validity_checker is None ==> self.roadmap@.len() == 0)
    }
    pub closed spec fn valid_inv(&self) -> bool {
        self.validity_checker is Some ==> rm_valid(self.roadmap@, &*self.cur_vc())
    }
    pub closed spec fn checked_inv(&self) -> bool {
        self.validity_checker is Some ==> (self.problem_def is Some && rm_checked(self.roadmap@, &*self.cur_pd().space, &*self.cur_vc()))
    }
    pub closed spec fn rng_ok(&self) -> bool {
        seeded_mode() ==> self.rng is Some && self.rng->Some_0.det()
    }
    pub closed spec fn edges_le(&self, m: real) -> bool {
        self.problem_def is Some ==> rm_edges_le(self.roadmap@, &*self.cur_pd().space, m)
    }
    pub closed spec fn in_bounds_inv(&self) -> bool {
        self.problem_def is Some ==> rm_in_bounds(self.roadmap@, &*self.cur_pd().space)
    }
    pub closed spec fn no_goal_reachable(&self) -> bool {
        no_reachable_goal(self.roadmap@, &*self.cur_pd().space, &*self.cur_vc(), &self.cur_pd().start_states@[0], self.connection_radius, &*self.cur_pd().goal)
    }
    /// every walk from a start connection to a goal milestone visits at least n milestones
    pub closed spec fn fewest_milestones(&self, n: int) -> bool {
        goal_min(self.roadmap@, &*self.cur_pd().space, &*self.cur_vc(), &self.cur_pd().start_states@[0], self.connection_radius, &*self.cur_pd().goal, n)
    }
    pub closed spec fn sp_radius(&self) -> f64 { self.connection_radius }
    pub closed spec fn sp_timeout(&self) -> f64 { self.timeout }
    pub closed spec fn roadmap_len(&self) -> nat { self.roadmap@.len() }
    /// the abstract roadmap: milestone states and adjacency lists
    pub closed spec fn roadmap_states(&self) -> Seq<S> { rm_states(self.roadmap@) }
    pub closed spec fn roadmap_adj(&self) -> Seq<Seq<usize>> { Seq::new(self.roadmap@.len(), |i: int| self.roadmap@[i].edges@) }
''', 'prm.specs')

ann('fn new', 'sig', r'''
        requires seeded_mode() ==> config.seed is Some,
        ensures
            r.wf(), r.valid_inv(), r.checked_inv(),           //@ wf [C02,C08,C18]
            !r.is_setup(), r.roadmap_len() == 0,              //@ not_setup [C08]
            r.rng_ok(),                                       //@ rng [C07]
            r.sp_radius() == connection_radius, r.sp_timeout() == timeout,
''', 'prm.new', ret='r')
ann('fn new', 'closure /\|s\| /', '|s: u64| -> (b: Box<StdRng>) ensures b.det()   //@ seeded [C07]', 'prm.new.closure', tags=['C07'])
ann('fn new', 'before /(?m)^\s*PRM \{$/', r'''
        proof { lemma_rm_empty_any::<S, SP>(Seq::<Node<S>>::empty()); }
''', 'prm.new.empty')

ann('fn get_roadmap', 'attr', '#[verifier::external_body]', 'prm.get_roadmap.attr')

ann('fn set_problem_definition', 'sig', r'''
        requires old(self).wf(), old(self).valid_inv(), old(self).checked_inv(), old(self).rng_ok(),
            // premise: the replacement problem is over the same space (the roadmap was checked in it)
            old(self).has_pd() ==> *pd.space == *old(self).cur_pd().space,
        ensures
            final(self).wf(), final(self).valid_inv(), final(self).checked_inv(), final(self).rng_ok(),   //@ wf [C02,C08,C18]
            final(self).has_pd() && final(self).cur_pd() == pd,                                           //@ pd [C02,C08]
            final(self).is_setup() == (old(self).is_setup() || final(self).is_setup()),
            old(self).is_setup() ==> final(self).is_setup() && final(self).cur_vc() == old(self).cur_vc(),            //@ vc_frame [C08,C18]
            final(self).roadmap_states() == old(self).roadmap_states(), final(self).roadmap_adj() == old(self).roadmap_adj(),   //@ roadmap_reused [C18]
            final(self).sp_radius() == old(self).sp_radius(), final(self).sp_timeout() == old(self).sp_timeout(),
''', 'prm.set_pd')

# ---------------------------------------------------------------- check_motion
ann('fn check_motion', 'sig', r'''
        requires self.problem_def is Some, self.validity_checker is Some,
        ensures r == motion_checked(&*self.cur_pd().space, &*self.cur_vc(), from, to),   //@ post [C01,C03,C18]
''', 'prm.check_motion', ret='r')
ann('fn check_motion', 'body-start', 'proof { ax_f64_obeys(); reveal(motion_checked); }', 'prm.check_motion.ax')
ann('fn check_motion', 'loop for#1', r'''
                invariant
                    num_steps == num_steps_spec(&*self.cur_pd().space, from, to),
                    num_steps > 1,
                    self.problem_def is Some, self.validity_checker is Some,
                    pd == self.problem_def->Some_0, vc == self.validity_checker->Some_0,
                    *space == pd.space,
                    <f64 as DivSpec>::obeys_div_spec(),
                    0 <= iter.index@ <= num_steps,
                    iter.index@ < num_steps ==> i == iter.index@ + 1,
                    forall|j: usize| 1 <= j <= iter.index@ ==> vc.valid(&#[trigger] space.interp_spec(from, to, t_of(j, num_steps))),   //@ inv [C01,C03,C18]
''', 'prm.check_motion.loop', label='iter')
ann('fn check_motion', 'before /return false;/', r'''
                    proof {
                        reveal(motion_checked);
                        assert(1 <= i <= num_steps);
                        assert(t == t_of(i, num_steps));
                        assert(interpolated_state == space.interp_spec(from, to, t_of(i, num_steps)));
                        assert(!vc.valid(&space.interp_spec(from, to, t_of(i, num_steps))));
                    }
''', 'prm.check_motion.false')


# ---------------------------------------------------------------- construct_roadmap
ann('fn construct_roadmap', 'attr', '#[verifier::exec_allows_no_decreases_clause]', 'prm.construct.attr')
ann('fn construct_roadmap', 'sig', r"""
        requires old(self).wf(), old(self).valid_inv(), old(self).checked_inv(), old(self).rng_ok(),
        ensures
            final(self).wf(),                                                                              //@ wf [C08,C18]
            final(self).valid_inv(),                                                                       //@ valid [C01,C18]
            final(self).checked_inv(),                                                                     //@ checked [C03,C18]
            final(self).rng_ok(),                                                                          //@ rng [C07]
            !old(self).is_setup() ==> r == Err::<(), PlanningError>(PlanningError::PlannerUninitialised),  //@ uninit [C08]
            old(self).is_setup() ==> r is Ok,                                                              //@ result_domain [C06,C08]
            // repeated construction leaves a non-empty roadmap unchanged
            (!old(self).is_setup() || old(self).roadmap_len() > 0) ==>
                final(self).roadmap_states() == old(self).roadmap_states() && final(self).roadmap_adj() == old(self).roadmap_adj(),   //@ unchanged [C18]
            final(self).is_setup() == old(self).is_setup(), final(self).has_pd() == old(self).has_pd(),
            old(self).has_pd() ==> final(self).cur_pd() == old(self).cur_pd(),                              //@ frame_pd [C02,C08]
            old(self).is_setup() ==> final(self).cur_vc() == old(self).cur_vc(),
            final(self).sp_radius() == old(self).sp_radius(), final(self).sp_timeout() == old(self).sp_timeout(),
            (old(self).is_setup() && old(self).edges_le(rv(old(self).sp_radius()))) ==> final(self).edges_le(rv(old(self).sp_radius())),   //@ edges_le [C05,C18]
            (old(self).is_setup() && space_samples_in_bounds(&*old(self).cur_pd().space) && old(self).in_bounds_inv()) ==> final(self).in_bounds_inv(),   //@ in_bounds [C04]
""", 'prm.construct', ret='r')
ann('fn construct_roadmap', 'body-start', 'proof { ax_f64_obeys(); }', 'prm.construct.ax')
ann('fn construct_roadmap', 'loop loop#1', r"""
            invariant
                self.wf(),                                                         //@ wf [C08,C18]
                self.valid_inv(),                                                  //@ valid [C01,C18]
                self.checked_inv(),                                                //@ checked [C03,C18]
                self.problem_def == old(self).problem_def, self.validity_checker == old(self).validity_checker,   //@ frame [C02,C08]
                self.problem_def is Some, self.validity_checker is Some,
                pd == self.problem_def->Some_0, vc == self.validity_checker->Some_0,
                self.connection_radius == old(self).connection_radius, self.timeout == old(self).timeout,
                seeded_mode() ==> rng.det(),                                       //@ rng [C07]
                old(self).edges_le(rv(self.connection_radius)) ==> self.edges_le(rv(self.connection_radius)),   //@ edges [C05,C18]
                (space_samples_in_bounds(&*pd.space) && old(self).in_bounds_inv()) ==> self.in_bounds_inv(),        //@ in_bounds [C04]
                // C18: the roadmap holds exactly the valid samples drawn so far, in order
                rm_states(self.roadmap@) =~= g_accepted@,                          //@ exactly_valid_samples [C18]
                forall|k: int| 0 <= k < g_accepted@.len() ==> vc.valid(&#[trigger] g_accepted@[k]),
                <f64 as DivSpec>::obeys_div_spec(), <f64 as PartialOrdSpec<f64>>::obeys_partial_cmp_spec(),
""", 'prm.construct.loop')
ann('fn construct_roadmap', 'before /let start_time = Instant::now\(\);/', r"""
        let ghost mut g_accepted: Ghost<Seq<S>> = Ghost(Seq::<S>::empty());
        proof { assert(rm_states(self.roadmap@) =~= Seq::<S>::empty()); }
""", 'prm.construct.ghost')
ann('fn construct_roadmap', 'loop-body-start loop#1', r"""
            let ghost g0 = self.roadmap@;
            let ghost mut g_deadline_checked = false;
""", 'prm.construct.iter.ghost')
ann('fn construct_roadmap', 'after /if elapsed__v > self\.timeout \{[^}]*\}/', r"""
            proof {
                assert(!fgt(elapsed__v, self.timeout));          //@ deadline_exit [C06]
                g_deadline_checked = true;
            }
""", 'prm.construct.deadline', tags=['C06'])
ann('fn construct_roadmap', 'before /if vc\.is_valid\(&q_rand\) \{/', r"""
            proof { assert(g_deadline_checked);   //@ deadline_first [C06]
            }
""", 'prm.construct.deadline_first', tags=['C06'])
ann('fn construct_roadmap', 'after /let mut to_update: Vec<usize> = Vec::new\(\);/', r"""
                proof {
                    axiom_state_clone::<S>(q_rand, new_node.state);
                    lemma_link_empty(g0, &*pd.space, &**vc, &q_rand, self.connection_radius);
                }
""", 'prm.construct.link.init')
ann('fn construct_roadmap', 'loop for#1', r"""
                    invariant
                        self.roadmap@ == g0, self.wf(),
                        self.problem_def is Some, self.validity_checker is Some,
                        pd == self.problem_def->Some_0, vc == self.validity_checker->Some_0,
                        self.connection_radius == old(self).connection_radius,
                        new_node.state == q_rand,
                        new_node.edges@ == to_update@,
                        link_list(g0, &*pd.space, &**vc, &q_rand, self.connection_radius, to_update@, i as int),   //@ link_only_if [C03,C05,C18]
                        <f64 as PartialOrdSpec<f64>>::obeys_partial_cmp_spec(),
""", 'prm.construct.link.loop', tags=['C03', 'C05', 'C18'])
ann('fn construct_roadmap', 'loop-body-start for#1', 'let ghost g_e = to_update@;', 'prm.construct.link.ghost')
ann('fn construct_roadmap', 'after /let other_state = self\.roadmap\[i\]\.state\.clone\(\);/', r"""
                    proof { axiom_state_clone::<S>(self.roadmap@[i as int].state, other_state); }
""", 'prm.construct.link.clone')
ann('fn construct_roadmap', 'loop-end for#1', r"""
                    proof { lemma_link_step(g0, &*pd.space, &**vc, &q_rand, self.connection_radius, g_e, i); }
""", 'prm.construct.link.step', tags=['C03', 'C05', 'C18'])
ann('fn construct_roadmap', 'after /self\.roadmap\.push\(new_node\);/', r"""
                let ghost g_qs = q_rand;
                proof {
                    lemma_linked_start(g0, self.roadmap@, g_qs, to_update@);
                }
""", 'prm.construct.push')
ann('fn construct_roadmap', 'loop while#1', r"""
                    invariant
                        i__k <= to_update@.len(),
                        rm_linked(g0, self.roadmap@, g_qs, to_update@, i__k as int),      //@ back_edges [C18]
                        link_list(g0, &*pd.space, &**vc, &g_qs, self.connection_radius, to_update@, g0.len() as int),
                        new_node_idx == g0.len(), rm_graph(g0), g0.len() < usize::MAX,
                        self.problem_def == old(self).problem_def, self.validity_checker == old(self).validity_checker,
                        self.problem_def is Some, self.validity_checker is Some,
                        pd == self.problem_def->Some_0, vc == self.validity_checker->Some_0,
                        self.connection_radius == old(self).connection_radius, self.timeout == old(self).timeout,
                    decreases to_update@.len() - i__k,
""", 'prm.construct.back.loop', tags=['C18'])
ann('fn construct_roadmap', 'loop-body-start while#1', 'let ghost g_rm0 = self.roadmap@;', 'prm.construct.back.ghost')
ann('fn construct_roadmap', 'before /self\.roadmap\[i\]\.edges\.push\(new_node_idx\);/', r"""
                    proof { reveal(link_list); reveal(rm_linked); assert(to_update@[i__k - 1] == i); assert(i < g0.len()); }
""", 'prm.construct.back.pre')
ann('fn construct_roadmap', 'loop-end while#1', r"""
                    proof {
                        lemma_linked_step(g0, g_rm0, self.roadmap@, g_qs, to_update@, i__k - 1, &*pd.space, &**vc, &g_qs, self.connection_radius);
                    }
""", 'prm.construct.back.step', tags=['C18'])
ann('fn construct_roadmap', 'loop-after while#1', r"""
                proof {
                    lemma_linked_done(g0, self.roadmap@, g_qs, to_update@, &*pd.space, &**vc, self.connection_radius);
                    g_accepted@ = g_accepted@.push(g_qs);
                    if space_samples_in_bounds(&*pd.space) { lemma_space_sample_in_bounds(&*pd.space, &g_qs); }
                    assert(self.roadmap@.len() < usize::MAX) by { axiom_vec_len_bound(&self.roadmap); }
                }
""", 'prm.construct.done', tags=['C01', 'C03', 'C04', 'C05', 'C18'])
ann('fn construct_roadmap', 'loop-end loop#1', r"""
            proof {
                // an invalid sample is not added
                assert(self.roadmap@ == g0 || rm_states(self.roadmap@) =~= rm_states(g0).push(q_rand));   //@ one_milestone_or_none [C18]
            }
""", 'prm.construct.iter.end', tags=['C18'])

# ---------------------------------------------------------------- reconstruct_path
ann('fn reconstruct_path', 'sig', r"""
        requires
            exists|depth: Map<usize, nat>, sc: Seq<usize>| pm_ok(parent_map@, depth, self.roadmap@, sc),
            parent_map@.contains_key(goal_idx),
        ensures
            forall|depth: Map<usize, nat>, sc: Seq<usize>| #[trigger] pm_ok(parent_map@, depth, self.roadmap@, sc) ==>
                p.0@ == prm_path(*start_state, self.roadmap@, parent_map@, depth, goal_idx),       //@ post [C01,C02,C03,C05,C18]
""", 'prm.reconstruct_path', ret='p')
ann('fn reconstruct_path', 'body-start', r"""
        broadcast use vstd::std_specs::hash::group_hash_axioms;
        let ghost g_w = choose|w: (Map<usize, nat>, Seq<usize>)| pm_ok(parent_map@, w.0, self.roadmap@, w.1);
        let ghost depth = g_w.0;
        let ghost sc = g_w.1;
        proof {
            let w0 = choose|depth: Map<usize, nat>, sc: Seq<usize>| pm_ok(parent_map@, depth, self.roadmap@, sc);
            assert(pm_ok(parent_map@, (w0.0, w0.1).0, self.roadmap@, (w0.0, w0.1).1));
        }
""", 'prm.reconstruct_path.start')
ann('fn reconstruct_path', 'after /let mut path = vec!\[start_state\.clone\(\)\];/', r"""
        proof { axiom_state_clone::<S>(*start_state, path@[0]); }
""", 'prm.reconstruct_path.clone0')
ann('fn reconstruct_path', 'loop while#1', r"""
            invariant
                pm_ok(parent_map@, depth, self.roadmap@, sc),
                parent_map@.contains_key(current), parent_map@.contains_key(goal_idx),
                states@ + idx_states(self.roadmap@, pm_up(parent_map@, depth, current)) =~= idx_states(self.roadmap@, pm_up(parent_map@, depth, goal_idx)),   //@ inv [C01,C02,C03,C05,C18]
            ensures parent_map@.contains_key(current) && parent_map@[current] is None,
            decreases depth[current],            //@ terminates [C18]
""", 'prm.reconstruct_path.loop')
ann('fn reconstruct_path', 'loop-body-start while#1', r"""
            let ghost old_states = states@;
            let ghost old_cur = current;
            proof { reveal(pm_ok); }
""", 'prm.reconstruct_path.ghost')
ann('fn reconstruct_path', 'loop-end while#1', r"""
            proof {
                reveal(pm_ok);
                let rm = self.roadmap@;
                let pm = parent_map@;
                axiom_state_clone::<S>(rm[old_cur as int].state, states@.last());
                let u = pm_up(pm, depth, old_cur);
                let v = pm_up(pm, depth, current);
                assert(u =~= seq![old_cur] + v);
                assert(idx_states(rm, u) =~= seq![rm[old_cur as int].state] + idx_states(rm, v));
                assert(states@ + idx_states(rm, v) =~= old_states + (seq![rm[old_cur as int].state] + idx_states(rm, v)));
            }
""", 'prm.reconstruct_path.step')
ann('fn reconstruct_path', 'before /let mut states = Vec::new\(\);/', r"""
        proof { reveal(pm_ok); }
""", 'prm.reconstruct_path.pre_loop')
ann('fn reconstruct_path', 'loop-after while#1', r"""
        let ghost g_st = states@;
        proof {
            reveal(pm_ok);
            assert(pm_up(parent_map@, depth, current) =~= seq![current]);
            assert(idx_states(self.roadmap@, pm_up(parent_map@, depth, current)) =~= seq![self.roadmap@[current as int].state]);
        }
""", 'prm.reconstruct_path.after_loop')
ann('fn reconstruct_path', 'before /states\.reverse\(\);/', r"""
        proof {
            axiom_state_clone::<S>(self.roadmap@[current as int].state, states@.last());
            assert(states@ =~= g_st + seq![self.roadmap@[current as int].state]);
            assert(states@ =~= idx_states(self.roadmap@, pm_up(parent_map@, depth, goal_idx)));
        }
""", 'prm.reconstruct_path.end')
ann('fn reconstruct_path', 'before /(?m)^\s*Path\(path\)$/', r"""
        proof {
            let rm = self.roadmap@;
            let pm = parent_map@;
            assert forall|depth2: Map<usize, nat>, sc2: Seq<usize>| #[trigger] pm_ok(pm, depth2, rm, sc2) implies path@ == prm_path(*start_state, rm, pm, depth2, goal_idx) by {
                lemma_pm_up_unique(pm, depth, depth2, rm, sc, sc2, goal_idx);
                assert(path@ =~= prm_path(*start_state, rm, pm, depth, goal_idx));
            }
        }
""", 'prm.reconstruct_path.end')

# ---------------------------------------------------------------- Planner impl
ann('impl#2', 'impl-start', r"""
    closed spec fn p_wf(&self) -> bool { self.wf() }
    closed spec fn p_valid(&self) -> bool { self.valid_inv() }
    closed spec fn p_checked(&self) -> bool { self.checked_inv() }
    closed spec fn p_rng_ok(&self) -> bool { self.rng_ok() }
    closed spec fn p_is_setup(&self) -> bool { self.is_setup() }
    closed spec fn p_pd(&self) -> Arc<ProblemDefinition<S, SP, G>> { self.cur_pd() }
    closed spec fn p_vc(&self) -> Arc<dyn StateValidityChecker<S>> { self.cur_vc() }
    closed spec fn p_edges_le(&self, m: real) -> bool { self.edges_le(m) }
    closed spec fn p_step_limit(&self) -> real { rv(self.connection_radius) }
    closed spec fn p_step_params_ok(&self) -> bool { true }
    closed spec fn p_in_bounds(&self) -> bool { self.in_bounds_inv() }
    closed spec fn p_space_ok(&self, sp: &SP) -> bool { true }
""", 'prm.planner_specs')

ann('fn setup', 'sig', r"""
        ensures
            final(self).roadmap_len() == 0,                                                               //@ roadmap_cleared [C18]
            final(self).sp_radius() == old(self).sp_radius(), final(self).sp_timeout() == old(self).sp_timeout(),
            final(self).p_in_bounds(),
""", 'prm.setup')
ann('fn setup', 'after /self\.roadmap\.clear\(\);/', r"""
        proof { lemma_rm_empty(self.roadmap@, &*self.problem_def->Some_0.space, &*self.validity_checker->Some_0); }
""", 'prm.setup.empty')


ann('fn solve', 'attr', '#[verifier::exec_allows_no_decreases_clause]', 'prm.solve.attr')
ann('fn solve', 'sig', r"""
        ensures
            old(self).p_is_setup() && old(self).roadmap_len() == 0 ==> r == Err::<Path<S>, PlanningError>(PlanningError::UnsampledStateSpace),   //@ unsampled [C08]
            old(self).p_is_setup() && old(self).roadmap_len() > 0 && old(self).p_pd().start_states@.len() >= 1 && !old(self).p_vc().valid(&old(self).p_pd().start_states@[0])
                ==> r == Err::<Path<S>, PlanningError>(PlanningError::InvalidStartState),                 //@ invalid_start [C01,C08]
            r is Err ==> (r->Err_0 is Timeout || r->Err_0 is NoSolutionFound || r->Err_0 is InvalidStartState || r->Err_0 is UnsampledStateSpace || r->Err_0 is PlannerUninitialised),   //@ result_domain [C06]
            final(self).roadmap_states() == old(self).roadmap_states(), final(self).roadmap_adj() == old(self).roadmap_adj(),   //@ roadmap_frame [C18]
            final(self).sp_radius() == old(self).sp_radius(), final(self).sp_timeout() == old(self).sp_timeout(),
            // C18 hop-minimality: no walk from a start connection to a goal milestone visits fewer milestones than the returned path
            (old(self).p_is_setup() && r is Ok) ==> old(self).fewest_milestones(r->Ok_0.0.len() as int - 1),      //@ fewest_milestones [C18]
            // C18 query completeness: NoSolutionFound only if no milestone satisfying the goal is reachable from a start connection
            (old(self).p_is_setup() && r == Err::<Path<S>, PlanningError>(PlanningError::NoSolutionFound)) ==> old(self).no_goal_reachable(),   //@ complete [C18]
            (old(self).p_is_setup() && metric_ok(&*old(self).p_pd().space) && old(self).p_edges_le(old(self).p_step_limit())) ==> {
                r is Ok ==> forall|k: int| #![trigger r->Ok_0.0[k]] 0 <= k < r->Ok_0.0.len() - 1 ==>
                        rv(old(self).p_pd().space.dist_spec(&r->Ok_0.0[k], &r->Ok_0.0[k + 1])) <= old(self).p_step_limit()     //@ path_step [C05]
            },
            (old(self).p_is_setup() && old(self).p_in_bounds() && old(self).p_pd().start_states@.len() >= 1 && old(self).p_pd().space.in_bounds_spec(&old(self).p_pd().start_states@[0])) ==> {
                r is Ok ==> forall|k: int| 0 <= k < r->Ok_0.0.len() ==> old(self).p_pd().space.in_bounds_spec(&#[trigger] r->Ok_0.0[k])   //@ path_in_bounds [C04]
            },
""", 'prm.solve', ret='r')
ann('fn solve', 'body-start', r"""
        broadcast use vstd::std_specs::hash::group_hash_axioms;
        proof { ax_f64_obeys(); ax_duration_obeys(); }
""", 'prm.solve.ax')
ann('fn solve', 'before /let start_state = &pd\.start_states\[0\];/', r"""
        assert(pd.start_states.len() >= 1);   //@ kf.empty_start [C08]
""", 'prm.solve.start')
ann('fn solve', 'loop for#1', r"""
            invariant
                *self == *old(self), self.wf(), self.valid_inv(), self.checked_inv(), self.rng_ok(), self.is_setup(),
                self.roadmap@.len() > 0, start_state == &pd.start_states@[0], pd.start_states@.len() >= 1, vc.valid(start_state),
                self.problem_def is Some, self.validity_checker is Some,
                pd == self.problem_def->Some_0, vc == self.validity_checker->Some_0,
                start_state == &pd.start_states@[0],
                0 <= i <= self.roadmap@.len(),
                sc_ok(start_connections@, self.roadmap@, &*pd.space, &**vc, start_state, self.connection_radius, i as int),   //@ start_connection_checked [C03,C05,C18]
                forall|j: int| 0 <= j < i && start_conn(self.roadmap@, &*pd.space, &**vc, start_state, self.connection_radius, j) ==> start_connections@.contains(j as usize),   //@ start_connections_complete [C18]
                <f64 as PartialOrdSpec<f64>>::obeys_partial_cmp_spec(),
""", 'prm.solve.sc.loop', tags=['C03', 'C05', 'C18'])
ann('fn solve', 'loop-body-start for#1', 'let ghost g_sc0 = start_connections@;', 'prm.solve.sc.ghost')
ann('fn solve', 'loop-end for#1', r"""
            proof {
                assert forall|j: int| 0 <= j < i + 1 && start_conn(self.roadmap@, &*pd.space, &**vc, start_state, self.connection_radius, j) implies start_connections@.contains(j as usize) by {
                    if j < i { let w = choose|w: int| 0 <= w < g_sc0.len() && g_sc0[w] == j as usize; assert(start_connections@[w] == j as usize); }
                    else { assert(start_connections@[start_connections@.len() - 1] == i); }
                }
            }
""", 'prm.solve.sc.step', tags=['C18'])
ann('fn solve', 'loop for#2', r"""
            invariant
                *self == *old(self), self.wf(), self.valid_inv(), self.checked_inv(), self.rng_ok(), self.is_setup(),
                self.roadmap@.len() > 0, start_state == &pd.start_states@[0], pd.start_states@.len() >= 1, vc.valid(start_state),
                self.problem_def is Some, self.validity_checker is Some,
                pd == self.problem_def->Some_0, vc == self.validity_checker->Some_0,
                goal == &pd.goal,
                0 <= i <= self.roadmap@.len(),
                sc_ok(start_connections@, self.roadmap@, &*pd.space, &**vc, start_state, self.connection_radius, self.roadmap@.len() as int),
                forall|k: int| 0 <= k < goal_indices@.len() ==> 0 <= (#[trigger] goal_indices@[k]) < i && goal.sat(&self.roadmap@[goal_indices@[k] as int].state),   //@ goal_indices_sat [C02,C18]
                forall|j: int| 0 <= j < i && goal.sat(&(#[trigger] self.roadmap@[j]).state) ==> goal_indices@.contains(j as usize),   //@ goal_indices_complete [C18]
                forall|j: int| 0 <= j < self.roadmap@.len() && start_conn(self.roadmap@, &*pd.space, &**vc, start_state, self.connection_radius, j) ==> start_connections@.contains(j as usize),
""", 'prm.solve.goal.loop', tags=['C02', 'C18'])
ann('fn solve', 'loop-body-start for#2', 'let ghost g_gi0 = goal_indices@;', 'prm.solve.goal.ghost')
ann('fn solve', 'loop-end for#2', r"""
            proof {
                assert forall|j: int| 0 <= j < i + 1 && goal.sat(&(#[trigger] self.roadmap@[j]).state) implies goal_indices@.contains(j as usize) by {
                    if j < i { let w = choose|w: int| 0 <= w < g_gi0.len() && g_gi0[w] == j as usize; assert(goal_indices@[w] == j as usize); }
                    else { assert(goal_indices@[goal_indices@.len() - 1] == i); }
                }
            }
""", 'prm.solve.goal.step', tags=['C18'])
ann('fn solve', 'before /if start_connections\.is_empty\(\) \|\| goal_indices\.is_empty\(\) \{/', r"""
        proof {
            // an empty list of start connections / goal milestones means no walk / no goal milestone at all
            if start_connections@.len() == 0 || goal_indices@.len() == 0 {
                assert forall|w: Seq<int>| #[trigger] q_walk(self.roadmap@, &*pd.space, &**vc, start_state, self.connection_radius, w) implies !goal.sat(&self.roadmap@[w[w.len() - 1]].state) by {
                    if start_connections@.len() == 0 { assert(start_connections@.contains(w[0] as usize)); }
                    else if goal.sat(&self.roadmap@[w[w.len() - 1]].state) { assert(goal_indices@.contains(w[w.len() - 1] as usize)); }
                }
            }
        }
""", 'prm.solve.early_exit', tags=['C18'])
ann('fn solve', 'before /let mut goal_reached = None;/', r"""
        proof { assert(g_seeded); }
""", 'prm.solve.seeded')
ann('fn solve', 'after /let mut visited = vec_of_false\(self\.roadmap\.len\(\)\);/', r"""
        let ghost mut g_depth: Map<usize, nat> = Map::<usize, nat>::empty();
        let ghost mut g_done: Set<int> = Set::<int>::empty();
        let ghost mut g_qhead: Seq<usize> = Seq::<usize>::empty();
        let ghost g_seeded = true;
        proof { lemma_pm_empty(self.roadmap@, start_connections@); }
""", 'prm.solve.bfs.ghost')
ann('fn solve', 'loop while#1', r"""
            invariant
                *self == *old(self), self.wf(), self.valid_inv(), self.checked_inv(), self.rng_ok(), self.is_setup(),
                self.roadmap@.len() > 0, start_state == &pd.start_states@[0], pd.start_states@.len() >= 1, vc.valid(start_state),
                idx__k <= start_connections@.len(),
                sc_ok(start_connections@, self.roadmap@, &*pd.space, &**vc, start_state, self.connection_radius, self.roadmap@.len() as int),
                pm_ok(parent_map@, g_depth, self.roadmap@, start_connections@),                                   //@ seed_forest [C18]
                forall|k: usize| #[trigger] parent_map@.contains_key(k) ==> parent_map@[k] is None,
                visited@.len() == self.roadmap@.len(),
                forall|i: int| 0 <= i < visited@.len() ==> (#[trigger] visited@[i] <==> parent_map@.contains_key(i as usize)),
                self.problem_def is Some, self.validity_checker is Some,
                pd == self.problem_def->Some_0, vc == self.validity_checker->Some_0, goal == &pd.goal,
                forall|k: int| 0 <= k < queue@.len() ==> start_connections@.contains(#[trigger] queue@[k]),
                forall|k: int| 0 <= k < idx__k ==> parent_map@.contains_key(#[trigger] start_connections@[k]),
                forall|k: int| 0 <= k < start_connections@.len() ==> queue@.contains(#[trigger] start_connections@[k]),
                forall|i: int| 0 <= i < visited@.len() && #[trigger] visited@[i] ==> start_connections@.contains(i as usize),
                forall|k: usize| #[trigger] g_depth.contains_key(k) ==> g_depth[k] == 0,
                forall|j: int| 0 <= j < self.roadmap@.len() && start_conn(self.roadmap@, &*pd.space, &**vc, start_state, self.connection_radius, j) ==> start_connections@.contains(j as usize),
                forall|j: int| 0 <= j < self.roadmap@.len() && goal.sat(&(#[trigger] self.roadmap@[j]).state) ==> goal_indices@.contains(j as usize),
                forall|k: int| 0 <= k < goal_indices@.len() ==> 0 <= (#[trigger] goal_indices@[k]) < self.roadmap@.len() && goal.sat(&self.roadmap@[goal_indices@[k] as int].state),
            decreases start_connections@.len() - idx__k,
""", 'prm.solve.seed.loop', tags=['C18'])
ann('fn solve', 'loop-body-start while#1', r"""
            let ghost g_pm0 = parent_map@;
            let ghost g_q0 = queue@;
            proof {
                assert(start_connections@.contains(*idx));
                assert((*idx as int) < self.roadmap@.len());
                lemma_pm_seed(parent_map@, g_depth, self.roadmap@, start_connections@, *idx);
                g_depth = g_depth.insert(*idx, 0);
            }
""", 'prm.solve.seed.step')
ann('fn solve', 'loop-end while#1', r"""
            proof {
                assert forall|k: int| 0 <= k < queue@.len() implies start_connections@.contains(#[trigger] queue@[k]) by {
                    if k < g_q0.len() { assert(queue@[k] == g_q0[k]); }
                }
                assert forall|k: int| 0 <= k < start_connections@.len() implies queue@.contains(#[trigger] start_connections@[k]) by {
                    let w = choose|w: int| 0 <= w < g_q0.len() && g_q0[w] == start_connections@[k];
                    assert(queue@[w] == start_connections@[k]);
                }
            }
""", 'prm.solve.seed.end')
ann('fn solve', 'before /let mut idx__k: usize = 0; while idx__k < start_connections\.len\(\)/', r"""
        proof {
            assert forall|k: int| 0 <= k < queue@.len() implies start_connections@.contains(#[trigger] queue@[k]) by { assert(queue@[k] == start_connections@[k]); }
            assert forall|k: int| 0 <= k < start_connections@.len() implies queue@.contains(#[trigger] start_connections@[k]) by { assert(queue@[k] == start_connections@[k]); }
        }
""", 'prm.solve.seed.pre')
ann('fn solve', 'loop-after while#1', r"""
        proof {
            assert forall|k: int| 0 <= k < queue@.len() implies (#[trigger] queue@[k] as int) < self.roadmap@.len() && parent_map@.contains_key(queue@[k]) by {
                let w = choose|w: int| 0 <= w < start_connections@.len() && start_connections@[w] == queue@[k];
                assert(parent_map@.contains_key(start_connections@[w]));
            }
            lemma_done_empty(self.roadmap@, &**goal, visited@);
            g_qhead = queue@;
            reveal(pm_ok);
            lemma_min_seeded(self.roadmap@, &*pd.space, &**vc, start_state, self.connection_radius, visited@, g_depth);
            assert(queue_depths(queue@, g_depth, 0));
            // every start connection is visited, every visited index is in the queue
            assert forall|k: int| 0 <= k < start_connections@.len() implies visited@[(#[trigger] start_connections@[k]) as int] by {
                assert(parent_map@.contains_key(start_connections@[k]));
            }
            assert forall|i: int| 0 <= i < visited@.len() && #[trigger] visited@[i] implies queue@.contains(i as usize) || g_done.contains(i) by {
                let w = choose|w: int| 0 <= w < start_connections@.len() && start_connections@[w] == i as usize;
                assert(queue@.contains(start_connections@[w]));
            }
        }
""", 'prm.solve.seed.after')
ann('fn solve', 'loop while#2', r"""
            invariant_except_break
                goal_reached is None,
                g_qhead == queue@,
                bfs_min_ok(self.roadmap@, &*pd.space, &**vc, start_state, self.connection_radius, visited@, g_depth),   //@ bfs_depth_minimal [C18]
                queue@.len() > 0 ==> g_depth.contains_key(queue@[0]) && queue_depths(queue@, g_depth, g_depth[queue@[0]]),   //@ bfs_queue_sorted [C18]
                forall|i: int| 0 <= i < visited@.len() && #[trigger] visited@[i] ==> queue@.contains(i as usize) || g_done.contains(i),   //@ bfs_frontier [C18]
                bfs_done_ok(self.roadmap@, &**goal, visited@, g_done),                                              //@ bfs_finished [C18]
            invariant
                *self == *old(self), self.wf(), self.valid_inv(), self.checked_inv(), self.rng_ok(), self.is_setup(),
                self.roadmap@.len() > 0, start_state == &pd.start_states@[0], pd.start_states@.len() >= 1, vc.valid(start_state),
                self.problem_def is Some, self.validity_checker is Some,
                pd == self.problem_def->Some_0, vc == self.validity_checker->Some_0, goal == &pd.goal,
                self.wf(),
                pm_ok(parent_map@, g_depth, self.roadmap@, start_connections@),                                   //@ bfs_forest [C18]
                visited@.len() == self.roadmap@.len(),
                forall|i: int| 0 <= i < visited@.len() ==> (#[trigger] visited@[i] <==> parent_map@.contains_key(i as usize)),
                forall|k: int| 0 <= k < queue@.len() ==> (#[trigger] queue@[k] as int) < self.roadmap@.len() && parent_map@.contains_key(queue@[k]),
                forall|k: int| 0 <= k < goal_indices@.len() ==> 0 <= (#[trigger] goal_indices@[k]) < self.roadmap@.len() && goal.sat(&self.roadmap@[goal_indices@[k] as int].state),
                goal_reached is Some ==> parent_map@.contains_key(goal_reached->Some_0) && (goal_reached->Some_0 as int) < self.roadmap@.len()
                    && goal.sat(&self.roadmap@[goal_reached->Some_0 as int].state),                               //@ goal_reached_sat [C02,C18]
                // completeness bookkeeping: visited = in the queue or finished; finished nodes are no goals and have all neighbours visited
                forall|k: int| 0 <= k < start_connections@.len() ==> visited@[(#[trigger] start_connections@[k]) as int],
                forall|j: int| 0 <= j < self.roadmap@.len() && start_conn(self.roadmap@, &*pd.space, &**vc, start_state, self.connection_radius, j) ==> start_connections@.contains(j as usize),
                forall|j: int| 0 <= j < self.roadmap@.len() && goal.sat(&(#[trigger] self.roadmap@[j]).state) ==> goal_indices@.contains(j as usize),
            ensures
                goal_reached is Some ==> g_depth.contains_key(goal_reached->Some_0)
                    && goal_min(self.roadmap@, &*pd.space, &**vc, start_state, self.connection_radius, &**goal, g_depth[goal_reached->Some_0] as int + 1),   //@ first_goal_is_nearest [C18]
                goal_reached is None ==> queue@.len() == 0,
                goal_reached is None ==> bfs_done_ok(self.roadmap@, &**goal, visited@, g_done),
                goal_reached is None ==> forall|i: int| 0 <= i < visited@.len() && #[trigger] visited@[i] ==> queue@.contains(i as usize) || g_done.contains(i),
""", 'prm.solve.bfs.loop', tags=['C02', 'C18'])
ann('fn solve', 'loop-body-start while#2', r"""
            proof {
                // everything that was in the queue before the pop is still in it, except possibly current_idx
                assert(current_idx == g_qhead[0] && queue@ =~= g_qhead.subrange(1, g_qhead.len() as int));
                assert(queue_depths(queue@, g_depth, g_depth[current_idx])) by {
                    assert forall|a: int| 0 <= a < queue@.len() implies g_depth.contains_key(#[trigger] queue@[a]) && g_depth[current_idx] <= g_depth[queue@[a]] <= g_depth[current_idx] + 1 by {
                        assert(queue@[a] == g_qhead[a + 1]);
                        assert(g_depth[g_qhead[0]] <= g_depth[g_qhead[a + 1]]);
                    }
                    assert forall|a: int, b: int| 0 <= a <= b < queue@.len() implies g_depth[#[trigger] queue@[a]] <= g_depth[#[trigger] queue@[b]] by {
                        assert(queue@[a] == g_qhead[a + 1] && queue@[b] == g_qhead[b + 1]);
                        assert(g_depth[g_qhead[a + 1]] <= g_depth[g_qhead[b + 1]]);
                    }
                }
                assert forall|i: int| 0 <= i < visited@.len() && #[trigger] visited@[i] implies queue@.contains(i as usize) || g_done.contains(i) || i == current_idx as int by {
                    if !g_done.contains(i) {
                        let w = choose|w: int| 0 <= w < g_qhead.len() && g_qhead[w] == i as usize;
                        if w > 0 { assert(queue@[w - 1] == i as usize); }
                    }
                }
            }
""", 'prm.solve.bfs.body', tags=['C18'])
ann('fn solve', 'loop-end while#2', r"""
            proof {
                // current_idx is finished: it is not a goal milestone and all its neighbours are visited
                if !goal_indices@.contains(current_idx) && goal.sat(&self.roadmap@[current_idx as int].state) { assert(goal_indices@.contains(current_idx as int as usize)); }
                lemma_done_add(self.roadmap@, &**goal, visited@, g_done, current_idx as int);
                g_done = g_done.insert(current_idx as int);
                g_qhead = queue@;
                if queue@.len() > 0 {
                    assert(queue_depths(queue@, g_depth, g_depth[queue@[0]])) by {
                        assert forall|a: int| 0 <= a < queue@.len() implies g_depth.contains_key(#[trigger] queue@[a]) && g_depth[queue@[0]] <= g_depth[queue@[a]] <= g_depth[queue@[0]] + 1 by {
                            assert(g_depth[queue@[0]] <= g_depth[queue@[a]]);
                        }
                    }
                }
            }
""", 'prm.solve.bfs.finish', tags=['C18'])
ann('fn solve', 'after /if elapsed__v > timeout \{[^}]*\}/', r"""
            proof { ax_duration_obeys(); assert(!elapsed__v.is_gt(&timeout));          //@ deadline_exit [C06]
            }
""", 'prm.solve.deadline', tags=['C06'])
ann('fn solve', 'after /goal_reached = Some\(current_idx\);/', r"""
                proof {
                    let w = choose|w: int| 0 <= w < goal_indices@.len() && goal_indices@[w] == current_idx;
                    assert(goal.sat(&self.roadmap@[goal_indices@[w] as int].state));
                    reveal(pm_ok);
                    assert forall|i: int| 0 <= i < self.roadmap@.len() && start_conn(self.roadmap@, &*pd.space, &**vc, start_state, self.connection_radius, i) implies #[trigger] visited@[i] by {
                        let z = choose|z: int| 0 <= z < start_connections@.len() && start_connections@[z] == i as usize;
                        assert(visited@[start_connections@[z] as int]);
                    }
                    lemma_min_goal(self.roadmap@, &*pd.space, &**vc, start_state, self.connection_radius, &**goal, visited@, g_depth, g_done, queue@, current_idx);
                }
""", 'prm.solve.goal_hit')
ann('fn solve', 'loop while#3', r"""
                invariant
                *self == *old(self), self.wf(), self.valid_inv(), self.checked_inv(), self.rng_ok(), self.is_setup(),
                self.roadmap@.len() > 0, start_state == &pd.start_states@[0], pd.start_states@.len() >= 1, vc.valid(start_state),
                    self.problem_def is Some, self.validity_checker is Some,
                    pd == self.problem_def->Some_0, vc == self.validity_checker->Some_0, goal == &pd.goal,
                    self.wf(),
                    (current_idx as int) < self.roadmap@.len(), parent_map@.contains_key(current_idx),
                    neighbor_idx__k <= self.roadmap@[current_idx as int].edges@.len(),
                    pm_ok(parent_map@, g_depth, self.roadmap@, start_connections@),                               //@ bfs_forest_inner [C18]
                    visited@.len() == self.roadmap@.len(),
                    forall|i: int| 0 <= i < visited@.len() ==> (#[trigger] visited@[i] <==> parent_map@.contains_key(i as usize)),
                    forall|k: int| 0 <= k < queue@.len() ==> (#[trigger] queue@[k] as int) < self.roadmap@.len() && parent_map@.contains_key(queue@[k]),
                    goal_reached is None,
                    forall|k: int| 0 <= k < start_connections@.len() ==> visited@[(#[trigger] start_connections@[k]) as int],
                    forall|i: int| 0 <= i < visited@.len() && #[trigger] visited@[i] ==> queue@.contains(i as usize) || g_done.contains(i) || i == current_idx as int,
                    bfs_done_ok(self.roadmap@, &**goal, visited@, g_done),
                    forall|k: int| 0 <= k < neighbor_idx__k ==> 0 <= (#[trigger] self.roadmap@[current_idx as int].edges@[k]) < visited@.len() && visited@[self.roadmap@[current_idx as int].edges@[k] as int],   //@ neighbours_visited [C18]
                    bfs_min_ok(self.roadmap@, &*pd.space, &**vc, start_state, self.connection_radius, visited@, g_depth),   //@ depth_minimal_inner [C18]
                    g_depth.contains_key(current_idx), queue_depths(queue@, g_depth, g_depth[current_idx]),
                    forall|j: int| 0 <= j < self.roadmap@.len() && start_conn(self.roadmap@, &*pd.space, &**vc, start_state, self.connection_radius, j) ==> start_connections@.contains(j as usize),
                decreases self.roadmap@[current_idx as int].edges@.len() - neighbor_idx__k,
""", 'prm.solve.nb.loop', tags=['C18'])
ann('fn solve', 'loop-body-start while#3', r"""
                    let ghost g_q0 = queue@;
                    let ghost g_v0 = visited@;
                    proof { lemma_rm_edge_in_range(self.roadmap@, current_idx as int, neighbor_idx__k - 1); }
""", 'prm.solve.nb.ghost')
ann('fn solve', 'before /parent_map\.insert\(neighbor_idx, Some\(current_idx\)\);/', r"""
                        proof {
                            lemma_pm_insert(parent_map@, g_depth, self.roadmap@, start_connections@, neighbor_idx, current_idx);
                            assert forall|i: int| 0 <= i < self.roadmap@.len() && start_conn(self.roadmap@, &*pd.space, &**vc, start_state, self.connection_radius, i) implies #[trigger] g_v0[i] by {
                                let z = choose|z: int| 0 <= z < start_connections@.len() && start_connections@[z] == i as usize;
                                assert(g_v0[start_connections@[z] as int]);
                            }
                            lemma_min_mark(self.roadmap@, &*pd.space, &**vc, start_state, self.connection_radius, &**goal, g_v0, visited@, g_depth, g_depth.insert(neighbor_idx, g_depth[current_idx] + 1),
                                g_done, queue@, current_idx, neighbor_idx);
                            let ghost d_old = g_depth;
                            g_depth = g_depth.insert(neighbor_idx, g_depth[current_idx] + 1);
                            assert(!d_old.contains_key(neighbor_idx) || true);
                            // depths of everything already in the queue are unchanged (neighbor_idx was not visited, hence not queued)
                            assert forall|a: int| 0 <= a < queue@.len() implies queue@[a] != neighbor_idx by {
                                reveal(pm_ok);
                                if queue@[a] == neighbor_idx { assert(parent_map@.contains_key(queue@[a])); }
                            }
                        }
""", 'prm.solve.nb.insert')
ann('fn solve', 'loop-end while#3', r"""
                    proof {
                        assert forall|k: int| 0 <= k < queue@.len() implies (#[trigger] queue@[k] as int) < self.roadmap@.len() && parent_map@.contains_key(queue@[k]) by {
                            if k < g_q0.len() { assert(queue@[k] == g_q0[k]); }
                        }
                        if visited@ != g_v0 {
                            lemma_done_mark(self.roadmap@, &**goal, g_v0, visited@, g_done, neighbor_idx as int);
                            assert(queue@[queue@.len() - 1] == neighbor_idx);
                        }
                        assert forall|i: int| 0 <= i < visited@.len() && #[trigger] visited@[i] implies queue@.contains(i as usize) || g_done.contains(i) || i == current_idx as int by {
                            if i != neighbor_idx as int || visited@ == g_v0 {
                                if g_v0[i] && g_q0.contains(i as usize) { let w = choose|w: int| 0 <= w < g_q0.len() && g_q0[w] == i as usize; assert(queue@[w] == i as usize); }
                            }
                        }
                        assert forall|k: int| 0 <= k < neighbor_idx__k implies 0 <= (#[trigger] self.roadmap@[current_idx as int].edges@[k]) < visited@.len() && visited@[self.roadmap@[current_idx as int].edges@[k] as int] by {
                            if k < neighbor_idx__k - 1 { assert(g_v0[self.roadmap@[current_idx as int].edges@[k] as int]); }
                        }
                    }
""", 'prm.solve.nb.end')
ann('fn solve', 'before /let goal_node_idx = goal_reached\.ok_or\(PlanningError::NoSolutionFound\)\?;/', r"""
        proof {
            if goal_reached is None {
                // the queue is empty: every visited milestone is finished, so the visited set is closed under roadmap edges
                assert forall|i: int| 0 <= i < self.roadmap@.len() && #[trigger] visited@[i] implies g_done.contains(i) by {
                    if queue@.contains(i as usize) { }
                }
                assert forall|i: int| 0 <= i < self.roadmap@.len() && start_conn(self.roadmap@, &*pd.space, &**vc, start_state, self.connection_radius, i) implies #[trigger] visited@[i] by {
                    let w = choose|w: int| 0 <= w < start_connections@.len() && start_connections@[w] == i as usize;
                    assert(visited@[start_connections@[w] as int]);
                }
                lemma_bfs_complete(self.roadmap@, &*pd.space, &**vc, start_state, self.connection_radius, &**goal, visited@, g_done);
            }
        }
""", 'prm.solve.no_solution', tags=['C18'])
ann('fn solve', 'before /Ok\(self\.reconstruct_path\(start_state, parent_map, goal_node_idx\)\)/', r"""
        proof {
            lemma_prm_path(*start_state, self.roadmap@, parent_map@, g_depth, start_connections@, goal_node_idx, &*pd.space, &**vc, self.connection_radius, rv(self.connection_radius));
            lemma_pm_up_len(parent_map@, g_depth, self.roadmap@, start_connections@, goal_node_idx);
            assert(prm_path(*start_state, self.roadmap@, parent_map@, g_depth, goal_node_idx).len() == g_depth[goal_node_idx] + 2);
        }
""", 'prm.solve.ok', tags=['C01', 'C02', 'C03', 'C04', 'C05'])

ANNS = {SRC: A}

EPILOGUE = r'''
proof fn canary_must_fail<S: State, SP: StateSpace<StateType = S>>(sp: &SP, a: f64, b: f64)
    requires metric_ok(sp), interp_speed_ok(sp), convex_ok(sp), flt(a, b),
{
    ax_f64_obeys(); ax_zero_refl(); ax_rv_consts(); ax_rv_cmp(a, b);
    assert(false);   //@ canary []
}
'''
