"""Unit V-pybind-prm: oxmpl-py/src/geometric wrapper of the prm planner under delegation contracts (see py_bindings.py)."""
from units import py_bindings as _b

globals().update(_b.planner_unit("prm"))
