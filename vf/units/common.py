"""Specification text shared by the planner units (pasted into each generated file)."""

# Tree vocabulary for planners whose Node is {state, parent_index} with append-only parents
# (RRT, RRT-Connect).  Spliced at the top of the unit's source text.
TREE_SPECS = r'''
// ---- tree vocabulary (annotation text; not repo code)
spec fn t_par<S: State>(t: Seq<Node<S>>, i: int) -> int { t[i].parent_index->Some_0 as int }

/// parent links are in range and point to strictly older nodes; node 0 is the only root
spec fn t_shape<S: State>(t: Seq<Node<S>>) -> bool {
    &&& t.len() >= 1
    &&& t[0].parent_index is None
    &&& forall|i: int| 1 <= i < t.len() ==> (#[trigger] t[i]).parent_index is Some && t[i].parent_index->Some_0 < i
}
spec fn t_valid<S: State>(t: Seq<Node<S>>, vc: &dyn StateValidityChecker<S>) -> bool {
    forall|i: int| 1 <= i < t.len() ==> vc.valid(&(#[trigger] t[i]).state)
}
spec fn t_checked<S: State, SP: StateSpace<StateType = S>>(t: Seq<Node<S>>, sp: &SP, vc: &dyn StateValidityChecker<S>) -> bool {
    forall|i: int| 1 <= i < t.len() ==> motion_checked(sp, vc, &t[t_par(t, i)].state, &(#[trigger] t[i]).state)
}
spec fn t_edges_le<S: State, SP: StateSpace<StateType = S>>(t: Seq<Node<S>>, sp: &SP, m: real) -> bool {
    forall|i: int| 1 <= i < t.len() ==> rv(sp.dist_spec(&t[t_par(t, i)].state, &(#[trigger] t[i]).state)) <= m
}
spec fn t_in_bounds<S: State, SP: StateSpace<StateType = S>>(t: Seq<Node<S>>, sp: &SP) -> bool {
    forall|i: int| 0 <= i < t.len() ==> sp.in_bounds_spec(&(#[trigger] t[i]).state)
}

/// the states on the parent chain of node i, from i up to the root
spec fn t_up<S: State>(t: Seq<Node<S>>, i: int) -> Seq<S>
    decreases i
{
    if 0 < i < t.len() && t[i].parent_index is Some && (t[i].parent_index->Some_0 as int) < i {
        seq![t[i].state] + t_up(t, t[i].parent_index->Some_0 as int)
    } else if i == 0 && t.len() > 0 {
        seq![t[0].state]
    } else {
        Seq::<S>::empty()
    }
}

proof fn lemma_up_ends<S: State>(t: Seq<Node<S>>, i: int)
    requires t_shape(t), 0 <= i < t.len()
    ensures t_up(t, i).len() >= 1, t_up(t, i)[0] == t[i].state, t_up(t, i).last() == t[0].state
    decreases i
{
    if i > 0 { lemma_up_ends(t, t_par(t, i)); }
}

/// a property of every node (other than possibly the root) holds for every chain element
proof fn lemma_up_nodes<S: State>(t: Seq<Node<S>>, i: int, p: spec_fn(S) -> bool)
    requires t_shape(t), 0 <= i < t.len(), forall|j: int| 0 <= j < t.len() ==> p((#[trigger] t[j]).state)
    ensures forall|k: int| 0 <= k < t_up(t, i).len() ==> p(#[trigger] t_up(t, i)[k])
    decreases i
{
    if i > 0 {
        let pi = t_par(t, i);
        lemma_up_nodes(t, pi, p);
        let u = t_up(t, i);
        let v = t_up(t, pi);
        assert(u =~= seq![t[i].state] + v);
        assert forall|k: int| 0 <= k < u.len() implies p(#[trigger] u[k]) by {
            if k == 0 { assert(u[0] == t[i].state); } else { assert(u[k] == v[k - 1]); }
        }
    } else {
        assert(t_up(t, 0) =~= seq![t[0].state]);
    }
}

/// a property of every (parent, child) edge holds for every consecutive (older, younger) chain pair
proof fn lemma_up_edges<S: State>(t: Seq<Node<S>>, i: int, q: spec_fn(S, S) -> bool)
    requires t_shape(t), 0 <= i < t.len(), forall|j: int| 1 <= j < t.len() ==> q(t[t_par(t, j)].state, (#[trigger] t[j]).state)
    ensures forall|k: int| #![trigger t_up(t, i)[k]] 0 <= k < t_up(t, i).len() - 1 ==> q(t_up(t, i)[k + 1], t_up(t, i)[k])
    decreases i
{
    if i > 0 {
        let pi = t_par(t, i);
        lemma_up_edges(t, pi, q);
        lemma_up_ends(t, pi);
        let u = t_up(t, i);
        let v = t_up(t, pi);
        assert(u =~= seq![t[i].state] + v);
        assert forall|k: int| #![trigger u[k]] 0 <= k < u.len() - 1 implies q(u[k + 1], u[k]) by {
            if k == 0 { assert(u[1] == v[0]); } else { assert(u[k + 1] == v[k]); assert(u[k] == v[k - 1]); }
        }
    }
}

/// appending a node does not change the chain of an older node
proof fn lemma_up_push<S: State>(t: Seq<Node<S>>, n: Node<S>, i: int)
    requires t_shape(t), 0 <= i < t.len()
    ensures t_up(t.push(n), i) == t_up(t, i)
    decreases i
{
    if i > 0 { lemma_up_push(t, n, t_par(t, i)); }
}
'''

TREE_SPECS += r'''
/// effect of appending node t[n] with parent k on every tree invariant
proof fn lemma_tree_push<S: State, SP: StateSpace<StateType = S>>(g: Seq<Node<S>>, t: Seq<Node<S>>, sp: &SP, vc: &dyn StateValidityChecker<S>, ku: usize)
    requires t_shape(g), t.len() == g.len() + 1, t =~= g.push(t[g.len() as int]), t[g.len() as int].parent_index == Some(ku), 0 <= ku < g.len()
    ensures
        t_shape(t),
        t_valid(g, vc) && vc.valid(&t[g.len() as int].state) ==> t_valid(t, vc),
        t_checked(g, sp, vc) && motion_checked(sp, vc, &g[ku as int].state, &t[g.len() as int].state) ==> t_checked(t, sp, vc),
        forall|m: real| t_edges_le(g, sp, m) && rv(sp.dist_spec(&g[ku as int].state, &t[g.len() as int].state)) <= m ==> #[trigger] t_edges_le(t, sp, m),
        t_in_bounds(g, sp) && sp.in_bounds_spec(&t[g.len() as int].state) ==> t_in_bounds(t, sp),
{
    let n = g.len() as int;
    let k = ku as int;
    assert(forall|i: int| 0 <= i < n ==> t[i] == g[i]);
    assert(t_par(t, n) == k);
    assert forall|m: real| t_edges_le(g, sp, m) && rv(sp.dist_spec(&g[k].state, &t[n].state)) <= m implies #[trigger] t_edges_le(t, sp, m) by {
        assert forall|i: int| 1 <= i < t.len() implies rv(sp.dist_spec(&t[t_par(t, i)].state, &(#[trigger] t[i]).state)) <= m by {
            if i < n { assert(t[i] == g[i]); assert(t_par(t, i) == t_par(g, i)); assert(t[t_par(g, i)] == g[t_par(g, i)]); }
        }
    }
    if t_checked(g, sp, vc) && motion_checked(sp, vc, &g[k].state, &t[n].state) {
        assert forall|i: int| 1 <= i < t.len() implies motion_checked(sp, vc, &t[t_par(t, i)].state, &(#[trigger] t[i]).state) by {
            if i < n { assert(t[i] == g[i]); assert(t_par(t, i) == t_par(g, i)); assert(t[t_par(g, i)] == g[t_par(g, i)]); }
        }
    }
}
'''

# Nearest-neighbour vocabulary (C16)
NEAREST_SPECS = r'''
/// `k` is a first nearest node of `t` to `q`: nothing is strictly nearer, nothing earlier is as near
spec fn t_nearest<S: State, SP: StateSpace<StateType = S>>(t: Seq<Node<S>>, sp: &SP, q: &S, k: int, upto: int) -> bool {
    &&& 0 <= k < upto <= t.len()
    &&& forall|j: int| 0 <= j < upto ==> !flt(sp.dist_spec(&(#[trigger] t[j]).state, q), sp.dist_spec(&t[k].state, q))
}
/// one step of the linear nearest scan: node i has distance d; the running minimum moves to i iff d < min
proof fn lemma_nearest_step<S: State, SP: StateSpace<StateType = S>>(t: Seq<Node<S>>, sp: &SP, q: &S, k: int, i: int)
    requires t_nearest(t, sp, q, k, i), i < t.len()
    ensures
        flt(sp.dist_spec(&t[i].state, q), sp.dist_spec(&t[k].state, q)) ==> t_nearest(t, sp, q, i, i + 1),
        !flt(sp.dist_spec(&t[i].state, q), sp.dist_spec(&t[k].state, q)) ==> t_nearest(t, sp, q, k, i + 1),
{
    let di = sp.dist_spec(&t[i].state, q);
    let dk = sp.dist_spec(&t[k].state, q);
    ax_lt_irrefl(di);
    if flt(di, dk) {
        assert forall|j: int| 0 <= j < i + 1 implies !flt(sp.dist_spec(&(#[trigger] t[j]).state, q), di) by {
            if j < i && flt(sp.dist_spec(&t[j].state, q), di) { ax_lt_trans(sp.dist_spec(&t[j].state, q), di, dk); }
        }
    }
}
proof fn lemma_nearest_init<S: State, SP: StateSpace<StateType = S>>(t: Seq<Node<S>>, sp: &SP, q: &S)
    requires t.len() >= 1
    ensures t_nearest(t, sp, q, 0, 1)
{ ax_lt_irrefl(sp.dist_spec(&t[0].state, q)); }
'''

STEER_LEMMAS = ''
