"""Specification text shared by the planner units (pasted into each generated file)."""

# Tree vocabulary for planners whose Node is {state, parent_index} with append-only parents
# (RRT, RRT-Connect).  Spliced at the top of the unit's source text.
TREE_SPECS = r'''
// ---- tree vocabulary (annotation text; not repo code)
spec fn t_par<S: State>(t: Seq<Node<S>>, i: int) -> int { t[i].parent_index->Some_0 as int }

/// parent links are in range and point to strictly older nodes; node 0 is the only root
#[verifier::opaque]
spec fn t_shape<S: State>(t: Seq<Node<S>>) -> bool {
    &&& t.len() >= 1
    &&& t[0].parent_index is None
    &&& forall|i: int| 1 <= i < t.len() ==> (#[trigger] t[i]).parent_index is Some && t[i].parent_index->Some_0 < i
}
#[verifier::opaque]
spec fn t_valid<S: State>(t: Seq<Node<S>>, vc: &dyn StateValidityChecker<S>) -> bool {
    forall|i: int| 1 <= i < t.len() ==> vc.valid(&(#[trigger] t[i]).state)
}
#[verifier::opaque]
spec fn t_checked<S: State, SP: StateSpace<StateType = S>>(t: Seq<Node<S>>, sp: &SP, vc: &dyn StateValidityChecker<S>) -> bool {
    forall|i: int| 1 <= i < t.len() ==> motion_checked(sp, vc, &t[t_par(t, i)].state, &(#[trigger] t[i]).state)
}
#[verifier::opaque]
spec fn t_edges_le<S: State, SP: StateSpace<StateType = S>>(t: Seq<Node<S>>, sp: &SP, m: real) -> bool {
    forall|i: int| 1 <= i < t.len() ==> rv(sp.dist_spec(&t[t_par(t, i)].state, &(#[trigger] t[i]).state)) <= m
}
#[verifier::opaque]
spec fn t_in_bounds<S: State, SP: StateSpace<StateType = S>>(t: Seq<Node<S>>, sp: &SP) -> bool {
    forall|i: int| 0 <= i < t.len() ==> sp.in_bounds_spec(&(#[trigger] t[i]).state)
}

/// the states on the parent chain of node i, from i up to the root
spec fn t_up<S: State>(t: Seq<Node<S>>, i: int) -> Seq<S>
    decreases i
{
    if 0 < i < t.len() && t[i].parent_index is Some && (t[i].parent_index->Some_0 as int) < i {
        seq![t[i].state] + t_up(t, t[i].parent_index->Some_0 as int)
    } else if i == 0 && t.len() > 0 {
        seq![t[0].state]
    } else {
        Seq::<S>::empty()
    }
}

proof fn lemma_up_ends<S: State>(t: Seq<Node<S>>, i: int)
    requires t_shape(t), 0 <= i < t.len()
    ensures t_up(t, i).len() >= 1, t_up(t, i)[0] == t[i].state, t_up(t, i).last() == t[0].state
    decreases i
{
    reveal(t_shape);
    if i > 0 { lemma_up_ends(t, t_par(t, i)); }
}

/// a property of every node (other than possibly the root) holds for every chain element
proof fn lemma_up_nodes<S: State>(t: Seq<Node<S>>, i: int, p: spec_fn(S) -> bool)
    requires t_shape(t), 0 <= i < t.len(), forall|j: int| 0 <= j < t.len() ==> p((#[trigger] t[j]).state)
    ensures forall|k: int| 0 <= k < t_up(t, i).len() ==> p(#[trigger] t_up(t, i)[k])
    decreases i
{
    reveal(t_shape);
    if i > 0 {
        let pi = t_par(t, i);
        lemma_up_nodes(t, pi, p);
        let u = t_up(t, i);
        let v = t_up(t, pi);
        assert(u =~= seq![t[i].state] + v);
        assert forall|k: int| 0 <= k < u.len() implies p(#[trigger] u[k]) by {
            if k == 0 { assert(u[0] == t[i].state); } else { assert(u[k] == v[k - 1]); }
        }
    } else {
        assert(t_up(t, 0) =~= seq![t[0].state]);
    }
}

/// a property of every (parent, child) edge holds for every consecutive (older, younger) chain pair
proof fn lemma_up_edges<S: State>(t: Seq<Node<S>>, i: int, q: spec_fn(S, S) -> bool)
    requires t_shape(t), 0 <= i < t.len(), forall|j: int| 1 <= j < t.len() ==> q(t[t_par(t, j)].state, (#[trigger] t[j]).state)
    ensures forall|k: int| #![trigger t_up(t, i)[k]] 0 <= k < t_up(t, i).len() - 1 ==> q(t_up(t, i)[k + 1], t_up(t, i)[k])
    decreases i
{
    reveal(t_shape);
    if i > 0 {
        let pi = t_par(t, i);
        lemma_up_edges(t, pi, q);
        lemma_up_ends(t, pi);
        let u = t_up(t, i);
        let v = t_up(t, pi);
        assert(u =~= seq![t[i].state] + v);
        assert forall|k: int| #![trigger u[k]] 0 <= k < u.len() - 1 implies q(u[k + 1], u[k]) by {
            if k == 0 { assert(u[1] == v[0]); } else { assert(u[k + 1] == v[k]); assert(u[k] == v[k - 1]); }
        }
    }
}

/// appending a node does not change the chain of an older node
proof fn lemma_up_push<S: State>(t: Seq<Node<S>>, n: Node<S>, i: int)
    requires t_shape(t), 0 <= i < t.len()
    ensures t_up(t.push(n), i) == t_up(t, i)
    decreases i
{
    reveal(t_shape);
    if i > 0 { lemma_up_push(t, n, t_par(t, i)); }
}
'''

TREE_SPECS += r'''
/// effect of appending node t[n] with parent k on every tree invariant
proof fn lemma_tree_push<S: State, SP: StateSpace<StateType = S>>(g: Seq<Node<S>>, t: Seq<Node<S>>, sp: &SP, vc: &dyn StateValidityChecker<S>, ku: usize)
    requires t_shape(g), t.len() == g.len() + 1, t =~= g.push(t[g.len() as int]), t[g.len() as int].parent_index == Some(ku), 0 <= ku < g.len()
    ensures
        t_shape(t),
        t_valid(g, vc) && vc.valid(&t[g.len() as int].state) ==> t_valid(t, vc),
        t_checked(g, sp, vc) && motion_checked(sp, vc, &g[ku as int].state, &t[g.len() as int].state) ==> t_checked(t, sp, vc),
        forall|m: real| t_edges_le(g, sp, m) && rv(sp.dist_spec(&g[ku as int].state, &t[g.len() as int].state)) <= m ==> #[trigger] t_edges_le(t, sp, m),
        t_in_bounds(g, sp) && sp.in_bounds_spec(&t[g.len() as int].state) ==> t_in_bounds(t, sp),
{
    reveal(t_shape); reveal(t_valid); reveal(t_checked); reveal(t_edges_le); reveal(t_in_bounds);
    let n = g.len() as int;
    let k = ku as int;
    assert(forall|i: int| 0 <= i < n ==> t[i] == g[i]);
    assert(t_par(t, n) == k);
    assert forall|m: real| t_edges_le(g, sp, m) && rv(sp.dist_spec(&g[k].state, &t[n].state)) <= m implies #[trigger] t_edges_le(t, sp, m) by {
        assert forall|i: int| 1 <= i < t.len() implies rv(sp.dist_spec(&t[t_par(t, i)].state, &(#[trigger] t[i]).state)) <= m by {
            if i < n { assert(t[i] == g[i]); assert(t_par(t, i) == t_par(g, i)); assert(t[t_par(g, i)] == g[t_par(g, i)]); }
        }
    }
    if t_checked(g, sp, vc) && motion_checked(sp, vc, &g[k].state, &t[n].state) {
        assert forall|i: int| 1 <= i < t.len() implies motion_checked(sp, vc, &t[t_par(t, i)].state, &(#[trigger] t[i]).state) by {
            if i < n { assert(t[i] == g[i]); assert(t_par(t, i) == t_par(g, i)); assert(t[t_par(g, i)] == g[t_par(g, i)]); }
        }
    }
}
'''

TREE_SPECS += r'''
/// everything a returned tree path inherits from the tree invariants (C01, C02, C03, C04, C05)
spec fn path_props<S: State, SP: StateSpace<StateType = S>>(p: Seq<S>, sp: &SP, vc: &dyn StateValidityChecker<S>, first: S, last: S) -> bool {
    &&& p.len() >= 1
    &&& p[0] == first
    &&& p[p.len() - 1] == last
    &&& forall|k: int| 0 <= k < p.len() ==> vc.valid(&#[trigger] p[k])
    &&& forall|k: int| #![trigger p[k]] 0 <= k < p.len() - 1 ==> seg_checked(sp, vc, &p[k], &p[k + 1])
}
spec fn path_step_le<S: State, SP: StateSpace<StateType = S>>(p: Seq<S>, sp: &SP, m: real) -> bool {
    forall|k: int| #![trigger p[k]] 0 <= k < p.len() - 1 ==> rv(sp.dist_spec(&p[k], &p[k + 1])) <= m
}
spec fn path_in_bounds<S: State, SP: StateSpace<StateType = S>>(p: Seq<S>, sp: &SP) -> bool {
    forall|k: int| 0 <= k < p.len() ==> sp.in_bounds_spec(&#[trigger] p[k])
}
proof fn lemma_chain_path<S: State, SP: StateSpace<StateType = S>>(t: Seq<Node<S>>, n: int, sp: &SP, vc: &dyn StateValidityChecker<S>, m: real)
    requires t_shape(t), 0 <= n < t.len(), t_valid(t, vc), vc.valid(&t[0].state), t_checked(t, sp, vc)
    ensures
        path_props(t_up(t, n).reverse(), sp, vc, t[0].state, t[n].state),
        t_edges_le(t, sp, m) ==> path_step_le(t_up(t, n).reverse(), sp, m),
        t_in_bounds(t, sp) ==> path_in_bounds(t_up(t, n).reverse(), sp),
{
    reveal(t_shape); reveal(t_valid); reveal(t_checked); reveal(t_edges_le); reveal(t_in_bounds);
    lemma_up_ends(t, n);
    lemma_up_nodes(t, n, |s: S| vc.valid(&s));
    lemma_up_edges(t, n, |a: S, b: S| motion_checked(sp, vc, &a, &b));
    let u = t_up(t, n);
    let p = u.reverse();
    assert forall|k: int| 0 <= k < p.len() implies vc.valid(&#[trigger] p[k]) by { assert(p[k] == u[u.len() - 1 - k]); }
    assert forall|k: int| #![trigger p[k]] 0 <= k < p.len() - 1 implies seg_checked(sp, vc, &p[k], &p[k + 1]) by {
        assert(p[k] == u[u.len() - 1 - k]);
        assert(p[k + 1] == u[u.len() - 2 - k]);
        assert(motion_checked(sp, vc, &u[(u.len() - 2 - k) + 1], &u[u.len() - 2 - k]));
    }
    assert(p[0] == t[0].state);
    assert(p[p.len() - 1] == t[n].state);
    if t_edges_le(t, sp, m) {
        lemma_up_edges(t, n, |a: S, b: S| rv(sp.dist_spec(&a, &b)) <= m);
        assert forall|k: int| #![trigger p[k]] 0 <= k < p.len() - 1 implies rv(sp.dist_spec(&p[k], &p[k + 1])) <= m by {
            assert(p[k] == u[u.len() - 1 - k]);
            assert(p[k + 1] == u[u.len() - 2 - k]);
            assert(rv(sp.dist_spec(&u[(u.len() - 2 - k) + 1], &u[u.len() - 2 - k])) <= m);
        }
    }
    if t_in_bounds(t, sp) {
        lemma_up_nodes(t, n, |s: S| sp.in_bounds_spec(&s));
        assert forall|k: int| 0 <= k < p.len() implies sp.in_bounds_spec(&#[trigger] p[k]) by { assert(p[k] == u[u.len() - 1 - k]); }
    }
}
'''

TREE_SPECS += r'''
proof fn lemma_shape_facts<S: State>(t: Seq<Node<S>>)
    requires t_shape(t)
    ensures t.len() >= 1, t[0].parent_index is None
{ reveal(t_shape); }
/// a one-node tree satisfies every invariant
proof fn lemma_tree_single<S: State, SP: StateSpace<StateType = S>>(t: Seq<Node<S>>, sp: &SP, vc: &dyn StateValidityChecker<S>)
    requires t.len() == 1, t[0].parent_index is None
    ensures t_shape(t), t_valid(t, vc), t_checked(t, sp, vc), forall|m: real| #[trigger] t_edges_le(t, sp, m), sp.in_bounds_spec(&t[0].state) ==> t_in_bounds(t, sp)
{ reveal(t_shape); reveal(t_valid); reveal(t_checked); reveal(t_edges_le); reveal(t_in_bounds); }
proof fn lemma_in_bounds_at<S: State, SP: StateSpace<StateType = S>>(t: Seq<Node<S>>, sp: &SP, i: int)
    requires t_in_bounds(t, sp), 0 <= i < t.len()
    ensures sp.in_bounds_spec(&t[i].state)
{ reveal(t_in_bounds); }
proof fn lemma_empty_tree_invs<S: State, SP: StateSpace<StateType = S>>(t: Seq<Node<S>>, sp: &SP, vc: &dyn StateValidityChecker<S>)
    requires t.len() == 0
    ensures t_valid(t, vc), t_checked(t, sp, vc)
{ reveal(t_valid); reveal(t_checked); }
'''

# Nearest-neighbour vocabulary (C16)
NEAREST_SPECS = r'''
/// `k` is a first nearest node of `t` to `q`: nothing is strictly nearer, nothing earlier is as near
#[verifier::opaque]
spec fn t_nearest<S: State, SP: StateSpace<StateType = S>>(t: Seq<Node<S>>, sp: &SP, q: &S, k: int, upto: int) -> bool {
    &&& 0 <= k < upto <= t.len()
    &&& forall|j: int| 0 <= j < upto ==> !flt(sp.dist_spec(&(#[trigger] t[j]).state, q), sp.dist_spec(&t[k].state, q))
}
/// one step of the linear nearest scan: node i has distance d; the running minimum moves to i iff d < min
proof fn lemma_nearest_step<S: State, SP: StateSpace<StateType = S>>(t: Seq<Node<S>>, sp: &SP, q: &S, k: int, i: int)
    requires t_nearest(t, sp, q, k, i), i < t.len()
    ensures
        flt(sp.dist_spec(&t[i].state, q), sp.dist_spec(&t[k].state, q)) ==> t_nearest(t, sp, q, i, i + 1),
        !flt(sp.dist_spec(&t[i].state, q), sp.dist_spec(&t[k].state, q)) ==> t_nearest(t, sp, q, k, i + 1),
{
    reveal(t_nearest);
    let di = sp.dist_spec(&t[i].state, q);
    let dk = sp.dist_spec(&t[k].state, q);
    ax_lt_irrefl(di);
    if flt(di, dk) {
        assert forall|j: int| 0 <= j < i + 1 implies !flt(sp.dist_spec(&(#[trigger] t[j]).state, q), di) by {
            if j < i && flt(sp.dist_spec(&t[j].state, q), di) { ax_lt_trans(sp.dist_spec(&t[j].state, q), di, dk); }
        }
    }
}
proof fn lemma_nearest_init<S: State, SP: StateSpace<StateType = S>>(t: Seq<Node<S>>, sp: &SP, q: &S)
    requires t.len() >= 1
    ensures t_nearest(t, sp, q, 0, 1)
{ reveal(t_nearest); ax_lt_irrefl(sp.dist_spec(&t[0].state, q)); }
'''

STEER_LEMMAS = ''

# Joining a start-tree chain and a goal-tree chain (RRT-Connect)
JOIN_SPECS = r'''
spec fn t_join<S: State>(ts: Seq<Node<S>>, tg: Seq<Node<S>>, si: int, gi: int) -> Seq<S> {
    t_up(ts, si).reverse() + t_up(tg, gi).skip(1)
}
proof fn lemma_join_ends<S: State>(ts: Seq<Node<S>>, tg: Seq<Node<S>>, si: int, gi: int)
    requires t_shape(ts), t_shape(tg), 0 <= si < ts.len(), 1 <= gi < tg.len()
    ensures t_join(ts, tg, si, gi).len() >= 2, t_join(ts, tg, si, gi)[0] == ts[0].state, t_join(ts, tg, si, gi).last() == tg[0].state
{
    reveal(t_shape);
    lemma_up_ends(ts, si);
    lemma_up_ends(tg, gi);
    lemma_up_ends(tg, t_par(tg, gi));
    let a = t_up(ts, si).reverse();
    let b = t_up(tg, gi);
    assert(b =~= seq![tg[gi].state] + t_up(tg, t_par(tg, gi)));
    assert(b.len() >= 2);
    let p = a + b.skip(1);
    assert(p[0] == a[0]);
    assert(p.last() == b.skip(1).last());
    assert(b.skip(1).last() == b.last());
}
proof fn lemma_join_nodes<S: State>(ts: Seq<Node<S>>, tg: Seq<Node<S>>, si: int, gi: int, p: spec_fn(S) -> bool)
    requires t_shape(ts), t_shape(tg), 0 <= si < ts.len(), 1 <= gi < tg.len(),
        forall|j: int| 0 <= j < ts.len() ==> p((#[trigger] ts[j]).state), forall|j: int| 0 <= j < tg.len() ==> p((#[trigger] tg[j]).state)
    ensures forall|k: int| 0 <= k < t_join(ts, tg, si, gi).len() ==> p(#[trigger] t_join(ts, tg, si, gi)[k])
{
    reveal(t_shape);
    lemma_up_nodes(ts, si, p);
    lemma_up_nodes(tg, gi, p);
    let u = t_up(ts, si);
    let a = u.reverse();
    let b = t_up(tg, gi);
    let j = t_join(ts, tg, si, gi);
    assert forall|k: int| 0 <= k < j.len() implies p(#[trigger] j[k]) by {
        if k < a.len() { assert(j[k] == a[k]); assert(a[k] == u[u.len() - 1 - k]); } else { assert(j[k] == b.skip(1)[k - a.len()]); assert(b.skip(1)[k - a.len()] == b[k - a.len() + 1]); }
    }
}
/// q holds for every (parent, child) edge of both trees  ==>  every consecutive pair of the joined path is an
/// edge of one of the trees in one of the two directions (the junction states are equal)
proof fn lemma_join_edges<S: State>(ts: Seq<Node<S>>, tg: Seq<Node<S>>, si: int, gi: int, q: spec_fn(S, S) -> bool)
    requires t_shape(ts), t_shape(tg), 0 <= si < ts.len(), 1 <= gi < tg.len(), ts[si].state == tg[gi].state,
        forall|j: int| 1 <= j < ts.len() ==> q(ts[t_par(ts, j)].state, (#[trigger] ts[j]).state),
        forall|j: int| 1 <= j < tg.len() ==> q(tg[t_par(tg, j)].state, (#[trigger] tg[j]).state),
    ensures forall|k: int| #![trigger t_join(ts, tg, si, gi)[k]] 0 <= k < t_join(ts, tg, si, gi).len() - 1 ==>
        q(t_join(ts, tg, si, gi)[k], t_join(ts, tg, si, gi)[k + 1]) || q(t_join(ts, tg, si, gi)[k + 1], t_join(ts, tg, si, gi)[k])
{
    reveal(t_shape);
    lemma_up_edges(ts, si, q);
    lemma_up_edges(tg, gi, q);
    lemma_up_ends(ts, si);
    lemma_up_ends(tg, gi);
    let u = t_up(ts, si);
    let a = u.reverse();
    let b = t_up(tg, gi);
    let j = t_join(ts, tg, si, gi);
    assert forall|k: int| #![trigger j[k]] 0 <= k < j.len() - 1 implies q(j[k], j[k + 1]) || q(j[k + 1], j[k]) by {
        if k + 1 < a.len() {
            assert(j[k] == u[u.len() - 1 - k]);
            assert(j[k + 1] == u[u.len() - 2 - k]);
            assert(q(u[(u.len() - 2 - k) + 1], u[u.len() - 2 - k]));
        } else if k + 1 == a.len() {
            // junction: a.last() == ts[si].state == tg[gi].state == b[0]; next is b[1], the parent of gi
            assert(j[k] == a[a.len() - 1]);
            assert(a[a.len() - 1] == u[0]);
            assert(j[k + 1] == b.skip(1)[0]);
            assert(b.skip(1)[0] == b[1]);
            assert(q(b[0int + 1], b[0int]));
        } else {
            let m = k - a.len();
            assert(j[k] == b.skip(1)[m]);
            assert(j[k + 1] == b.skip(1)[m + 1]);
            assert(b.skip(1)[m] == b[m + 1]);
            assert(b.skip(1)[m + 1] == b[m + 2]);
            assert(q(b[(m + 1) + 1], b[m + 1]));
        }
    }
}

proof fn lemma_join_path<S: State, SP: StateSpace<StateType = S>>(ts: Seq<Node<S>>, tg: Seq<Node<S>>, si: int, gi: int, sp: &SP, vc: &dyn StateValidityChecker<S>, m: real)
    requires t_shape(ts), t_shape(tg), 0 <= si < ts.len(), 1 <= gi < tg.len(), ts[si].state == tg[gi].state,
        t_valid(ts, vc), vc.valid(&ts[0].state), t_valid(tg, vc), vc.valid(&tg[0].state), t_checked(ts, sp, vc), t_checked(tg, sp, vc)
    ensures
        path_props(t_join(ts, tg, si, gi), sp, vc, ts[0].state, tg[0].state),
        t_join(ts, tg, si, gi).len() >= 2,
        (t_edges_le(ts, sp, m) && t_edges_le(tg, sp, m) && metric_ok(sp)) ==> path_step_le(t_join(ts, tg, si, gi), sp, m),
        (t_in_bounds(ts, sp) && t_in_bounds(tg, sp)) ==> path_in_bounds(t_join(ts, tg, si, gi), sp),
{
    reveal(t_shape); reveal(t_valid); reveal(t_checked); reveal(t_edges_le); reveal(t_in_bounds);
    let p = t_join(ts, tg, si, gi);
    lemma_join_ends(ts, tg, si, gi);
    lemma_join_nodes(ts, tg, si, gi, |s: S| vc.valid(&s));
    lemma_join_edges(ts, tg, si, gi, |a: S, b: S| motion_checked(sp, vc, &a, &b));
    assert forall|k: int| #![trigger p[k]] 0 <= k < p.len() - 1 implies seg_checked(sp, vc, &p[k], &p[k + 1]) by {
        assert(motion_checked(sp, vc, &p[k], &p[k + 1]) || motion_checked(sp, vc, &p[k + 1], &p[k]));
    }
    if t_edges_le(ts, sp, m) && t_edges_le(tg, sp, m) && metric_ok(sp) {
        lemma_join_edges(ts, tg, si, gi, |a: S, b: S| rv(sp.dist_spec(&a, &b)) <= m);
        assert forall|k: int| #![trigger p[k]] 0 <= k < p.len() - 1 implies rv(sp.dist_spec(&p[k], &p[k + 1])) <= m by {
            reveal(metric_ok);
            assert(sp.dist_spec(&p[k], &p[k + 1]) == sp.dist_spec(&p[k + 1], &p[k]));
        }
    }
    if t_in_bounds(ts, sp) && t_in_bounds(tg, sp) {
        lemma_join_nodes(ts, tg, si, gi, |s: S| sp.in_bounds_spec(&s));
    }
}
'''
