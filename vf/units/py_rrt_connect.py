"""Unit V-pybind-rrt_connect: oxmpl-py/src/geometric wrapper of the rrt_connect planner under delegation contracts (see py_bindings.py)."""
from units import py_bindings as _b

globals().update(_b.planner_unit("rrt_connect"))
