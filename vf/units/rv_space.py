"""Unit V-rvspace: oxmpl/src/base/spaces/real_vector_state_space.rs under contract for EVERY dimension:
constructor (C12), interpolation formula (C10), bounds enforcement, bounds check and sampler (C11).
distance / get_maximum_extent use iterator adapters (outside the Verus subset): they are external_body here and are
covered by the bounded Kani harnesses."""
import re
from extract import Ann

NAME = "V-rvspace"
SRC = "oxmpl/src/base/spaces/real_vector_state_space.rs"
SOURCES = [SRC]
PRELUDE = ["core.rs", "spaces.rs", "sampling.rs"]
SERVES = ["C10", "C11", "C12", "C04", "C14"]
FUNCTIONS = [SRC + "::RealVectorStateSpace::" + f for f in ("new", "interpolate", "enforce_bounds", "satisfies_bounds", "sample_uniform")]
# functions whose contract pins an exact float expression (see check.py: a failure counts only with a concrete failing input)
PROXY_FUNCTIONS = {"interpolate": ["C10", "C11", "C12", "C04", "C14"], "satisfies_bounds": ["C10", "C11", "C12", "C04", "C14"], "sample_uniform": ["C14"]}
TRUSTED = ["RealVectorStateSpace::distance, get_maximum_extent and get_longest_valid_segment_length (no listed property constrains the resolution of R^n itself) are external_body in this unit (iterator adapters; covered by bounded Kani harnesses)",
           "struct RealVectorState { values: Vec<f64> } is prelude text of this unit",
           "rand's random_range(lo..hi) on f64 is a deterministic function of the generator state (prelude sampling.rs: draw_f64 / after_draw) and returns lo <= v < hi when lo < hi (its panic conditions are the precondition); that the value is UNIFORM and successive draws independent is rand's documented law, assumed",
           "vec![x; n] as the stub vec_repeat (length n, every element x)",
           "f64::clamp is the uninterpreted function f64_fn3(1, ..) with axiom ax_clamp (audited by the Layer-0 Kani harness ax_clamp); unit rule RV5 (iter_mut().enumerate() -> index loop)",
           "EXACT f64 axioms ax_sub_pos_le / ax_add_pos_ge (a - e <= a <= a + e for finite e > 0, a not NaN) and f64::EPSILON > 0: audited by Layer-0 Kani harnesses of the same names"]


def _pre(text):
    def rep(m):
        return "assert_eq_usize(%s, %s);" % (m.group(1).strip(), m.group(2).strip()) + "\n" * m.group(0).count("\n")
    text = re.sub(r'assert_eq!\(\s*([^,]+),\s*([^,]+),\s*"[^"]*"\s*,?\s*\);', rep, text)
    # unit rule RV1: vec![x; n] -> vec_repeat(x, n)
    text = re.sub(r'vec!\[\(([^;\]]+)\); (\w+)\]', r'vec_repeat((\1), \2)', text)
    # unit rule RV2: rng.random_range(a..b) -> rng_random_range_f64(rng, a, b)
    text = re.sub(r'rng\.random_range\((\w+)\.\.(\w+)\)', r'rng_random_range_f64(rng, \1, \2)', text)
    # unit rule RV3: type annotation only
    text = text.replace('let mut values = Vec::with_capacity(', 'let mut values: Vec<f64> = Vec::with_capacity(')
    # unit rule RV4: visibility only (a private field makes the datatype opaque to pub spec functions)
    text = text.replace("    longest_valid_segment_fraction: f64,\n}", "    pub longest_valid_segment_fraction: f64,\n}")
    # unit rule RV5: `for (I, X) in E.iter_mut().enumerate() {` -> index loop binding `X = &mut E[I]` (same elements, same order)
    text = re.sub(r'for \((\w+), (\w+)\) in ([\w.]+)\.iter_mut\(\)\.enumerate\(\) \{', r'for \1 in 0..\3.len() { let \2 = &mut \3[\1];', text)
    text = text.replace("#[derive(Clone)]\npub struct RealVectorStateSpace", "\npub struct RealVectorStateSpace")
    return text


PREPROCESS = {SRC: _pre}
PRELUDE_EDITS = [
    ("    fn satisfies_bounds(&self, state: &Self::StateType) -> (r: bool)\n        ensures r == self.in_bounds_spec(state);\n",
     "    fn satisfies_bounds(&self, state: &Self::StateType) -> (r: bool) requires self.state_ok(state), self.space_ok(),\n        ensures r == self.in_bounds_spec(state);     //@ space.satisfies_bounds.law [C11]\n"),
    ("    spec fn in_bounds_spec(&self, a: &Self::StateType) -> bool;\n", "    spec fn in_bounds_spec(&self, a: &Self::StateType) -> bool; spec fn state_ok(&self, a: &Self::StateType) -> bool; spec fn space_ok(&self) -> bool;\n"),
    ("    fn interpolate(&self, from: &Self::StateType, to: &Self::StateType, t: f64, state: &mut Self::StateType)\n        ensures *final(state) == self.interp_spec(from, to, t);\n",
     "    fn interpolate(&self, from: &Self::StateType, to: &Self::StateType, t: f64, state: &mut Self::StateType) requires self.state_ok(from), self.state_ok(to), self.state_ok(old(state)),\n        ensures self.interp_rel(from, to, t, final(state)), self.state_ok(final(state));     //@ space.interpolate.law [C10]\n"),
    ("    fn enforce_bounds(&self, state: &mut Self::StateType);\n",
     "    spec fn interp_rel(&self, from: &Self::StateType, to: &Self::StateType, t: f64, out: &Self::StateType) -> bool; spec fn enforce_rel(&self, before: &Self::StateType, after: &Self::StateType) -> bool; fn enforce_bounds(&self, state: &mut Self::StateType) requires self.state_ok(old(state)), self.space_ok(), ensures self.enforce_rel(old(state), final(state)), self.state_ok(final(state));     //@ space.enforce_bounds.law [C11]\n"),
    ("        requires seeded_mode() ==> old(rng).det(),                  //@ space.sample_uniform.det [C07]\n        ensures final(rng).det() == old(rng).det(),\n            r is Ok ==> self.sample_set(&r->Ok_0);\n",
     "        requires self.space_ok(), seeded_mode() ==> old(rng).det(),                  //@ space.sample_uniform.det [C07]\n        ensures final(rng).det() == old(rng).det(), r is Ok ==> self.sample_draws(*old(rng), *final(rng), &r->Ok_0),     //@ space.sample_uniform.draws [C14]\n            r is Ok ==> self.sample_set(&r->Ok_0);     //@ space.sample_uniform.law [C11,C04]\n"),
    ("    spec fn sample_set(&self, s: &Self::StateType) -> bool;      // the states sample_uniform can return\n",
     "    spec fn sample_set(&self, s: &Self::StateType) -> bool; spec fn sample_draws<R>(&self, g0: R, g1: R, s: &Self::StateType) -> bool;\n"),
]

A = []


def ann(*a, **k):
    A.append(Ann(*a, **k))


VOCAB = r'''
pub struct RealVectorState { pub values: Vec<f64> }
impl State for RealVectorState { }
#[verifier::external_body]
pub fn assert_eq_usize(a: usize, b: usize)      // unit rule: assert_eq!(a, b, "..")
    requires a == b      //@ assert_eq.holds [C08]
{ assert_eq!(a, b); }
#[verifier::external_body]
pub fn vec_repeat(x: (f64, f64), n: usize) -> (r: Vec<(f64, f64)>)      // unit rule RV1: vec![x; n]
    ensures r@.len() == n, forall|i: int| 0 <= i < n ==> r@[i] == x,
{ vec![x; n] }
// EXACT axioms (audited by Layer-0 Kani harnesses of the same names)
pub axiom fn ax_eps_pos() ensures flt(0.0f64, spec_f64_const(1)), f64_pred(1, spec_f64_const(1));
pub axiom fn ax_sub_pos_le(a: f64, e: f64) requires flt(0.0f64, e), f64_pred(1, e), !fnan(a) ensures fle(a.sub_spec(e), a);
pub axiom fn ax_add_pos_ge(a: f64, e: f64) requires flt(0.0f64, e), f64_pred(1, e), !fnan(a) ensures fle(a, a.add_spec(e));
// f64::clamp (EXACT, audited by the Layer-0 harness ax_clamp): NaN stays NaN; otherwise the result is in [lo, hi] and a value already in [lo, hi] is returned unchanged (bit for bit)
pub axiom fn ax_clamp(x: f64, lo: f64, hi: f64) requires fle(lo, hi)
    ensures fnan(x) ==> fnan(f64_fn3(1, x, lo, hi)),
            !fnan(x) ==> fle(lo, f64_fn3(1, x, lo, hi)) && fle(f64_fn3(1, x, lo, hi), hi),
            (fle(lo, x) && fle(x, hi)) ==> f64_fn3(1, x, lo, hi) == x;
pub axiom fn ax_nan_arith(a: f64, e: f64) requires fnan(a) ensures fnan(a.sub_spec(e)), fnan(a.add_spec(e));
pub axiom fn ax_lt_le(a: f64, b: f64) requires flt(a, b) ensures fle(a, b);
pub axiom fn ax_lt_not_nan(a: f64, b: f64) requires flt(a, b) || fle(a, b) ensures !fnan(a), !fnan(b);
pub axiom fn ax_gt_not_le(a: f64, b: f64) requires fle(a, b) ensures !fgt(a, b);
'''
ann('top', '', VOCAB, 'rv.vocab')
ann('impl#1', 'impl-start', r'''
    /// the representation invariant every constructed space satisfies (C12)
    pub open spec fn wf(&self) -> bool {
        &&& self.bounds@.len() == self.dimension
        &&& forall|i: int| 0 <= i < self.dimension ==> flt((#[trigger] self.bounds@[i]).0, self.bounds@[i].1)      //@ wf.lower_lt_upper [C12]
    }
    pub open spec fn value_ok(&self, i: int, v: f64) -> bool {
        !(fgt(v.sub_spec(spec_f64_const(1)), self.bounds@[i].1) || flt(v.add_spec(spec_f64_const(1)), self.bounds@[i].0))
    }
''', 'rv.specs')
ann('fn new', 'sig', r'''
        ensures
            r is Ok ==> r.unwrap().wf() && r.unwrap().dimension == dimension,                                                   //@ new.ok_wf [C12]
            (r is Ok && bounds_option is Some) ==> r.unwrap().bounds@ == bounds_option.unwrap()@,                                   //@ new.ok_keeps_bounds [C12]
            (r is Ok && bounds_option is None) ==> forall|i: int| 0 <= i < dimension ==> (#[trigger] r.unwrap().bounds@[i]) == (spec_f64_const(6), spec_f64_infinity()),     //@ new.ok_unbounded [C12]
            (bounds_option is Some && bounds_option.unwrap()@.len() != dimension) ==> r is Err,                                    //@ new.err_dimension [C12]
            (bounds_option is Some && exists|i: int| 0 <= i < bounds_option.unwrap()@.len() && !flt((#[trigger] bounds_option.unwrap()@[i]).0, bounds_option.unwrap()@[i].1)) ==> r is Err,     //@ new.err_invalid_bound [C12]
            (bounds_option is None && dimension == 0) ==> r is Err,                                                              //@ new.err_zero_dim [C12]
''', 'rv.new', ret='r', tags=['C12'])
ann('fn new', 'body-start', 'proof { ax_f64_obeys(); ax_neg_inf_lt_inf(); }', 'rv.new.ax')
ann('fn new', 'loop while#1', r'''
            invariant
                <f64 as PartialOrdSpec<f64>>::obeys_partial_cmp_spec(),
                bound__k <= explicit_bounds@.len(),
                forall|j: int| 0 <= j < bound__k ==> flt((#[trigger] explicit_bounds@[j]).0, explicit_bounds@[j].1),      //@ prefix_valid [C12]
            decreases explicit_bounds@.len() - bound__k,
''', 'rv.new.loop', tags=['C12'])
for f in ('get_maximum_extent', 'distance', 'get_longest_valid_segment_length'):
    ann('fn ' + f, 'attr', '#[verifier::external_body]', 'rv.%s.ext' % f)

ann('impl#2', 'impl-start', r'''
    open spec fn state_ok(&self, s: &RealVectorState) -> bool { s.values@.len() == self.dimension }
    open spec fn space_ok(&self) -> bool { self.wf() }
    uninterp spec fn dist_spec(&self, a: &RealVectorState, b: &RealVectorState) -> f64;
    uninterp spec fn lvsl_spec(&self) -> f64;
    uninterp spec fn interp_spec(&self, a: &RealVectorState, b: &RealVectorState, t: f64) -> RealVectorState;
    /// C10: every output coordinate is from_i + (to_i - from_i) * t, evaluated exactly like this
    open spec fn interp_rel(&self, from: &RealVectorState, to: &RealVectorState, t: f64, out: &RealVectorState) -> bool {
        &&& out.values@.len() == from.values@.len()
        &&& forall|i: int| 0 <= i < from.values@.len() ==> #[trigger] out.values@[i] == from.values@[i].add_spec(to.values@[i].sub_spec(from.values@[i]).mul_spec(t))      //@ interpolate_law [C10]
    }
    /// C11: the bounds check accepts exactly the states whose every coordinate is inside its interval widened by EPSILON
    open spec fn in_bounds_spec(&self, s: &RealVectorState) -> bool {
        forall|i: int| 0 <= i < self.dimension ==> self.value_ok(i, #[trigger] s.values@[i])      //@ bounds_law [C11]
    }
    /// C11: enforcing clamps every coordinate into its interval (NaN stays NaN), nothing else; consequences proved below:
    /// the enforced state satisfies the bounds and enforcing it again changes nothing
    open spec fn enforce_rel(&self, before: &RealVectorState, after: &RealVectorState) -> bool {
        &&& after.values@.len() == before.values@.len()
        &&& forall|i: int| 0 <= i < self.dimension ==> #[trigger] after.values@[i] == f64_fn3(1, before.values@[i], self.bounds@[i].0, self.bounds@[i].1)      //@ enforce_law [C11]
        &&& self.in_bounds_spec(after)                                                                                                                            //@ enforced_satisfies_bounds [C11]
        &&& forall|i: int| 0 <= i < self.dimension ==> f64_fn3(1, #[trigger] after.values@[i], self.bounds@[i].0, self.bounds@[i].1) == after.values@[i] || fnan(after.values@[i])    //@ enforce_idempotent [C11]
    }
    /// C14: coordinate i of the sample IS the i-th draw random_range(lower_i..upper_i) from the caller's generator -- one draw per
    /// coordinate, in order, no other use of the generator and no post-processing (with rand's law: independent uniform coordinates)
    open spec fn sample_draws<R>(&self, g0: R, g1: R, s: &RealVectorState) -> bool {
        &&& s.values@.len() == self.dimension
        &&& forall|i: int| 0 <= i < self.dimension ==> #[trigger] s.values@[i] == draw_f64(nth_gen(g0, i as nat), self.bounds@[i].0, self.bounds@[i].1)      //@ sample_is_product_of_draws [C14]
        &&& g1 == nth_gen(g0, self.dimension as nat)                                                                                                 //@ sample_uses_dimension_draws [C14]
    }
    /// C11: a sample has one coordinate per dimension, each inside [lower, upper) of its interval; it satisfies the bounds (lemma below)
    open spec fn sample_set(&self, s: &RealVectorState) -> bool {
        &&& s.values@.len() == self.dimension
        &&& forall|i: int| 0 <= i < self.dimension ==> fle(self.bounds@[i].0, #[trigger] s.values@[i]) && flt(s.values@[i], self.bounds@[i].1)      //@ sample_law [C11,C04]
        &&& self.in_bounds_spec(s)                                                                                                    //@ sample_satisfies_bounds [C11]
    }
''', 'rv.stspecs', tags=['C10', 'C11'])
ann('fn interpolate', 'body-start', 'proof { ax_f64_obeys(); }', 'rv.interp.ax')
ann('fn interpolate', 'loop for#1', r'''
            invariant
                <f64 as AddSpec>::obeys_add_spec(), <f64 as MulSpec>::obeys_mul_spec(), <f64 as SubSpec>::obeys_sub_spec(),
                from.values@.len() == self.dimension, to.values@.len() == self.dimension, out_state.values@.len() == self.dimension,
                forall|j: int| 0 <= j < i ==> #[trigger] out_state.values@[j] == from.values@[j].add_spec(to.values@[j].sub_spec(from.values@[j]).mul_spec(t)),      //@ prefix_interpolated [C10]
''', 'rv.interp.loop', tags=['C10'])
ann('fn enforce_bounds', 'body-start', 'proof { ax_f64_obeys(); }', 'rv.enf.ax')
ann('fn enforce_bounds', 'loop for#1', r'''
            invariant
                self.wf(), state.values@.len() == self.dimension, state.values@.len() == old(state).values@.len(),
                forall|j: int| 0 <= j < i ==> #[trigger] state.values@[j] == f64_fn3(1, old(state).values@[j], self.bounds@[j].0, self.bounds@[j].1),      //@ prefix_clamped [C11]
                forall|j: int| i <= j < self.dimension ==> #[trigger] state.values@[j] == old(state).values@[j],
''', 'rv.enf.loop', tags=['C11'])
ann('fn enforce_bounds', 'before /let \\(lower, upper\\) = self\\.bounds\\[i\\];/', 'proof { ax_lt_le(self.bounds@[i as int].0, self.bounds@[i as int].1); }', 'rv.enf.pre', tags=['C11'])
ann('fn enforce_bounds', 'loop-after for#1', r'''
        proof {
            ax_eps_pos();
            assert forall|j: int| 0 <= j < self.dimension implies self.value_ok(j, #[trigger] state.values@[j])
                && (f64_fn3(1, state.values@[j], self.bounds@[j].0, self.bounds@[j].1) == state.values@[j] || fnan(state.values@[j])) by {
                let (lo, hi) = (self.bounds@[j].0, self.bounds@[j].1);
                let x = old(state).values@[j]; let v = state.values@[j]; let e = spec_f64_const(1);
                ax_lt_le(lo, hi); ax_clamp(x, lo, hi); ax_clamp(v, lo, hi);
                if fnan(x) {
                    ax_nan_arith(v, e); ax_cmp_nan(v.sub_spec(e), hi); ax_cmp_nan(v.add_spec(e), lo);
                } else {
                    ax_lt_not_nan(lo, v);
                    ax_sub_pos_le(v, e); ax_le_trans(v.sub_spec(e), v, hi); ax_le_not_gt(v.sub_spec(e), hi);
                    ax_add_pos_ge(v, e); ax_le_trans(lo, v, v.add_spec(e)); ax_le_not_gt(lo, v.add_spec(e)); ax_lt_gt(v.add_spec(e), lo);
                }
            }
        }
''', 'rv.enf.lemma', tags=['C11'])
ann('fn satisfies_bounds', 'body-start', 'proof { ax_f64_obeys(); }', 'rv.sat.ax')
ann('fn satisfies_bounds', 'loop for#1', r'''
            invariant
                <f64 as AddSpec>::obeys_add_spec(), <f64 as SubSpec>::obeys_sub_spec(), <f64 as PartialOrdSpec<f64>>::obeys_partial_cmp_spec(),
                state.values@.len() == self.dimension, self.bounds@.len() == self.dimension,
                forall|j: int| 0 <= j < i ==> self.value_ok(j, #[trigger] state.values@[j]),      //@ prefix_in_bounds [C11]
''', 'rv.sat.loop', tags=['C11'])
ann('fn sample_uniform', 'body-start', 'proof { ax_f64_obeys(); }', 'rv.sample.ax')
ann('fn sample_uniform', 'loop for#1', r'''
            invariant
                <f64 as SubSpec>::obeys_sub_spec(), <f64 as PartialOrdSpec<f64>>::obeys_partial_cmp_spec(),
                self.wf(), values@.len() == i,
                rng.det() == old(rng).det(), seeded_mode() ==> rng.det(),
                *rng == nth_gen(*old(rng), i as nat),
                forall|j: int| 0 <= j < i ==> #[trigger] values@[j] == draw_f64(nth_gen(*old(rng), j as nat), self.bounds@[j].0, self.bounds@[j].1),      //@ prefix_drawn [C14]
                forall|j: int| 0 <= j < i ==> fle(self.bounds@[j].0, #[trigger] values@[j]) && flt(values@[j], self.bounds@[j].1),      //@ prefix_sampled [C11,C04]
''', 'rv.sample.loop', tags=['C11', 'C04'])
ann('fn sample_uniform', 'before /Ok\(RealVectorState \{ values \}\)/', r'''
        proof {
            // a coordinate in [lower, upper) passes the EPSILON-widened check: v - EPS <= v < upper and lower <= v <= v + EPS
            ax_eps_pos();
            assert forall|j: int| 0 <= j < self.dimension implies self.value_ok(j, #[trigger] values@[j]) by {
                let v = values@[j]; let e = spec_f64_const(1);
                ax_lt_not_nan(v, self.bounds@[j].1);
                ax_sub_pos_le(v, e); ax_le_lt_trans(v.sub_spec(e), v, self.bounds@[j].1); ax_lt_gt(v.sub_spec(e), self.bounds@[j].1);
                ax_lt_irrefl(v.sub_spec(e)); ax_gt_asym(v.sub_spec(e), self.bounds@[j].1);
                ax_add_pos_ge(v, e); ax_le_trans(self.bounds@[j].0, v, v.add_spec(e)); ax_le_not_gt(self.bounds@[j].0, v.add_spec(e)); ax_lt_gt(v.add_spec(e), self.bounds@[j].0);
            }
        }
''', 'rv.sample.lemma', tags=['C11'])

ANNS = {SRC: A}

EPILOGUE = r'''
pub axiom fn ax_neg_inf_lt_inf() ensures flt(spec_f64_const(6), spec_f64_infinity());
pub axiom fn ax_gt_asym(a: f64, b: f64) requires flt(a, b) ensures !fgt(a, b);
pub axiom fn ax_le_not_gt(a: f64, b: f64) requires fle(a, b) ensures !fgt(a, b);
proof fn canary_must_fail(a: f64, b: f64)
    requires flt(a, b),
{
    ax_f64_obeys();
    assert(false);   //@ canary []
}
'''
