"""Unit V-rrtconnect: oxmpl/src/geometric/planners/rrt_connect.rs under contract."""
from extract import Ann
from units.common import TREE_SPECS, NEAREST_SPECS, JOIN_SPECS

NAME = "V-rrtconnect"
SRC = "oxmpl/src/geometric/planners/rrt_connect.rs"
SOURCES = [SRC]
PRELUDE = ["core.rs"]
SERVES = ["C01", "C02", "C03", "C04", "C05", "C06", "C07", "C08", "C15", "C16"]
FUNCTIONS = [SRC + "::" + f for f in ("RRTConnect::new", "RRTConnect::reconstruct_path", "RRTConnect::extend", "RRTConnect::check_motion",
                                      "<RRTConnect as Planner>::setup", "<RRTConnect as Planner>::solve")]
TRUSTED = ["verus/prelude/core.rs: trait contracts, std/rand/clock stubs, EXACT f64 axioms",
           "helpers f64_ceil_to_usize / usize_to_f64 / vec_extend_skip (external_body, rules R1/R2/R6a)"]

A = []


def ann(*a, **k):
    A.append(Ann(*a, **k))


EXTEND_SPECS = r'''
// `#[derive(PartialEq)]` on the field-less enum ExtendResult is structural equality (ASSUMED; trusted)
impl PartialEqSpecImpl for ExtendResult {
    open spec fn obeys_eq_spec() -> bool { true }
    open spec fn eq_spec(&self, other: &ExtendResult) -> bool { *self == *other }
}

/// C16: the effect of one `extend(tree, q)` call: a nearest node k is chosen, the steered state is
/// appended as its child iff the motion to it is valid; Reached iff the target was within max.
#[verifier::opaque]
spec fn extend_rel<S: State, SP: StateSpace<StateType = S>>(g: Seq<Node<S>>, t: Seq<Node<S>>, sp: &SP, vc: &dyn StateValidityChecker<S>, q: &S, max: f64, r: Option<(ExtendResult, usize)>) -> bool {
    exists|k: int| #[trigger] t_nearest(g, sp, q, k, g.len() as int) && {
        let qn = steer_spec(sp, &g[k].state, q, max);
        if motion_checked(sp, vc, &g[k].state, &qn) {
            &&& r is Some
            &&& r->Some_0.1 == g.len()
            &&& t =~= g.push(Node { state: qn, parent_index: Some(k as usize) })
            &&& (r->Some_0.0 is Reached <==> !fgt(sp.dist_spec(&g[k].state, q), max))
        } else {
            r is None && t =~= g
        }
    }
}
'''

ann('top', '', TREE_SPECS + NEAREST_SPECS + JOIN_SPECS + EXTEND_SPECS, 'rc.vocab')
for g in ('S', 'SP', 'G'):
    ann('struct RRTConnect', 'attr', '#[verifier::reject_recursive_types(%s)]' % g, 'rc.attr.' + g)

ann('impl#1', 'impl-start', r'''
    pub closed spec fn is_setup(&self) -> bool { self.problem_def is Some }
    pub closed spec fn cur_pd(&self) -> Arc<ProblemDefinition<S, SP, G>> { self.problem_def->Some_0 }
    pub closed spec fn cur_vc(&self) -> Arc<dyn StateValidityChecker<S>> { self.validity_checker->Some_0 }
    /// typestate + shape of both trees + roots (start tree: the start state; goal tree: a state satisfying the goal)
    pub closed spec fn wf(&self) -> bool {
        &&& (self.problem_def is Some <==> self.validity_checker is Some)
        &&& (self.problem_def is Some ==> {
            &&& t_shape(self.start_tree@)
            &&& t_shape(self.goal_tree@)
            &&& self.start_tree@.len() >= 1
            &&& self.goal_tree@.len() >= 1
            &&& self.cur_pd().start_states.len() >= 1
            &&& self.start_tree@[0].state == self.cur_pd().start_states@[0]
            &&& self.cur_pd().goal.sat(&self.goal_tree@[0].state)
            &&& self.cur_pd().goal.goal_sample_set(&self.goal_tree@[0].state)
        })
    }
    pub closed spec fn valid_inv(&self) -> bool {
        self.problem_def is Some && self.validity_checker is Some ==> t_valid(self.start_tree@, &*self.cur_vc()) && t_valid(self.goal_tree@, &*self.cur_vc())
    }
    pub closed spec fn checked_inv(&self) -> bool {
        self.problem_def is Some && self.validity_checker is Some ==>
            t_checked(self.start_tree@, &*self.cur_pd().space, &*self.cur_vc()) && t_checked(self.goal_tree@, &*self.cur_pd().space, &*self.cur_vc())
    }
    pub closed spec fn rng_ok(&self) -> bool {
        seeded_mode() ==> self.rng is Some && self.rng->Some_0.det()
    }
    pub closed spec fn edges_le(&self, m: real) -> bool {
        self.problem_def is Some ==> t_edges_le(self.start_tree@, &*self.cur_pd().space, m) && t_edges_le(self.goal_tree@, &*self.cur_pd().space, m)
    }
    pub closed spec fn sp_max(&self) -> f64 { self.max_distance }
    pub closed spec fn sp_bias(&self) -> f64 { self.goal_bias }
    pub closed spec fn sp_rng(&self) -> Option<Box<StdRng>> { self.rng }
    pub closed spec fn start_tree_is_root_of(&self, s: S) -> bool { self.start_tree@ =~= seq![Node { state: s, parent_index: None }] }
    pub closed spec fn goal_tree_is_single_root(&self) -> bool { self.goal_tree@.len() == 1 && self.goal_tree@[0].parent_index is None }
    pub closed spec fn in_bounds_inv(&self) -> bool {
        self.problem_def is Some ==> t_in_bounds(self.start_tree@, &*self.cur_pd().space) && t_in_bounds(self.goal_tree@, &*self.cur_pd().space)
    }
''', 'rc.specs')

ann('fn new', 'sig', r'''
        requires seeded_mode() ==> config.seed is Some,
        ensures
            r.wf(), r.valid_inv(), r.checked_inv(),           //@ wf [C02,C08,C15]
            !r.is_setup(),                                    //@ not_setup [C08]
            r.rng_ok(),                                       //@ rng [C07]
            r.sp_max() == max_distance, r.sp_bias() == goal_bias,
''', 'rc.new', ret='r')
ann('fn new', 'closure /\|s\| /', '|s: u64| -> (b: Box<StdRng>) ensures b.det()   //@ seeded [C07]', 'rc.new.closure', tags=['C07'])


# ---------------------------------------------------------------- reconstruct_path (slice version)
ann('fn reconstruct_path', 'sig', r"""
        requires t_shape(tree@), last_node_idx < tree@.len(),
        ensures p.0@ == t_up(tree@, last_node_idx as int).reverse(),   //@ post [C01,C02,C03,C05,C15]
""", 'rc.reconstruct_path', ret='p')
ann('fn reconstruct_path', 'loop while#1', r"""
            invariant
                t_shape(tree@),
                last_node_idx < tree@.len(),
                current_index is Some ==> current_index->Some_0 < tree@.len(),
                path_states@ + (if current_index is Some { t_up(tree@, current_index->Some_0 as int) } else { Seq::<S>::empty() })
                    =~= t_up(tree@, last_node_idx as int),    //@ inv [C01,C02,C03,C05,C15]
            ensures current_index is None,
            decreases (if current_index is Some { current_index->Some_0 + 1 } else { 0 }),     //@ terminates [C15]
""", 'rc.reconstruct_path.loop')
ann('fn reconstruct_path', 'loop-body-start while#1', 'let ghost old_ps = path_states@;', 'rc.reconstruct_path.ghost')
ann('fn reconstruct_path', 'loop-end while#1', r"""
            proof {
                reveal(t_shape);
                let t = tree@;
                if path_states@.len() > 0 { axiom_state_clone::<S>(t[index as int].state, path_states@.last()); }
                let rest = if index > 0 { t_up(t, t[index as int].parent_index->Some_0 as int) } else { Seq::<S>::empty() };
                assert(t_up(t, index as int) =~= seq![t[index as int].state] + rest);
                assert(path_states@ + rest =~= old_ps + (seq![t[index as int].state] + rest));
            }
""", 'rc.reconstruct_path.step')
ann('fn reconstruct_path', 'loop-after while#1', r"""
        proof { assert(path_states@ + Seq::<S>::empty() =~= path_states@); }
""", 'rc.reconstruct_path.end')

# ---------------------------------------------------------------- check_motion (associated fn)
ann('fn check_motion', 'sig', r"""
        ensures r == motion_checked(&*pd.space, &**vc, from, to),   //@ post [C01,C03,C15]
""", 'rc.check_motion', ret='r')
ann('fn check_motion', 'body-start', 'proof { ax_f64_obeys(); reveal(motion_checked); }', 'rc.check_motion.ax')
ann('fn check_motion', 'loop for#1', r"""
            invariant
                num_steps == num_steps_spec(&*pd.space, from, to),
                num_steps > 1,
                *space == pd.space,
                <f64 as DivSpec>::obeys_div_spec(),
                0 <= iter.index@ <= num_steps,
                iter.index@ < num_steps ==> i == iter.index@ + 1,
                forall|j: usize| 1 <= j <= iter.index@ ==> vc.valid(&#[trigger] space.interp_spec(from, to, t_of(j, num_steps))),   //@ inv [C01,C03,C15]
""", 'rc.check_motion.loop', label='iter')
ann('fn check_motion', 'before /return false;/', r"""
                proof {
                    reveal(motion_checked);
                    assert(1 <= i <= num_steps);
                    assert(t == t_of(i, num_steps));
                    assert(interpolated_state == space.interp_spec(from, to, t_of(i, num_steps)));
                    assert(!vc.valid(&space.interp_spec(from, to, t_of(i, num_steps))));
                }
""", 'rc.check_motion.false')

# ---------------------------------------------------------------- extend: one-step transition (C16) + invariant preservation
ann('fn extend', 'sig', r"""
        requires t_shape(old(tree)@),
        ensures
            extend_rel(old(tree)@, final(tree)@, &*pd.space, &**vc, q_target, max_distance, r),          //@ one_step [C16]
            t_shape(final(tree)@),                                                                         //@ shape [C15]
            final(tree)@.len() >= old(tree)@.len(),
            final(tree)@[0] == old(tree)@[0],
            r is Some ==> r->Some_0.1 == old(tree)@.len() && final(tree)@.len() == old(tree)@.len() + 1,
            r is None ==> final(tree)@ == old(tree)@,
            r is Some && r->Some_0.0 is Reached ==> final(tree)@[r->Some_0.1 as int].state == *q_target,     //@ reached [C02,C03]
            t_valid(old(tree)@, &**vc) ==> t_valid(final(tree)@, &**vc),                                   //@ valid [C01,C15]
            t_checked(old(tree)@, &*pd.space, &**vc) ==> t_checked(final(tree)@, &*pd.space, &**vc),       //@ checked [C03,C15]
            (interp_speed_ok(&*pd.space) && fle(0.0f64, max_distance) && t_edges_le(old(tree)@, &*pd.space, rv(max_distance)))
                ==> t_edges_le(final(tree)@, &*pd.space, rv(max_distance)),                                //@ edges [C05,C15]
            (convex_ok(&*pd.space) && fle(0.0f64, max_distance) && pd.space.in_bounds_spec(q_target) && t_in_bounds(old(tree)@, &*pd.space))
                ==> t_in_bounds(final(tree)@, &*pd.space),                                                 //@ in_bounds [C04]
""", 'rc.extend', ret='r')
ann('fn extend', 'body-start', r"""
        proof { ax_f64_obeys(); lemma_shape_facts(tree@); lemma_nearest_init(tree@, &*pd.space, q_target); }
        let ghost g0 = tree@;
""", 'rc.extend.start')
ann('fn extend', 'loop for#1', r"""
            invariant
                tree@ == g0, t_shape(g0),
                1 <= i <= tree@.len(),
                <f64 as PartialOrdSpec<f64>>::obeys_partial_cmp_spec(),
                nearest_node_index < tree@.len(),
                min_dist == pd.space.dist_spec(&tree@[nearest_node_index as int].state, q_target),     //@ min_dist [C05,C16]
                t_nearest(tree@, &*pd.space, q_target, nearest_node_index as int, i as int),            //@ nearest [C16]
""", 'rc.extend.nearest', tags=['C05', 'C16'])
ann('fn extend', 'loop-body-start for#1', 'let ghost g_near = nearest_node_index;', 'rc.extend.nearest.ghost')
ann('fn extend', 'loop-end for#1', r"""
            proof { lemma_nearest_step(tree@, &*pd.space, q_target, g_near as int, i as int); }
""", 'rc.extend.nearest.step', tags=['C16'])
ann('fn extend', 'after /let q_near = tree\[nearest_node_index\]\.state\.clone\(\);/', r"""
        proof { axiom_state_clone::<S>(tree@[nearest_node_index as int].state, q_near); }
""", 'rc.extend.clone1')
ann('fn extend', 'after /let mut q_new = q_near\.clone\(\);/', r"""
        proof { axiom_state_clone::<S>(q_near, q_new); }
""", 'rc.extend.clone2')
ann('fn extend', 'after /q_new = q_target\.clone\(\);/', r"""
            proof { axiom_state_clone::<S>(*q_target, q_new); }
""", 'rc.extend.clone3')
ann('fn extend', 'before /if Self::check_motion\(&q_near, &q_new, pd, vc\) \{/', r"""
        proof {
            assert(q_new == steer_spec(&*pd.space, &q_near, q_target, max_distance));                  //@ steer [C05,C16]
            assert(t_nearest(g0, &*pd.space, q_target, nearest_node_index as int, g0.len() as int));
            if convex_ok(&*pd.space) && fle(0.0f64, max_distance) && pd.space.in_bounds_spec(q_target) && t_in_bounds(g0, &*pd.space) {
                lemma_in_bounds_at(g0, &*pd.space, nearest_node_index as int);
                lemma_steer_in_bounds(&*pd.space, &q_near, q_target, max_distance);
            }
            if interp_speed_ok(&*pd.space) && fle(0.0f64, max_distance) {
                lemma_steer_len(&*pd.space, &q_near, q_target, max_distance);
            }
        }
""", 'rc.extend.steer', tags=['C04', 'C05', 'C16'])
ann('fn extend', 'before /Some\(\(result, new_node_idx\)\)/', r"""
            proof {
                let t = tree@;
                let n = t.len() - 1;
                assert(t =~= g0.push(t[n]));
                lemma_mc_valid(&*pd.space, &**vc, &q_near, &q_new);
                lemma_tree_push(g0, t, &*pd.space, &**vc, nearest_node_index);
                assert(t[n] == Node { state: q_new, parent_index: Some(nearest_node_index) });
                reveal(extend_rel);
                assert(extend_rel(g0, t, &*pd.space, &**vc, q_target, max_distance, Some((result, new_node_idx))));
            }
""", 'rc.extend.push', tags=['C01', 'C03', 'C04', 'C05', 'C15', 'C16'])

ann('fn extend', 'before /(?m)^\s*None$/', r"""
            proof {
                reveal(extend_rel);
                assert(extend_rel(g0, tree@, &*pd.space, &**vc, q_target, max_distance, None));
            }
""", 'rc.extend.none', tags=['C16'])

# ---------------------------------------------------------------- Planner impl
ann('impl#2', 'impl-start', r"""
    closed spec fn p_wf(&self) -> bool { self.wf() }
    closed spec fn p_valid(&self) -> bool { self.valid_inv() }
    closed spec fn p_checked(&self) -> bool { self.checked_inv() }
    closed spec fn p_rng_ok(&self) -> bool { self.rng_ok() }
    closed spec fn p_is_setup(&self) -> bool { self.is_setup() }
    closed spec fn p_pd(&self) -> Arc<ProblemDefinition<S, SP, G>> { self.cur_pd() }
    closed spec fn p_vc(&self) -> Arc<dyn StateValidityChecker<S>> { self.cur_vc() }
    closed spec fn p_edges_le(&self, m: real) -> bool { self.edges_le(m) }
    closed spec fn p_step_limit(&self) -> real { rv(self.max_distance) }
    closed spec fn p_step_params_ok(&self) -> bool { fle(0.0f64, self.max_distance) }
    closed spec fn p_in_bounds(&self) -> bool { self.in_bounds_inv() }
    closed spec fn p_space_ok(&self, sp: &SP) -> bool { true }
""", 'rc.planner_specs')

ann('fn setup', 'sig', r"""
        ensures
            final(self).start_tree_is_root_of(problem_def.start_states@[0]),                               //@ start_tree_is_root [C02,C15]
            final(self).goal_tree_is_single_root(),                                                        //@ goal_tree_is_root [C15]
            final(self).sp_max() == old(self).sp_max(), final(self).sp_bias() == old(self).sp_bias(),
            (problem_def.space.in_bounds_spec(&problem_def.start_states@[0]) && samples_in_bounds(&*problem_def)) ==> final(self).p_in_bounds(),  //@ inb [C04]
""", 'rc.setup')
ann('fn setup', 'before /let start_state = pd\.start_states\[0\]\.clone\(\);/', r"""
        assert(pd.start_states.len() >= 1);   //@ kf.empty_start [C08]
""", 'rc.setup.start')
ann('fn setup', 'after /let start_state = pd\.start_states\[0\]\.clone\(\);/', r"""
        proof { axiom_state_clone::<S>(pd.start_states@[0], start_state); }
""", 'rc.setup.clone')
ann('fn setup', 'after /self\.goal_tree\.push\(goal_node\);/', r"""
        proof {
            lemma_tree_single(self.start_tree@, &*problem_def.space, &*validity_checker);
            lemma_tree_single(self.goal_tree@, &*problem_def.space, &*validity_checker);
            if samples_in_bounds(&*problem_def) { lemma_sample_in_bounds(&*problem_def, &self.goal_tree@[0].state); }
        }
""", 'rc.setup.end')

ann('fn solve', 'attr', '#[verifier::exec_allows_no_decreases_clause]', 'rc.solve.attr')
ann('fn solve', 'sig', r"""
        ensures
            old(self).p_is_setup() && !old(self).p_vc().valid(&old(self).p_pd().start_states@[0])
                ==> r == Err::<Path<S>, PlanningError>(PlanningError::InvalidStartState),                //@ invalid_start [C01,C08]
            r is Err ==> (r->Err_0 is Timeout || r->Err_0 is InvalidStartState || r->Err_0 is PlannerUninitialised),   //@ result_domain [C06]
            final(self).sp_max() == old(self).sp_max(), final(self).sp_bias() == old(self).sp_bias(),
            (old(self).p_is_setup() && interp_speed_ok(&*old(self).p_pd().space) && metric_ok(&*old(self).p_pd().space) && old(self).p_step_params_ok() && old(self).p_edges_le(old(self).p_step_limit())) ==> {
                &&& final(self).p_edges_le(old(self).p_step_limit())                                                         //@ edges_le [C05,C15]
                &&& r is Ok ==> forall|k: int| #![trigger r->Ok_0.0[k]] 0 <= k < r->Ok_0.0.len() - 1 ==>
                        rv(old(self).p_pd().space.dist_spec(&r->Ok_0.0[k], &r->Ok_0.0[k + 1])) <= old(self).p_step_limit()     //@ path_step [C05]
            },
            (old(self).p_is_setup() && in_bounds_premises(&*old(self).p_pd(), old(self).sp_max()) && old(self).p_in_bounds()) ==> {
                &&& final(self).p_in_bounds()                                                                                //@ in_bounds [C04]
                &&& r is Ok ==> forall|k: int| 0 <= k < r->Ok_0.0.len() ==> old(self).p_pd().space.in_bounds_spec(&#[trigger] r->Ok_0.0[k])   //@ path_in_bounds [C04]
            },
""", 'rc.solve', ret='r')
ann('fn solve', 'body-start', 'proof { ax_f64_obeys(); }', 'rc.solve.ax')
ann('fn solve', 'loop loop#1', r"""
            invariant
                self.wf(), self.is_setup(),                                        //@ wf [C02,C08,C15]
                self.valid_inv(),                                                  //@ valid [C01,C15]
                self.checked_inv(),                                                //@ checked [C03,C15]
                self.problem_def == old(self).problem_def, self.validity_checker == old(self).validity_checker,   //@ frame [C02,C08]
                pd == self.problem_def->Some_0, vc == self.validity_checker->Some_0, goal == &pd.goal,
                vc.valid(&self.start_tree@[0].state),                              //@ root_valid [C01,C15]
                self.max_distance == old(self).max_distance, self.goal_bias == old(self).goal_bias,
                seeded_mode() ==> rng.det(),                                       //@ rng [C07]
                (interp_speed_ok(&*pd.space) && fle(0.0f64, self.max_distance) && old(self).edges_le(rv(self.max_distance))) ==> self.edges_le(rv(self.max_distance)),   //@ edges [C05,C15]
                (in_bounds_premises(&**pd, self.max_distance) && old(self).in_bounds_inv()) ==> self.in_bounds_inv(),    //@ in_bounds [C04]
                <f64 as DivSpec>::obeys_div_spec(), <f64 as PartialOrdSpec<f64>>::obeys_partial_cmp_spec(),
""", 'rc.solve.loop')
ann('fn solve', 'loop-body-start loop#1', r"""
            let ghost gs0 = self.start_tree@;
            let ghost gg0 = self.goal_tree@;
            let ghost mut g_deadline_checked = false;
""", 'rc.solve.iter.ghost')
ann('fn solve', 'after /if elapsed__v > timeout \{[^}]*\}/', r"""
            proof {
                ax_duration_obeys();
                assert(!elapsed__v.is_gt(&timeout));          //@ deadline_exit [C06]
                g_deadline_checked = true;
            }
""", 'rc.solve.deadline', tags=['C06'])
ann('fn solve', 'before /let q_rand = if rng\.random_bool\(self\.goal_bias\) \{/', r"""
            assert(fle(0.0f64, self.goal_bias) && fle(self.goal_bias, 1.0f64));   //@ kf.goal_bias_range [C08]
""", 'rc.solve.bias')


ann('fn solve', 'before /let \(tree_a, tree_b, is_growing_start_tree\) =/', r"""
            proof { assert(g_deadline_checked);   //@ deadline_first [C06]
            }
""", 'rc.solve.deadline_first', tags=['C06'])
ann('fn solve', 'before /if let Some\(\(_extend_result, new_node_idx_a\)\) =/', r"""
            let ghost g_q = q_rand;
            proof {
                assert(goal.goal_sample_set(&q_rand) || pd.space.sample_set(&q_rand));                 //@ sample_source [C16]
                assert(feq(self.goal_bias, 0.0f64) ==> pd.space.sample_set(&q_rand));                  //@ bias_zero [C16]
                assert(feq(self.goal_bias, 1.0f64) ==> goal.goal_sample_set(&q_rand));                 //@ bias_one [C16]
                // RRT-Connect grows the smaller tree first
                assert(is_growing_start_tree == (gs0.len() <= gg0.len()));                             //@ smaller_first [C16]
                if in_bounds_premises(&**pd, self.max_distance) { lemma_sample_in_bounds(&**pd, &q_rand); }
            }
""", 'rc.solve.sample', tags=['C04', 'C16'])
ann('fn solve', 'before /return Ok\(self\.reconstruct_path\(&self\.start_tree, new_node_idx_a\)\);/', r"""
                    proof {
                        lemma_chain_path(self.start_tree@, new_node_idx_a as int, &*pd.space, &**vc, rv(self.max_distance));
                    }
""", 'rc.solve.ok_direct', tags=['C01', 'C02', 'C03', 'C04', 'C05'])
ann('fn solve', 'before /if let Some\(\(connect_result, new_node_idx_b\)\) =/', r"""
                proof {
                    if in_bounds_premises(&**pd, self.max_distance) && t_in_bounds(tree_a@, &*pd.space) {
                        lemma_in_bounds_at(tree_a@, &*pd.space, new_node_idx_a as int);
                    }
                }
""", 'rc.solve.qnew_in_bounds', tags=['C04'])
ann('fn solve', 'before /if connect_result == ExtendResult::Reached \{/', r"""
                    let ghost ga1 = tree_a@;
                    let ghost gb1 = tree_b@;
                    proof {
                        assert(gb1[new_node_idx_b as int].state == ga1[new_node_idx_a as int].state || !(connect_result is Reached));
                    }
""", 'rc.solve.snap')
ann('fn solve', 'before /let \(start_idx, goal_idx\) = if is_growing_start_tree \{/', r"""
                        proof {
                            assert(is_growing_start_tree ==> self.start_tree@ == ga1 && self.goal_tree@ == gb1);
                            assert(!is_growing_start_tree ==> self.goal_tree@ == ga1 && self.start_tree@ == gb1);
                        }
""", 'rc.solve.resolve')
ann('fn solve', 'before /println!\(\s*"Solution found after \{\} total nodes\.",/', r"""
                        proof { axiom_vec_len_bound(&self.start_tree); axiom_vec_len_bound(&self.goal_tree); }
""", 'rc.solve.len_bound')
ann('fn solve', 'after /goal_path\.reverse\(\);/', r"""
                        proof {
                            let b = t_up(self.goal_tree@, goal_idx as int);
                            assert(b.reverse().reverse() =~= b);
                        }
""", 'rc.solve.rev')
ann('fn solve', 'before /return Ok\(Path\(start_path\)\);/', r"""
                        proof {
                            let ts = self.start_tree@;
                            let tg = self.goal_tree@;
                            assert(start_path@ =~= t_join(ts, tg, start_idx as int, goal_idx as int));
                            assert(ts[start_idx as int].state == tg[goal_idx as int].state);              //@ junction [C02,C03]
                            // KNOWN FINDING: the root of the goal tree (a goal sample) was never submitted to the checker
                            assert(vc.valid(&tg[0].state));                                               //@ kf.goal_root_unvalidated [C01]
                            lemma_join_path(ts, tg, start_idx as int, goal_idx as int, &*pd.space, &**vc, rv(self.max_distance));
                        }
""", 'rc.solve.ok_join', tags=['C01', 'C02', 'C03', 'C04', 'C05'])

ANNS = {SRC: A}

EPILOGUE = r'''
proof fn canary_must_fail<S: State, SP: StateSpace<StateType = S>>(sp: &SP, a: f64, b: f64)
    requires metric_ok(sp), interp_speed_ok(sp), convex_ok(sp), flt(a, b),
{
    ax_f64_obeys(); ax_zero_refl(); ax_rv_consts(); ax_rv_cmp(a, b);
    assert(false);   //@ canary []
}
'''
