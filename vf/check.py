#!/usr/bin/env python3
"""check.py Cxx [--tier quick|thorough] [--replay PATH]

Decides one property of /verif/properties.jsonl on /repo's current working tree.

exit 0  every obligation tagged with the property was discharged (or is a listed known finding)
exit 1  + `VIOLATION property=<id> replay=<path>`: an obligation failed definitively
exit 2  undecided (lost anchor, unsupported construct, resource limit, tool failure, vacuity guard)
"""
import argparse
import concurrent.futures as cf
import json
import re
import os
import subprocess
import sys
import time

HERE = os.path.dirname(os.path.abspath(__file__))
VERIF = os.path.dirname(HERE)
sys.path.insert(0, HERE)
import verus_run  # noqa: E402
import props  # noqa: E402

KF_PATH = os.path.join(VERIF, "known_findings.json")


def load_kf():
    if not os.path.exists(KF_PATH):
        return []
    return json.load(open(KF_PATH)).get("findings", [])


def fn_tags(gen):
    """function name -> set of property tags of every marked clause inside that function (contract, invariants, hints);
    trait-level clauses `prelude.solve.*` / `prelude.setup.*` belong to the function of that name."""
    m = {}
    for o in gen.origins:
        if not o.get("marked") or not o.get("tags"):
            continue
        fn = gen.fn_of(o)
        if fn is None and o.get("kind") == "prelude":
            parts = o.get("clause", "").split(".")
            if len(parts) >= 3:
                fn = parts[1]
        if fn:
            m.setdefault(fn, set()).update(o["tags"])
    return m


def match_kf_any(fl, unit, kfs):
    ids = [c[0] for c in fl.clauses]
    for kf in kfs:
        # the failure must BE the listed obligation (its only named clause), not another obligation whose trace passes it
        if kf.get("unit") == unit and kf.get("clause") and set(ids) == {kf["clause"]} and (not kf.get("fn") or kf["fn"] == fl.fn):
            return kf
    return None


def relevant(fl, pid, unit_serves, ftags=None, unit=None, kfs=()):
    # a listed known finding counts only for the property it is listed under
    kf = match_kf_any(fl, unit, kfs) if unit else None
    if kf is not None:
        return kf.get("property") == pid
    # a failed clause is assumed by everything after it in the same function, so it counts against every property
    # that has a clause in that function
    if ftags and fl.fn and fl.clauses and pid in ftags.get(fl.fn, ()):
        return True
    return _relevant(fl, pid, unit_serves)


def _relevant(fl, pid, unit_serves):
    """A failed obligation counts against property pid if a clause it hit names pid on its own line (`//@ id [..]`);
    a failure that hit only clauses without an own marker (they inherit the annotation's coarse default tags) is a
    broken proof step and counts against every property the unit serves; a bare safety obligation at a real source
    line (unwrap / index / arithmetic) is panic freedom (C08)."""
    if not fl.clauses:
        return pid == "C08"
    own = [c for c in fl.clauses if c[3]]
    if own:
        tags = set()
        for c in own:
            tags.update(c[1])
        if pid in tags:
            return True
        # an own-marked clause with an empty tag list (e.g. the canary) never counts
        if all(len(c[1]) == 0 for c in own):
            return False
        # the failure may also have hit unmarked lines of other annotations: those widen it
        if len(own) == len(fl.clauses):
            return False
    return pid in unit_serves


def match_kf(fl, unit, pid, kfs):
    ids = [c[0] for c in fl.clauses]
    for kf in kfs:
        if kf.get("property") != pid or kf.get("unit") != unit:
            continue
        if kf.get("fn") and kf["fn"] != fl.fn:
            continue
        if kf.get("clause"):
            if set(ids) == {kf["clause"]}:
                return kf
            continue
        if kf.get("site"):
            if ids:
                continue
            for (f, l, t) in fl.repo_sites:
                if " ".join(kf["site"].split()) in " ".join(t.split()):
                    return kf
    return None


def is_proxy(unit, fn, pid):
    """PROXY_FUNCTIONS of a unit: a list of function names (for every property) or a dict name -> properties"""
    pf = getattr(unit, "PROXY_FUNCTIONS", ())
    if isinstance(pf, dict):
        return pid in pf.get(fn, ())
    return fn in pf


_SHAPES = None


def grown_functions(u, g):
    """functions of unit u that have more unannotated loops / closures than on the unchanged tree (vf/shapes.json)"""
    global _SHAPES
    if _SHAPES is None:
        try:
            _SHAPES = json.load(open(os.path.join(VERIF, "vf", "shapes.json")))
        except Exception:
            _SHAPES = {}
    base = _SHAPES.get(u)
    if base is None:
        return {}
    out = {}
    # functions that did not exist on the unchanged tree and carry no contract: a caller cannot be re-verified across them
    base_names = set(k.split("@")[0] for fs in base.values() for k in fs)
    new_uncontracted = set(k.split("@")[0] for fs in g.shapes.values() for k, sh in fs.items() if k.split("@")[0] not in base_names and not sh.get("has_contract"))
    for rel, fs in g.shapes.items():
        for key, sh in fs.items():
            hit = sorted(new_uncontracted & set(sh.get("calls", [])))
            if hit:
                out[key.split("@")[0]] = "a call to the new function(s) %s that carry no contract" % ", ".join(hit)
    for rel, fs in g.shapes.items():
        for key, sh in fs.items():
            b = base.get(rel, {}).get(key)
            if b is None:
                # a function that did not exist: only its own loops / closures matter
                b = dict(unannotated_loops=0, unannotated_closures=0)
            why = []
            if sh["unannotated_loops"] > b["unannotated_loops"]:
                why.append("%d new loop(s)" % (sh["unannotated_loops"] - b["unannotated_loops"]))
            if sh["unannotated_closures"] > b["unannotated_closures"]:
                why.append("%d new closure(s)" % (sh["unannotated_closures"] - b["unannotated_closures"]))
            if why:
                out[key.split("@")[0]] = " and ".join(why) + ((" and " + out[key.split("@")[0]]) if key.split("@")[0] in out else "")
    return out


def describe(fl):
    parts = [fl.message, "fn=" + str(fl.fn)]
    if fl.clauses:
        parts.append("clause=" + ",".join(c[0] for c in fl.clauses))
    if fl.repo_sites:
        f, l, t = fl.repo_sites[0]
        parts.append("repo=%s:%d `%s`" % (f, l, " ".join(t.split())[:100]))
    return " ".join(parts)


def run_v_units(units, tier, seed, pid=None, kfs=()):
    out = {}
    with cf.ThreadPoolExecutor(max_workers=8) as ex:
        futs = {ex.submit(verus_run.run_unit, u, None, None, None): u for u in units}
        for fu in cf.as_completed(futs):
            out[futs[fu]] = fu.result()
    # stability guard: anything that failed is re-run with another solver seed and a larger resource limit
    confirm = {}
    def needs_confirm(u, r):
        if r.status == "undecided":
            return "resource" in r.reason
        if r.status != "failures":
            return False
        serves = getattr(verus_run.load_unit(u), "SERVES", [])
        ft = fn_tags(r.gen) if r.gen is not None else None
        return any(relevant(fl, pid, serves, ft, u, kfs) and not match_kf(fl, u, pid, kfs) for fl in r.failures)
    todo = [u for u, r in out.items() if needs_confirm(u, r)]
    extra_seeds = [seed + 1] if tier == "quick" else [seed + 1, seed + 2]
    if tier == "thorough":
        todo = list(units)
    if todo:
        with cf.ThreadPoolExecutor(max_workers=8) as ex:
            futs = {}
            for u in todo:
                for sd in extra_seeds:
                    futs[ex.submit(verus_run.run_unit, u, None, sd, 30)] = (u, sd)
            for fu in cf.as_completed(futs):
                confirm.setdefault(futs[fu][0], []).append(fu.result())
    return out, confirm


def main():
    ap = argparse.ArgumentParser()
    ap.add_argument("pid")
    ap.add_argument("--tier", default=os.environ.get("VERIF_TIER", "quick"))
    ap.add_argument("--replay")
    a = ap.parse_args()
    pid = a.pid
    tier = a.tier if a.tier in ("quick", "thorough") else "quick"
    try:
        seed = int(os.environ.get("VERIF_SEED", "0"))
    except ValueError:
        seed = 0
    if a.replay:
        import replay
        sys.exit(replay.run_replay(pid, a.replay))
    P = props.PROPS[pid]
    t0 = time.time()
    kfs = load_kf()
    # developer switches used only by vf/seed_regress.py so that parallel runs on scratch trees do not clobber the real output
    EVID = os.environ.get("VERIF_EVIDENCE_DIR") or os.path.join(VERIF, "evidence")
    REPL = os.environ.get("VERIF_REPLAY_DIR") or os.path.join(VERIF, "replays")
    os.makedirs(EVID, exist_ok=True)
    os.makedirs(REPL, exist_ok=True)

    v_units = P.get("v_units", [])
    results, confirm = run_v_units(v_units, tier, seed, pid, kfs)
    k_result = None
    if P.get("k_harnesses") and not os.environ.get("VERIF_SKIP_K"):   # VERIF_SKIP_K: developer switch for quick experiments only
        import kani_run
        k_result = kani_run.run_property(pid, P, tier, seed)

    undecided = []
    proxy_failed = []   # (unit, failure): exact-expression contracts that failed; need a concrete input to count
    violations = []     # (unit, failure)
    known = []          # (kf, unit, failure)
    obligations = 0
    discharged = 0
    samples = []
    fn_under_contract = []
    smt_s = 0.0
    rule_hits = {}
    trusted = set()
    unit_summaries = {}
    for u in v_units:
        r = results[u]
        unit = verus_run.load_unit(u)
        serves = getattr(unit, "SERVES", [])
        us = dict(status=r.status, reason=r.reason, functions_verified=r.verified, functions_with_errors=r.errors,
                  wall_s=round(r.wall_s, 2), smt_s=round(r.smt_s, 2))
        unit_summaries[unit.NAME] = us
        smt_s += r.smt_s
        if pid == "C07" and r.gen is not None and r.gen.clock_uses:
            for cu in r.gen.clock_uses:
                violations.append((unit.NAME, dict(obligation="C07 side condition (syntactic): a clock reading is used outside the deadline test `elapsed > timeout`: %s:%d `%s`" % (cu["file"], cu["line"], cu["text"][:160]), clock_use=cu)))
        if pid == "C07" and r.gen is not None and r.gen.entropy_uses:
            for eu in r.gen.entropy_uses:
                violations.append((unit.NAME, dict(obligation="C07 side condition (syntactic): a source of randomness / time other than the generator passed in is used outside the planners: %s:%d `%s`" % (eu["file"], eu["line"], eu["text"]), entropy_use=eu)))
        if pid == "C07" and r.gen is not None and r.gen.hash_order_uses:
            for hu in r.gen.hash_order_uses:
                violations.append((unit.NAME, dict(obligation="C07 side condition (syntactic): iteration over a hash container (its order depends on per-instance random hash keys, not on the seed): %s:%d `%s`" % (hu["file"], hu["line"], hu["text"][:160]), hash_order_use=hu)))
        if r.status == "undecided":
            undecided.append("%s: %s" % (unit.NAME, r.reason))
            continue
        g = r.gen
        lost_here = [l for l in g.lost if pid in l["tags"]]
        if g.lost:
            us["lost_annotations"] = g.lost
        if lost_here:
            undecided.append("%s: lost anchor of annotation(s) this property depends on: %s" % (unit.NAME, "; ".join(l["id"] + " (" + l["reason"][:120] + ")" for l in lost_here)))
            continue
        for k, v in g.rule_hits.items():
            rule_hits[k] = rule_hits.get(k, 0) + v
        us["slowest_functions_s"] = [(k.split("::")[-1], round(v, 2)) for k, v in sorted(r.fn_times.items(), key=lambda kv: -kv[1])[:3]]      # > ~20 s would be an unstable query: split it into lemmas
        us["dropped"] = g.dropped
        us["generated_sha256"] = g.sha
        # mechanical scan of the generated file for every construct that is an assumption, not a proof
        scan = {}
        for pat, name in ((r'#\[verifier::external_body\]', "external_body"), (r'\bassume_specification\b', "assume_specification"), (r'\baxiom fn\b', "axiom fn"),
                          (r'\bassume\s*\(', "assume("), (r'\badmit\s*\(', "admit("), (r'\buninterp spec fn\b', "uninterp spec fn")):
            scan[name] = len(re.findall(pat, g.text))
        us["assumption_constructs_in_generated_file"] = scan
        # failures relevant to this property; a failure must be confirmed by every re-run
        ftags = fn_tags(g)
        rel = [fl for fl in r.failures if relevant(fl, pid, serves, ftags, u, kfs)]
        confirmed = []
        for fl in rel:
            ok = True
            for r2 in confirm.get(u, []):
                if r2.status == "undecided":
                    ok = None
                    break
                if fl.key() not in [f2.key() for f2 in r2.failures]:
                    ok = False
            if ok is None:
                undecided.append("%s: re-run undecided: %s" % (unit.NAME, r2.reason))
            elif ok:
                confirmed.append(fl)
            else:
                undecided.append("%s: unstable obligation (fails for some solver seeds only): %s" % (unit.NAME, describe(fl)))
        if tier == "thorough":
            for r2 in confirm.get(u, []):
                if r2.status == "undecided":
                    undecided.append("%s: seed re-run undecided: %s" % (unit.NAME, r2.reason))
                    continue
                for f2 in r2.failures:
                    if relevant(f2, pid, serves, ftags, u, kfs) and f2.key() not in [f.key() for f in r.failures]:
                        undecided.append("%s: unstable obligation (fails for some solver seeds only): %s" % (unit.NAME, describe(f2)))
        failed_clause_ids = set()
        kf_clause_ids = set()
        grown = grown_functions(u, g)
        for fl in confirmed:
            if is_proxy(unit, fl.fn, pid) and not match_kf(fl, u, pid, kfs) and fl.fn not in grown:
                for c in fl.clauses:
                    failed_clause_ids.add(c[0])
        if grown:
            us["functions_with_new_unannotated_loops_or_closures"] = grown
        for fl in confirmed:
            kf = match_kf(fl, u, pid, kfs)
            if not kf and fl.fn in grown:
                # tool limit, not a verdict: the function gained a loop / closure that no annotation covers, so the existing
                # contract cannot be re-established mechanically; the scenario family decides whether there is a violation
                undecided.append("%s: fn %s has %s without an annotation compared with the unchanged tree; failed obligation not counted as a verdict: %s" % (unit.NAME, fl.fn, grown[fl.fn], describe(fl)))
                continue
            if kf:
                known.append((kf, unit.NAME, fl))
                for c in fl.clauses:
                    kf_clause_ids.add(c[0])
            elif is_proxy(unit, fl.fn, pid):
                # the contract of this function pins an exact floating-point expression where the property itself is stated up
                # to tolerance: an equivalent reformulation (a*b -> b*a, powi(2) -> x*x, another lerp form) fails it too.  Such a
                # failure is a verdict only together with a concrete failing input from the bounded native family.
                proxy_failed.append((unit.NAME, fl))
                for c in fl.clauses:
                    failed_clause_ids.add(c[0])
            else:
                violations.append((unit.NAME, fl))
                for c in fl.clauses:
                    failed_clause_ids.add(c[0])
        # obligations: named clauses carrying this property's tag in this unit
        seen = set()
        for o in g.origins:
            if o.get("marked") and pid in o.get("tags", []) and o["clause"] not in seen:
                seen.add(o["clause"])
                if o["clause"] in kf_clause_ids:
                    continue      # a listed known finding: reported separately, not counted as an obligation of this run
                obligations += 1
                if o["clause"] not in failed_clause_ids:
                    discharged += 1
                if len(samples) < 8:
                    samples.append(dict(unit=unit.NAME, clause=o["clause"], text=" ".join(o["text"].split())[:220]))
        for fdesc in getattr(unit, "FUNCTIONS", []):
            fn_under_contract.append(fdesc)
        for t in getattr(unit, "TRUSTED", []):
            trusted.add(t)

    if k_result is not None:
        undecided += k_result["undecided"]
        for v in k_result["violations"]:
            violations.append(("K", v))
        for kf, v in k_result["known"]:
            known.append((kf, "K", v))
        obligations += k_result["obligations"]
        discharged += k_result["discharged"]
        samples += k_result["samples"][:6]
        fn_under_contract += k_result["functions"]
        for t in k_result["trusted"]:
            trusted.add(t)

    # bounded stand-in (labelled bounded, never counted as proved): the native lattice family of this property executed
    # against the real spaces.  It reaches the functions no contract here reaches (SO(3): acos / sin; multi-step
    # tolerance relations) and gives every violation it finds a concrete failing input.
    s_bounded = []
    s_violations = []
    if P.get("bounded_scenarios"):
        import replay
        seeds = [seed] if tier == "quick" else [seed + i for i in range(8)]
        for sd in seeds:
            hits, note = replay.run_scenarios(pid, sd)
            if "does not build" in note:
                undecided.append("S: " + note[:300])
                break
            fresh = []
            for h in hits:
                kf = next((k for k in kfs if k.get("property") == pid and k.get("unit") == "S" and re.search(k["scenario_re"], h.get("what", ""))), None)
                if kf:
                    if kf["id"] not in [k[0]["id"] for k in known]:
                        known.append((kf, "S", dict(obligation="native lattice family: " + h.get("what", "")[:300])))
                else:
                    fresh.append(h)
            s_bounded.append(dict(harness="native family %s (%s) seed %d" % (pid, "replay/py/c20_scenarios.py on the real oxmpl_py module" if pid == "C20" else "replay/py/c19_scenarios.py + oxmpl-replay pyref" if pid == "C19" else "replay/src/stats.rs" if pid == "C14" else "replay/src/spaces.rs", sd), bound=P["bounded_scenarios"], status="pass" if not fresh else "fail", reports=len(hits)))
            if fresh:
                s_violations.append((sd, fresh))

    if proxy_failed:
        import replay
        hits, note = replay.run_scenarios(pid, seed)
        hits = [h for h in hits if not any(k.get("property") == pid and k.get("unit") == "S" and re.search(k["scenario_re"], h.get("what", "")) for k in kfs)]
        for uname, fl in proxy_failed:
            if hits:
                violations.append((uname, fl))
            else:
                undecided.append("%s: the exact-expression contract of fn %s failed (%s) but the bounded native family finds no violation of %s within its tolerances: the change may be an equivalent reformulation (not counted as a verdict)" % (uname, fl.fn, describe(fl)[:300], pid))

    wall = time.time() - t0
    exit_code = 0
    lines = []
    for kf, uname, fl in known:
        lines.append("KNOWN-FINDING: property=%s %s [%s]" % (pid, kf["what"], kf["id"]))
    replay_paths = []
    for i, (uname, fl) in enumerate(violations):
        rp = os.path.join(REPL, "%s-%s-%d.json" % (pid, tier, i))
        rec = dict(property=pid, unit=uname, obligation=describe(fl) if hasattr(fl, "message") else fl.get("obligation"),
                   detail=fl.to_json() if hasattr(fl, "to_json") else fl)
        found = False
        try:
            import replay
            found = replay.attach_scenario(pid, uname, fl, rec, seed)
        except Exception as e:   # replay is best effort; the violation is reported regardless
            rec["replay_error"] = repr(e)
        json.dump(rec, open(rp, "w"), indent=1)
        replay_paths.append(rp)
        lines.append("VIOLATION property=%s replay=%s%s" % (pid, rp, "" if found else " no-failing-input-found"))
        exit_code = 1
    for sd, fresh in s_violations:
        rp = os.path.join(REPL, "%s-%s-lattice-%d.json" % (pid, tier, sd))
        json.dump(dict(property=pid, unit="S", obligation="bounded native lattice family of %s: the real code violates the property on a concrete input" % pid, failing_inputs=fresh[:8], seed=sd,
                       how_to_replay="python3 vf/check.py %s --replay <this file>" % pid), open(rp, "w"), indent=1)
        lines.append("VIOLATION property=%s replay=%s" % (pid, rp))
        violations.append(("S", dict(obligation="native lattice family", failing_inputs=fresh[:3])))
        exit_code = 1
    if undecided and exit_code == 0:
        # undecided obligations (lost anchor, unsupported construct, resource limit): look for a concrete failing input.
        # Only a reproduced violation of the property on the real code turns "undecided" into an alarm.
        try:
            import replay
            hits, note = replay.run_scenarios(pid, seed)
        except Exception as e:
            hits, note = [], repr(e)
        if hits:
            rp = os.path.join(REPL, "%s-%s-undecided.json" % (pid, tier))
            json.dump(dict(property=pid, obligation="undecided: " + " || ".join(undecided)[:1500], failing_inputs=hits[:5], seed=seed, replay_note=note), open(rp, "w"), indent=1)
            lines.append("VIOLATION property=%s replay=%s" % (pid, rp))
            exit_code = 1
            violations.append(("replay", dict(obligation="scenario family exhibits a violation", failing_inputs=hits[:3])))
        else:
            exit_code = 2
    ev = dict(
        property_id=pid, tier=tier, seed=seed, level=P["level"],
        coverage=dict(
            obligations=obligations, discharged=discharged,
            checker_cmd="python3 vf/check.py %s --tier %s  (per unit: verus <generated>.rs --output-json --time --multiple-errors 40%s)" % (
                pid, tier, "; cargo kani -Z function-contracts -Z stubbing --harness <h>" if P.get("k_harnesses") else ""),
            trusted_base=sorted(trusted) + P.get("trusted", []),
            explanation=P["explanation"],
            samples=samples or [dict(note="no named clause carries this tag")],
            functions_under_contract=fn_under_contract,
            backends=P.get("backends", ["verus 0.2026.09.13 / z3 (bundled)"]),
            units=unit_summaries,
            solver_time_s=round(smt_s + (k_result["solver_s"] if k_result else 0.0), 2),
            rewrite_rule_hits={k: v for k, v in rule_hits.items() if v},
            bounded_checks=(k_result["bounded"] if k_result else []) + s_bounded,
            kani=(k_result["harness_table"] if k_result else []),
            kani_optional_undecided=(k_result.get("optional_undecided", []) if k_result else []),
            known_findings_matched=[k[0]["id"] for k in known],
            undecided=undecided,
            not_covered=P.get("not_covered", []),
            premises=P.get("premises", {}),
        ),
        assumptions=P.get("assumptions", []),
        wall_s=round(wall, 2),
        violations=len([v for v in violations]),
    )
    json.dump(ev, open(os.path.join(EVID, pid + ".json"), "w"), indent=1)
    for ln in lines:
        print(ln)
    for u in undecided:
        print("UNDECIDED property=%s %s" % (pid, u))
    print("%s tier=%s obligations=%d discharged=%d known_findings=%d violations=%d undecided=%d wall=%.1fs" % (
        pid, tier, obligations, discharged, len(known), len(violations), len(undecided), wall))
    sys.exit(exit_code)


if __name__ == "__main__":
    main()
