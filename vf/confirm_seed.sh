#!/bin/bash
# confirm_seed.sh <worktree> <seed_out_dir> <id>   e.g. /tmp/mut/C05 /tmp/mut/C05/_out/a C05-a
# Confirms in the scratch worktree: patch applies; demo FAILS with it and PASSES without it; full suite passes with it.
WT=$1; SD=$2; ID=$3
cd $WT || exit 9
git checkout -q -- . ; git clean -fdq oxmpl/tests 2>/dev/null
TEST=seed_$(echo $ID | tr 'A-Z-' 'a-z_')
cp $SD/demo.rs oxmpl/tests/$TEST.rs
echo "== clean tree: demo must pass"
timeout 600 cargo test -p oxmpl --offline --test $TEST > /tmp/w/confirm_$ID.clean.log 2>&1; C=$?
echo "clean demo exit=$C"
git apply $SD/patch.diff || { echo "PATCH DOES NOT APPLY"; exit 8; }
echo "== patched tree: demo must fail"
timeout 600 cargo test -p oxmpl --offline --test $TEST > /tmp/w/confirm_$ID.patched.log 2>&1; P=$?
echo "patched demo exit=$P"
echo "== patched tree: existing suite must pass"
rm oxmpl/tests/$TEST.rs
timeout 1500 cargo test -p oxmpl --offline --no-fail-fast > /tmp/w/confirm_$ID.suite.log 2>&1
# the baseline excludes the known-flaky prm_so3ss test
BAD=$(grep -E "^test .* \.\.\. FAILED" /tmp/w/confirm_$ID.suite.log | grep -v test_prm_finds_path_in_so3ss | wc -l)
S=$BAD
echo "suite: $(grep -c 'test result: ok' /tmp/w/confirm_$ID.suite.log) ok groups, failing tests other than the known-flaky prm_so3ss: $BAD"
git checkout -q -- . ; git clean -fdq oxmpl/tests 2>/dev/null
if [ $C -eq 0 ] && [ $P -ne 0 ] && [ $S -eq 0 ]; then echo "CONFIRMED $ID"; else echo "NOT CONFIRMED $ID"; fi
