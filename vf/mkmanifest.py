#!/usr/bin/env python3
"""Regenerate /verif/MANIFEST.json from vf/props.py (keeps checks, levels and not_applicable in sync)."""
import json, os, sys
HERE = os.path.dirname(os.path.abspath(__file__))
sys.path.insert(0, HERE)
import props

NA = {
    "C14": "distributional claim (uniform / Haar measure, goodness of fit): no contract over one call or one data structure expresses a probability law and neither verifier has a measure-theoretic semantics for the generator; the in-bounds part of sampling is covered by C11",
    "C19": "differential property across the CPython FFI whose oracle is the executed extension module; the glue is pyo3 proc-macro output over Rc<RefCell<..>> enum variants: Verus has no RefCell / proc-macro story and Kani has no model of the CPython C-API",
}
PENDING = getattr(props, "PENDING", {})

checks = []
for pid in sorted(props.PROPS):
    P = props.PROPS[pid]
    engines = []
    if P.get("v_units"):
        engines.append("verus")
    if P.get("k_harnesses"):
        engines.append("kani")
    checks.append(dict(
        property_id=pid,
        quick_cmd="python3 vf/check.py %s --tier quick" % pid,
        thorough_cmd="python3 vf/check.py %s --tier thorough" % pid,
        evidence_file="/verif/evidence/%s.json" % pid,
        replay_cmd_template="python3 vf/check.py %s --replay {path}" % pid,
        engine="+".join(engines),
        level_claimed=dict(category=P["level"], text=P["explanation"], design_ref=P.get("design_ref", "DESIGN.md section 6, " + pid)),
        level_note="; ".join(P.get("assumptions", [])) + ((" || NOT COVERED: " + "; ".join(P["not_covered"])) if P.get("not_covered") else ""),
        technique=P.get("technique", "contract-based deductive verification: Verus (Z3) on mechanically extracted real planner code with spliced contracts / invariants / lemmas" + ("; Kani (CBMC) function contracts on the real crate" if P.get("k_harnesses") else "")),
    ))
na = [dict(property_id=k, reason=v) for k, v in sorted(NA.items()) if k not in props.PROPS]
na += [dict(property_id=k, reason=v) for k, v in sorted(PENDING.items()) if k not in props.PROPS]
m = dict(
    version=1,
    setup_cmd="python3 vf/selftest.py --syntax --alarm",
    hooks=dict(guard="none", enable="no hooks: both engines rebuild their input from /repo's working tree in a scratch directory on every run", baseline_off_cmd="cd /repo && cargo test --workspace --no-fail-fast --offline", source_commits=[], add_only=True),
    engines=[
        dict(name="verus", path="/verif/vf", serves_properties=[p for p in sorted(props.PROPS) if props.PROPS[p].get("v_units")], kind_free_text="Verus 0.2026.09.13 / Z3 on one generated file per planner unit: prelude (trait contracts, stubs, axioms) + real source text after rewrite rules R1-R16 + spliced annotations"),
        dict(name="kani", path="/verif/kani", serves_properties=[p for p in sorted(props.PROPS) if props.PROPS[p].get("k_harnesses")], kind_free_text="Kani 0.68 / CBMC 6.11 function contracts and loop-free full-domain harnesses on a scratch copy of the real oxmpl crate with injected contracts"),
    ],
    checks=checks,
    notes="Exit codes: 0 held (known findings are printed as KNOWN-FINDING lines), 1 + VIOLATION line, 2 undecided (lost anchor, unsupported construct, resource limit). Known findings: /verif/known_findings.json. Design: /verif/DESIGN.md.",
    not_applicable=na,
)
json.dump(m, open(os.path.join(os.path.dirname(HERE), "MANIFEST.json"), "w"), indent=1)
print("checks:", [c["property_id"] for c in checks], "not_applicable:", [n["property_id"] for n in na])
