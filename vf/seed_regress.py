#!/usr/bin/env python3
"""Re-run every seeded change of /verif/seeded against the current checks, in scratch worktrees of /repo (never in /repo).

    python3 vf/seed_regress.py [--jobs N] [--only C13-a,C16-a] [--skip-k]

For each seed: `git worktree add --detach`, apply patch.diff, run `VERIF_REPO=<worktree> python3 vf/check.py <prop>` for the
property the seed targets (and the extra ones listed in meta.json `also`), record exit code, VIOLATION lines and the failed
obligations in seeded/<id>/result.json, remove the worktree.  Prints one line per seed.  This is a developer tool: it is not a
registered check, and it rewrites evidence files / replays as a side effect (re-run the checks on /repo afterwards)."""
import concurrent.futures
import json
import os
import subprocess
import sys
import tempfile

VERIF = os.path.dirname(os.path.dirname(os.path.abspath(__file__)))
SEEDED = os.path.join(VERIF, "seeded")


def run_seed(sid, skip_k):
    sd = os.path.join(SEEDED, sid)
    prop = sid.split("-")[0]
    meta = {}
    if os.path.exists(os.path.join(sd, "meta.json")):
        meta = json.load(open(os.path.join(sd, "meta.json")))
    props = [prop] + [p for p in meta.get("also", []) if p != prop]
    wt = tempfile.mkdtemp(prefix="sw-%s-" % sid, dir="/tmp")
    os.rmdir(wt)
    out = dict(id=sid, runs=[])
    try:
        subprocess.run(["git", "-C", "/repo", "worktree", "add", "--detach", "-q", wt], check=True, capture_output=True)
        a = subprocess.run(["git", "-C", wt, "apply", os.path.join(sd, "patch.diff")], capture_output=True, text=True)
        if a.returncode != 0:
            out["error"] = "patch does not apply: " + a.stderr[:300]
            return out
        for p in props:
            env = dict(os.environ, VERIF_REPO=wt, VERIF_REPLAY_DIR=os.path.join(wt, "_replays"), VERIF_EVIDENCE_DIR=os.path.join(wt, "_evidence"))
            if skip_k:
                env["VERIF_SKIP_K"] = "1"
            r = subprocess.run([sys.executable, os.path.join(VERIF, "vf", "check.py"), p], capture_output=True, text=True, env=env, cwd=VERIF)
            lines = [l for l in r.stdout.splitlines() if l.startswith(("VIOLATION", "UNDECIDED", "KNOWN-FINDING"))]
            obligations = []
            for l in lines:
                if l.startswith("VIOLATION"):
                    rp = l.split("replay=")[1].split()[0]
                    try:
                        rec = json.load(open(rp))
                        ob = rec.get("obligation", "")
                        fi = rec.get("failing_inputs") or []
                        obligations.append(dict(unit=rec.get("unit"), obligation=ob[:400], concrete_input=(fi[0].get("what", "")[:300] if fi else None)))
                    except Exception:
                        pass
            out["runs"].append(dict(property=p, exit=r.returncode, summary=r.stdout.strip().splitlines()[-1] if r.stdout.strip() else "", lines=[l[:300] for l in lines][:8], failed=obligations))
        return out
    finally:
        subprocess.run(["git", "-C", "/repo", "worktree", "remove", "--force", wt], capture_output=True)
        subprocess.run(["rm", "-rf", wt])


def main():
    jobs = 2
    only = None
    skip_k = "--skip-k" in sys.argv
    if "--jobs" in sys.argv:
        jobs = int(sys.argv[sys.argv.index("--jobs") + 1])
    if "--only" in sys.argv:
        only = sys.argv[sys.argv.index("--only") + 1].split(",")
    ids = sorted(d for d in os.listdir(SEEDED) if os.path.exists(os.path.join(SEEDED, d, "patch.diff")))
    if only:
        ids = [i for i in ids if i in only]
    with concurrent.futures.ThreadPoolExecutor(max_workers=jobs) as ex:
        for res in ex.map(lambda i: run_seed(i, skip_k), ids):
            json.dump(res, open(os.path.join(SEEDED, res["id"], "result.json"), "w"), indent=1)
            verdict = "ERROR " + res.get("error", "") if "error" in res else " ".join("%s:exit=%d" % (r["property"], r["exit"]) for r in res["runs"])
            caught = any(r["exit"] == 1 for r in res.get("runs", []))
            print("%-7s %s  %s" % (res["id"], "CAUGHT" if caught else "missed", verdict), flush=True)


if __name__ == "__main__":
    main()
