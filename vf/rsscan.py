"""Minimal lexical scanner for Rust source: enough to find items, function
bodies, loop headers and matching braces without being fooled by comments,
string / char literals and lifetimes.  No parsing beyond that."""
import re


def code_mask(src):
    """bytearray, 1 where the character is code (not comment / string / char literal)."""
    n = len(src)
    m = bytearray(b"\x01") * n
    i = 0
    while i < n:
        c = src[i]
        if c == '/' and i + 1 < n and src[i + 1] == '/':
            j = src.find('\n', i)
            if j < 0:
                j = n
            for k in range(i, j):
                m[k] = 0
            i = j
        elif c == '/' and i + 1 < n and src[i + 1] == '*':
            depth, j = 1, i + 2
            while j < n and depth:
                if src.startswith('/*', j):
                    depth += 1
                    j += 2
                elif src.startswith('*/', j):
                    depth -= 1
                    j += 2
                else:
                    j += 1
            for k in range(i, j):
                m[k] = 0
            i = j
        elif c == '"' or (c == 'r' and re.match(r'r#*"', src[i:i + 8]) and (i == 0 or not (src[i - 1].isalnum() or src[i - 1] == '_'))):
            if c == 'r':
                mm = re.match(r'r(#*)"', src[i:])
                close = '"' + mm.group(1)
                j = src.find(close, i + len(mm.group(0)))
                j = n if j < 0 else j + len(close)
            else:
                j = i + 1
                while j < n and src[j] != '"':
                    j += 2 if src[j] == '\\' else 1
                j += 1
            for k in range(i + 1, min(j, n) - 1):
                m[k] = 0
            i = j
        elif c == "'":
            # char literal or lifetime
            mm = re.match(r"'(\\.[^']*|[^\\'])'", src[i:])
            if mm:
                for k in range(i, i + len(mm.group(0))):
                    m[k] = 0
                i += len(mm.group(0))
            else:
                i += 1
        else:
            i += 1
    return m


class Src:
    def __init__(self, text):
        self.text = text
        self.mask = code_mask(text)

    def is_code(self, i):
        return self.mask[i] == 1

    def match_brace(self, i):
        """index of the `}` / `)` / `]` matching the opener at i."""
        op = self.text[i]
        cl = {'{': '}', '(': ')', '[': ']'}[op]
        d = 0
        for j in range(i, len(self.text)):
            if not self.mask[j]:
                continue
            ch = self.text[j]
            if ch == op:
                d += 1
            elif ch == cl:
                d -= 1
                if d == 0:
                    return j
        raise ValueError("unbalanced %r at %d" % (op, i))

    def find_code(self, pat, start=0, end=None):
        """iterate regex matches whose first char is code."""
        end = len(self.text) if end is None else end
        for mm in re.finditer(pat, self.text[:end]):
            if mm.start() >= start and self.mask[mm.start()]:
                yield mm

    def next_code_char(self, ch, start, end=None):
        end = len(self.text) if end is None else end
        for j in range(start, end):
            if self.mask[j] and self.text[j] == ch:
                return j
        return -1

    def body_open(self, start, end=None):
        """first `{` at paren/bracket depth 0 after start."""
        end = len(self.text) if end is None else end
        d = 0
        for j in range(start, end):
            if not self.mask[j]:
                continue
            ch = self.text[j]
            if ch in '([':
                d += 1
            elif ch in ')]':
                d -= 1
            elif ch == '{' and d == 0:
                return j
            elif ch == ';' and d == 0:
                return -1
        return -1

    def functions(self):
        """list of dicts: name, kw (start of `fn`), sig_start (start of line
        containing attrs/vis), open, close."""
        out = []
        for mm in self.find_code(r'\bfn\s+([A-Za-z_][A-Za-z0-9_]*)'):
            o = self.body_open(mm.end())
            if o < 0:
                continue
            c = self.match_brace(o)
            ls = self.text.rfind('\n', 0, mm.start()) + 1
            out.append(dict(name=mm.group(1), kw=mm.start(), line_start=ls, open=o, close=c))
        return out

    def loops(self, start, end):
        """loops inside [start,end): list of dict(kind, kw, open, close) in textual order."""
        out = []
        for mm in self.find_code(r'\b(for|while|loop)\b', start, end):
            # `for` in `impl X for Y` / HRTB does not occur inside fn bodies here
            o = self.body_open(mm.end(), end)
            if o < 0:
                continue
            kind, r18 = mm.group(1), None
            m18 = re.match(r' /\*@R18\|([^|]*)\|([^|]*)\|([^|]*)\|([^|*]*)\*/', self.text[mm.end():mm.end() + 400])
            if kind == 'while' and m18:
                # a range `for` loop rewritten by rule R18: still addressed as a `for` loop by annotations
                kind, r18 = 'for', (m18.group(1), m18.group(2), m18.group(3), m18.group(4))
            out.append(dict(kind=kind, kw=mm.start(), open=o, close=self.match_brace(o), r18=r18))
        return out

    def line_of(self, i):
        return self.text.count('\n', 0, i) + 1

    def line_start(self, i):
        return self.text.rfind('\n', 0, i) + 1

    def line_end(self, i):
        j = self.text.find('\n', i)
        return len(self.text) if j < 0 else j + 1
