#!/bin/bash
# ingest_seed.sh <PID> <suffix-for-a> <suffix-for-b>: confirm the two seeds a sub-agent left in /tmp/mut/<PID>/_out/{a,b} (confirm_seed.sh),
# store them as seeded/<PID>-<suffix>, run them against the current checks (seed_regress).  Developer tool.
P=$1; SA=$2; SB=$3
cd /verif
for pair in "a:$SA" "b:$SB"; do
  x=${pair%%:*}; sfx=${pair##*:}; id=$P-$sfx
  [ -f /tmp/mut/$P/_out/$x/patch.diff ] || { echo "$id: no patch"; continue; }
  res=$(vf/confirm_seed.sh /tmp/mut/$P /tmp/mut/$P/_out/$x $id 2>&1 | tail -1)
  echo "$res"
  d=seeded/$id; mkdir -p $d; cp /tmp/mut/$P/_out/$x/patch.diff /tmp/mut/$P/_out/$x/demo.rs $d/ 2>/dev/null
  python3 - <<PY
import json
am=json.load(open('/tmp/mut/$P/_out/$x/meta.json'))
m=dict(property="$P", summary=am.get("summary"), needs=am.get("needs"), ran=am.get("ran"), id="$id", batch=10,
  confirmed_by_me=["vf/confirm_seed.sh in the scratch worktree: $res (demo passes on the clean tree, fails with the patch; the existing suite passes with the patch, known-flaky prm_so3ss excluded)",
                   "vf/seed_regress.py: patch applied in a scratch worktree, VERIF_REPO=<worktree> python3 vf/check.py $P"])
json.dump(m, open('$d/meta.json','w'), indent=1)
PY
done
python3 vf/seed_regress.py --only $P-$SA,$P-$SB --jobs 2
