#!/usr/bin/env python3
"""setup / self test.  --syntax: every unit's annotations resolve against /repo's current tree (no verifier run)."""
import os, sys
HERE = os.path.dirname(os.path.abspath(__file__))
sys.path.insert(0, HERE)
import extract, verus_run, props

def main():
    units = sorted({u for P in props.PROPS.values() for u in P.get("v_units", [])})
    bad = 0
    for u in units:
        try:
            g = extract.build_unit(verus_run.load_unit(u))
            print("unit %-12s ok  lines=%d anns=%d rules=%s" % (u, len(g.origins), len(g.anns), {k: v for k, v in g.rule_hits.items() if v}))
        except Exception as e:
            bad += 1
            print("unit %-12s FAILED: %s" % (u, e))
    # setup never fails the harness on a lost anchor: that is reported by the checks themselves (exit 2)
    if "--alarm" in sys.argv:
        return alarm_selftest()
    return 0


def alarm_selftest():
    """The machinery must still ALARM: apply the seeded change C01-a (check_motion no longer validates `to`) to a scratch copy of
    /repo's working tree and require `check.py C01` to exit 1 there.  Skipped (not failed) when the patch does not apply to the
    tree under check.  Guards against an edit of the checking scripts that silently drops violations."""
    import shutil, subprocess, tempfile
    verif = os.path.dirname(os.path.dirname(os.path.abspath(__file__)))
    patch = os.path.join(verif, "seeded", "C01-a", "patch.diff")
    d = tempfile.mkdtemp(prefix="vselftest-")
    try:
        wt = os.path.join(d, "repo")
        shutil.copytree(os.environ.get("VERIF_REPO", "/repo"), wt, ignore=shutil.ignore_patterns("target", ".git"))
        a = subprocess.run(["patch", "-p1", "-s", "-i", patch], cwd=wt, capture_output=True, text=True)
        if a.returncode != 0:
            print("alarm self-test skipped: seeded/C01-a/patch.diff does not apply to this tree")
            return 0
        env = dict(os.environ, VERIF_REPO=wt, VERIF_EVIDENCE_DIR=os.path.join(d, "ev"), VERIF_REPLAY_DIR=os.path.join(d, "rp"))
        r = subprocess.run([sys.executable, os.path.join(verif, "vf", "check.py"), "C01"], capture_output=True, text=True, env=env, cwd=verif)
        if not (r.returncode == 1 and "VIOLATION property=C01" in r.stdout):
            print("alarm self-test FAILED: check.py C01 exits %d on a tree with the seeded change C01-a\n%s" % (r.returncode, r.stdout[-600:]))
            return 3
        print("alarm self-test ok: the seeded change C01-a is reported (Verus path)")
        # second path: the bounded native families (seeded change C12-b: SO2State::new no longer canonicalises large angles)
        subprocess.run(["patch", "-p1", "-s", "-R", "-i", patch], cwd=wt, capture_output=True, text=True)
        patch2 = os.path.join(verif, "seeded", "C12-b", "patch.diff")
        a = subprocess.run(["patch", "-p1", "-s", "-i", patch2], cwd=wt, capture_output=True, text=True)
        if a.returncode != 0:
            print("alarm self-test (native family path) skipped: seeded/C12-b/patch.diff does not apply to this tree")
            return 0
        env["VERIF_SKIP_K"] = "1"
        r = subprocess.run([sys.executable, os.path.join(verif, "vf", "check.py"), "C12"], capture_output=True, text=True, env=env, cwd=verif)
        if not (r.returncode == 1 and "VIOLATION property=C12" in r.stdout):
            print("alarm self-test FAILED: check.py C12 (native lattice family) exits %d on a tree with the seeded change C12-b\n%s" % (r.returncode, r.stdout[-600:]))
            return 3
        print("alarm self-test ok: the seeded change C12-b is reported (native family path)")
        return 0
    finally:
        shutil.rmtree(d, ignore_errors=True)

if __name__ == "__main__":
    sys.exit(main())
