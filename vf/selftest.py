#!/usr/bin/env python3
"""setup / self test.  --syntax: every unit's annotations resolve against /repo's current tree (no verifier run)."""
import os, sys
HERE = os.path.dirname(os.path.abspath(__file__))
sys.path.insert(0, HERE)
import extract, verus_run, props

def main():
    units = sorted({u for P in props.PROPS.values() for u in P.get("v_units", [])})
    bad = 0
    for u in units:
        try:
            g = extract.build_unit(verus_run.load_unit(u))
            print("unit %-12s ok  lines=%d anns=%d rules=%s" % (u, len(g.origins), len(g.anns), {k: v for k, v in g.rule_hits.items() if v}))
        except Exception as e:
            bad += 1
            print("unit %-12s FAILED: %s" % (u, e))
    # setup never fails the harness on a lost anchor: that is reported by the checks themselves (exit 2)
    return 0

if __name__ == "__main__":
    sys.exit(main())
