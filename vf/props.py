"""Per-property table: which units decide it, what is claimed, what is assumed."""

COMMON_ASSUME = [
    "user callbacks (validity checker, goal, space) are deterministic, side-effect free and do not panic: they are modelled as spec functions `valid`, `sat`, `dist_spec`, `interp_spec`, `in_bounds_spec`",
    "user `Clone` on state types is faithful (axiom_state_clone): a clone equals its source",
    "Verus 0.2026.09.13, its bundled Z3 and vstd's specifications of Vec / Option / Result / Arc / Box / VecDeque / HashMap",
    "the extractor's rewrite rules R1-R12 preserve meaning (each is a token-level desugaring; hit counts are in coverage.rewrite_rule_hits)",
    "prelude stubs for std::time (unconstrained results), println!, rand (StdRng, ThreadRng) as written in verus/prelude/core.rs",
    "EXACT f64 axioms (IEEE-754 truths about <, +, / used for ordering and monotonicity); each is audited by a Layer-0 harness listed under C09/C10 evidence",
]
IDEAL = "IDEAL arithmetic: machine f64 +,-,*,/ and comparisons treated as real arithmetic via rv() (false by up to one ulp per operation; no NaN / overflow)"

ALL_PLANNERS = ["rrt", "rrt_connect", "rrt_star", "prm"]
TREE_PLANNERS = ["rrt", "rrt_connect", "rrt_star"]

PROPS = {
    "C01": dict(
        v_units=["rrt"], level="proof",
        explanation="Verus proves, on the mechanically extracted real planner code, that `solve` returns Ok(p) only with every p[k] accepted by the checker: invariant `every stored node was accepted` (t_valid / rm_valid) is established by setup, preserved by every loop iteration (each push is guarded by check_motion whose strongest postcondition includes valid(to)), and carried to the path by the parent-chain lemma; the root is validated at the top of solve, so an invalid start returns InvalidStartState.",
        assumptions=COMMON_ASSUME,
        not_covered=["RRT-Connect goal-tree root: the sampled goal state is never submitted to the checker (known finding KF-C01-rrtconnect-goal-root)"],
    ),
    "C02": dict(
        v_units=["rrt"], level="proof",
        explanation="Verus proves `reconstruct_path` returns exactly the parent chain of the given node reversed (first element the root, last the node), setup makes the tree exactly [start_states[0]], wf (root == start of the current problem) is preserved by every public method, and solve's Ok result therefore starts at start_states[0] of the problem installed by the last setup and ends in a state for which goal.is_satisfied returned true.",
        assumptions=COMMON_ASSUME + ["GoalSampleableRegion::sample_goal returns a state satisfying the goal (documented contract; used only for the RRT-Connect goal-tree root)"],
    ),
    "C03": dict(
        v_units=["rrt"], level="proof",
        explanation="check_motion is proved against its strongest postcondition `r == motion_checked(from,to)` (the checker accepted interp(from,to,i/n) for all i in 1..=n with n = ceil(d/(0.1*lvsl)), and `to`); every site that writes a parent link / roadmap edge is guarded by it (invariant t_checked / rm_edges), so every consecutive path pair is seg_checked. The gap lemma (n >= d/(0.1 L) ==> consecutive queried states at most L apart) is proved over IDEAL reals.",
        assumptions=COMMON_ASSUME + [IDEAL + " (gap lemma only)", "premise interp_speed_ok(space) for the gap lemma"],
    ),
    "C07": dict(
        v_units=["rrt"], level="proof",
        explanation="Determinism is reduced to a provenance discipline proved by Verus: in the world `seeded_mode()` (planners are constructed with Some(seed)) every draw site (random_bool, sample_goal, sample_uniform) has the precondition `generator is seed-derived`, `new` stores a seed-derived generator, and every public method stores a seed-derived generator back on every exit (p_rng_ok is a postcondition on all exits). The only other external functions reachable are the clock (result flows only into the deadline test) and HashMap insert/get.",
        assumptions=COMMON_ASSUME + ["rand's StdRng::seed_from_u64 and every draw are deterministic functions of the generator state (stub contract)", "clock isolation is a syntactic side condition checked by the extractor, not a discharged obligation"],
        not_covered=["'PRM compared at equal sample counts' needs an iteration budget; two-run equality itself is not expressible as a one-run contract and follows informally from provenance + closed world"],
    ),
    "C08": dict(
        v_units=["rrt"], level="proof",
        explanation="Verus proves absence of panics (every unwrap, index, arithmetic overflow, random_bool range is an obligation) in new/setup/solve/construct_roadmap/set_problem_definition for all call histories (wf is established by new and preserved by every public method), and the typestate results: solve before setup == Err(PlannerUninitialised), PRM solve on an empty roadmap == Err(UnsampledStateSpace), invalid start == Err(InvalidStartState), success answers the problem installed last.",
        assumptions=COMMON_ASSUME,
        not_covered=["PRM::set_problem_definition with a problem over a different space object (the spaces' own assert_eq! on dimensions are outside the planner units)"],
    ),
    "C15": dict(
        v_units=["rrt"], level="proof",
        explanation="The tree invariants (shape: parent links in range and acyclic; rooted at the start / sampled goal; every node valid; every edge motion-checked; edge length bound) are loop invariants of solve and postconditions on every exit (Ok and Timeout); reconstruct_path is proved to terminate (decreases) and to return the parent chain.",
        assumptions=COMMON_ASSUME + [IDEAL + " (edge-length clause only)"],
    ),
}
