"""Per-property table: which units decide it, what is claimed, what is assumed."""

COMMON_ASSUME = [
    "user callbacks (validity checker, goal, space) are deterministic, side-effect free and do not panic: they are modelled as spec functions `valid`, `sat`, `dist_spec`, `interp_spec`, `in_bounds_spec`",
    "user `Clone` on state types is faithful (axiom_state_clone): a clone equals its source",
    "Verus 0.2026.09.13, its bundled Z3 and vstd's specifications of Vec / Option / Result / Arc / Box / VecDeque / HashMap",
    "the extractor's rewrite rules R1-R12 preserve meaning (each is a token-level desugaring; hit counts are in coverage.rewrite_rule_hits)",
    "prelude stubs for std::time (unconstrained results), println!, rand (StdRng, ThreadRng) as written in verus/prelude/core.rs",
    "EXACT f64 axioms (IEEE-754 truths about <, +, / used for ordering and monotonicity); each is audited by a Layer-0 harness listed under C09/C10 evidence",
]
IDEAL = "IDEAL arithmetic: machine f64 +,-,*,/ and comparisons treated as real arithmetic via rv() (false by up to one ulp per operation; no NaN / overflow)"

ALL_PLANNERS = ["rrt", "rrt_connect", "rrt_star", "prm"]
TREE_PLANNERS = ["rrt", "rrt_connect", "rrt_star"]

PROPS = {
    "C01": dict(
        v_units=ALL_PLANNERS, level="proof",
        explanation="Verus proves, on the mechanically extracted real planner code, that `solve` returns Ok(p) only with every p[k] accepted by the checker: invariant `every stored node was accepted` (t_valid / rm_valid) is established by setup, preserved by every loop iteration (each push is guarded by check_motion whose strongest postcondition includes valid(to)), and carried to the path by the parent-chain lemma; the root is validated at the top of solve, so an invalid start returns InvalidStartState.",
        assumptions=COMMON_ASSUME,
        not_covered=["RRT-Connect goal-tree root: the sampled goal state is never submitted to the checker (known finding KF-C01-rrtconnect-goal-root)"],
    ),
    "C02": dict(
        v_units=ALL_PLANNERS, level="proof",
        explanation="Verus proves `reconstruct_path` returns exactly the parent chain of the given node reversed (first element the root, last the node), setup makes the tree exactly [start_states[0]], wf (root == start of the current problem) is preserved by every public method, and solve's Ok result therefore starts at start_states[0] of the problem installed by the last setup and ends in a state for which goal.is_satisfied returned true.",
        assumptions=COMMON_ASSUME + ["GoalSampleableRegion::sample_goal returns a state satisfying the goal (documented contract; used only for the RRT-Connect goal-tree root)"],
    ),
    "C03": dict(
        v_units=ALL_PLANNERS, level="proof",
        explanation="check_motion is proved against its strongest postcondition `r == motion_checked(from,to)` (the checker accepted interp(from,to,i/n) for all i in 1..=n with n = ceil(d/(0.1*lvsl)), and `to`); every site that writes a parent link / roadmap edge is guarded by it (invariant t_checked / rm_edges), so every consecutive path pair is seg_checked. The gap lemma (n >= d/(0.1 L) ==> consecutive queried states at most L apart) is proved over IDEAL reals.",
        assumptions=COMMON_ASSUME + [IDEAL + " (gap lemma only)", "premise interp_speed_ok(space) for the gap lemma"],
    ),
    "C07": dict(
        v_units=ALL_PLANNERS, level="proof",
        explanation="Determinism is reduced to a provenance discipline proved by Verus: in the world `seeded_mode()` (planners are constructed with Some(seed)) every draw site (random_bool, sample_goal, sample_uniform) has the precondition `generator is seed-derived`, `new` stores a seed-derived generator, and every public method stores a seed-derived generator back on every exit (p_rng_ok is a postcondition on all exits). The only other external functions reachable are the clock (result flows only into the deadline test) and HashMap insert/get.",
        assumptions=COMMON_ASSUME + ["rand's StdRng::seed_from_u64 and every draw are deterministic functions of the generator state (stub contract)", "clock isolation is a syntactic side condition checked by the extractor, not a discharged obligation"],
        not_covered=["'PRM compared at equal sample counts' needs an iteration budget; two-run equality itself is not expressible as a one-run contract and follows informally from provenance + closed world"],
    ),
    "C08": dict(
        v_units=ALL_PLANNERS, level="proof",
        explanation="Verus proves absence of panics (every unwrap, index, arithmetic overflow, random_bool range is an obligation) in new/setup/solve/construct_roadmap/set_problem_definition for all call histories (wf is established by new and preserved by every public method), and the typestate results: solve before setup == Err(PlannerUninitialised), PRM solve on an empty roadmap == Err(UnsampledStateSpace), invalid start == Err(InvalidStartState), success answers the problem installed last.",
        assumptions=COMMON_ASSUME,
        not_covered=["PRM::set_problem_definition with a problem over a different space object (the spaces' own assert_eq! on dimensions are outside the planner units)"],
    ),
    "C15": dict(
        v_units=TREE_PLANNERS, level="proof",
        explanation="The tree invariants (shape: parent links in range and acyclic; rooted at the start / sampled goal; every node valid; every edge motion-checked; edge length bound) are loop invariants of solve and postconditions on every exit (Ok and Timeout); reconstruct_path is proved to terminate (decreases) and to return the parent chain.",
        assumptions=COMMON_ASSUME + [IDEAL + " (edge-length clause only)"],
    ),
}

PROPS.update({
    "C04": dict(
        v_units=ALL_PLANNERS + ["rv_space"], level="proof",
        explanation="Premise samples_in_bounds for RealVector spaces of EVERY dimension is discharged by V-rvspace (sample_uniform returns only states with every coordinate in [lower, upper) of the CURRENT bounds, which satisfy the bounds check). Planner half (Verus, unbounded): if the space is convex for its own interpolation (premise convex_ok), sampler outputs are in bounds (premise samples_in_bounds), the step is non-negative and every stored state is in bounds (established by setup from an in-bounds start / goal sample), then every state added by an iteration is in bounds (the steer parameter max/d lies in [0,1] by the EXACT axiom ax_div_unit) and so is every state of a returned path. Space half: the premises are decided per concrete space by Engine K (see coverage.premises).",
        assumptions=COMMON_ASSUME + ["premises convex_ok(space), samples_in_bounds(problem), 0 <= max_distance; 'up to rounding at the boundary' is inherited from the space's own satisfies_bounds (in_bounds_spec is its result)"],
        premises={"convex_ok": "see C04 K-harnesses: proved for RealVector (per coordinate, bounded dimension), REFUTED for bounded SO(2) (known finding KF-C04-so2-short-arc), assumed for SO(3)/SE(3)"},
    ),
    "C05": dict(
        v_units=ALL_PLANNERS, level="proof",
        explanation="Verus proves (over IDEAL reals) that every edge written by an iteration is no longer than the planner's limit: RRT / RRT-Connect extend: the steered state is at parameter max/d, so its distance is (max/d)*d = max, or the sample itself with d <= max; RRT*: the parent is the nearest node (<= max_distance) or a neighbour (< search_radius, find_neighbours soundness), rewired edges are neighbour edges; PRM: dist < connection_radius is tested at every link and at the start connection. The invariant edges_le(limit) is carried to the returned path by the chain lemmas (traversal against the link direction uses premise metric_ok).",
        assumptions=COMMON_ASSUME + [IDEAL, "premises interp_speed_ok(space) (C10 constant speed), metric_ok(space) (symmetry), 0 <= max_distance, parameters unchanged since the edges were created (edges_le(limit) is an explicit hypothesis on the entry state; setup establishes it for every limit)"],
        not_covered=["'up to rounding': the bound is exact in IDEAL arithmetic; floating-point error of the space's distance/interpolate is not bounded here"],
    ),
    "C06": dict(
        v_units=ALL_PLANNERS, level="proof",
        explanation="Safety part only. (a) never a path when none exists: corollary of C01+C03 (an Ok path is a chain of checked motions from the start to a goal state). (b) result domain: solve returns only Ok, Timeout, InvalidStartState, PlannerUninitialised (+ NoSolutionFound / UnsampledStateSpace for PRM); construct_roadmap returns Ok or PlannerUninitialised. (c) deadline discipline: in every loop iteration the clock reading is named (rule R13) and Verus proves that control continues past the test only with !(elapsed > limit), and that the test precedes every sampler / distance / checker call of the iteration (ghost flag).",
        assumptions=COMMON_ASSUME,
        not_covered=["wall-clock bound 'within T plus one iteration' and termination of solve: Verus proves partial correctness; the main loops carry exec_allows_no_decreases_clause", "finite work per iteration needs lvsl > 0: set_longest_valid_segment_fraction(<= 0) stores 0 (known finding KF-C06-lvsl-zero, Engine K)"],
    ),
    "C16": dict(
        v_units=TREE_PLANNERS, level="proof",
        explanation="Verus proves for RRT, RRT* and RRT-Connect::extend: the linear scan returns a node no other node is strictly nearer than (loop invariant t_nearest, EXACT transitivity/irreflexivity of < including NaN); the candidate is steer_spec(near, sample, max) = the sample itself when d <= max, else interpolate(near, sample, max/d); the iteration's effect on the tree is exactly `rrt_step` / `extend_rel`: the candidate is appended as a child of that nearest node iff the motion to it is valid, otherwise the tree is unchanged. The sample comes from the goal sampler or the space sampler, never from the goal for bias 0 and always for bias 1 (random_bool contract). RRT-Connect grows the tree with fewer nodes first.",
        assumptions=COMMON_ASSUME + ["rand's random_bool(p) returns false for p == 0 and true for p == 1 (stub contract)"],
        not_covered=["goal-bias frequency for 0 < p < 1 (statistical)", "RRT-Connect: 'then tries to connect the other tree to the new node' is covered as: the second extend is called with the new node's state as target (extend_rel on tree_b)"],
    ),
    "C17": dict(
        v_units=["rrt_star"], level="proof",
        explanation="Verus proves on the real RRTStar::solve: cost(a,b) == b.cost + dist(a,b); find_neighbours returns exactly the indices within search_radius; choose-parent postcondition `chosen_parent`: the parent is the nearest node or a neighbour, reached by a checked motion, and no candidate with a checked motion is strictly cheaper; rewiring postcondition `rewired_ok` for every neighbour with frame: re-parented with cost via the new node iff strictly cheaper by a checked motion and not the new node's parent, every other node bit-identical, states never change; invariant t_cost_ok (IDEAL): recorded cost >= parent's recorded cost + edge length, with equality at link time.",
        assumptions=COMMON_ASSUME + [IDEAL + " (cost sums)", "premise dist_nonneg(space): distances are >= 0 and never NaN (precondition of RRTStar::setup via p_space_ok)"],
        not_covered=["last sentence (for the same seed RRT* returns a path ending at the same state as RRT's and no longer): a relational property of two programs, not a one-run contract"],
    ),
    "C18": dict(
        v_units=["prm"], level="proof",
        explanation="Verus proves on the real PRM code: roadmap invariant rm_graph (adjacency in range, no self-links, no duplicates, symmetric), rm_valid, rm_checked and rm_edges_le are preserved by construct_roadmap; the roadmap states are exactly the valid samples drawn, in order (ghost log); every link satisfies dist < radius and check_motion (link_list); a repeated construct_roadmap and set_problem_definition / solve leave states and adjacency unchanged; setup clears. Query soundness: the BFS parent map is a forest rooted at checked start connections whose edges are roadmap edges (pm_ok), the goal index satisfies the goal, and the returned path is start + that chain. Query completeness: start connections and goal milestones are exactly the filtered index sets, every finished BFS node is not a goal and has all its neighbours visited, visited = queued or finished; hence `NoSolutionFound` is returned only if no milestone satisfying the goal is reachable from a start connection by roadmap edges (no_reachable_goal, proved by induction over walks). Hop-minimality: every visited node's BFS depth is at most its position in any walk from a start connection (bfs_min_ok), the queue is sorted by depth within a window of one (queue_depths), in front of every unvisited node of a walk there is a queued node (lemma_frontier_witness); hence the first goal milestone dequeued has minimal depth and the returned path (depth + 1 milestones) visits the fewest milestones possible (fewest_milestones).",
        assumptions=COMMON_ASSUME + ["set_problem_definition is called with a problem over an equal space (explicit precondition)"],
        not_covered=["'exactly the valid samples drawn' is proved for one construct_roadmap call (ghost log of accepted samples); uniformity / independence of the samples is C14"],
    ),
})

# properties whose checks are not built yet (listed under not_applicable until they are)
PENDING = {
    "C09": "Engine K harnesses not built yet in this revision",
    "C10": "Engine K harnesses not built yet in this revision",
    "C11": "Engine K harnesses not built yet in this revision",
    "C12": "Engine K harnesses not built yet in this revision",
    "C13": "Engine K harnesses not built yet in this revision",
    "C20": "Verus unit for the pyo3 / wasm wrapper bodies not built yet in this revision",
}

BT = " (decided only on the bounded native lattice, not proved)"
K_ASSUME = ['rem_euclid / sqrt / powi / acos are replaced by the contract models of kani/h_common.rs (CBMC does not model them faithfully); results hold for the stated model domains', 'Kani 0.68 / CBMC 6.11 bit-precise IEEE-754 semantics of + - * / < abs min max clamp', 'rand::Rng::random_range(lo..hi) returns lo <= v < hi when lo < hi are finite and hi - lo is finite (sample_uniform itself is not executed under CBMC)']
PROPS["C04"]["k_harnesses"] = True
PROPS["C06"]["k_harnesses"] = True
PROPS["C04"]["assumptions"] = PROPS["C04"]["assumptions"] + K_ASSUME
PROPS["C06"]["assumptions"] = PROPS["C06"]["assumptions"] + K_ASSUME
PROPS.update({
    "C09": dict(
        k_harnesses=True, v_units=["compound_space"], level="other",
        explanation="Verus unit V-compound: the compound / SE(2) / SE(3) distance is sqrt(sum (d_i w_i)^2) over ALL components for every layout and weight vector, through the (verified) type-erased dispatch: agreement with the independently stated reference `sq_sum`. Kani/CBMC harnesses on the real distance functions. Decided: SO(2): 0 <= d <= PI never NaN, d(a,a) == 0, (thorough) d equals the short arc within 2e-15 — complete over all canonical angles; SO(3): 0 <= d <= PI for all component values in [-1,1], NaN-or-in-range for all non-NaN values, (thorough) symmetric and q / -q equal bit for bit; RealVector: non-negative, symmetric bit for bit, d(a,a) == 0, equals sqrt(sum of squares) left to right — BOUNDED to dimension 2; compound / SE(2): weighted-L2 law bit for bit for the layout R^1 x SO(2) — BOUNDED in layout. Also audits every EXACT f64 axiom the Verus units use (complete over all bit patterns). Partial: level `other`.",
        assumptions=K_ASSUME,
        not_covered=["triangle inequality, tolerance symmetry, seam / q vs -q equivalence, agreement with the independent numeric references"+BT, "RealVector distance beyond dimension 2 (one axis-aligned family in dimension 5)"+BT],
    ),
    "C10": dict(
        k_harnesses=True, v_units=["rv_space"], level="other",
        explanation="Verus unit V-rvspace on the real RealVectorStateSpace::interpolate for EVERY dimension: every output coordinate is from_i + (to_i - from_i) * t evaluated exactly so (all coordinates written, lengths preserved, no assert_eq! / index panic for states of the space's dimension). Kani/CBMC harnesses on the real interpolate functions. Decided: SO(2): the result is canonical (in [-PI,PI]) for all canonical a, b and t in [0,1]; (thorough) returns a at t = 0 up to 1e-15 mod 2 PI; RealVector (BOUNDED dimension 2): interpolate computes a_i + (b_i - a_i) * t bit for bit, and the scalar law (complete): equals a at t = 0 and lies between a and the t = 1 value a + (b - a) for every t in [0,1]; compound: acts component by component (BOUNDED layout). `returns b exactly at t = 1` is false for f64 (a + (b - a) != b for many pairs): this is the reason check_motion validates `to` itself (C01).",
        assumptions=K_ASSUME + ["V-rvspace (Verus, every dimension): RealVectorStateSpace::distance / get_maximum_extent / get_longest_valid_segment_length are external_body (iterator adapters); unit rule RV5 `for (i, x) in v.iter_mut().enumerate() {` -> `for i in 0..v.len() { let x = &mut v[i];`; f64::clamp as an uninterpreted function with the EXACT axiom ax_clamp (audited by the Layer-0 harness ax_clamp); struct RealVectorState is unit text; unit rules: assert_eq! -> precondition-checked call, RV1 vec![x; n] -> vec_repeat, RV2 rng.random_range(lo..hi) -> rng_random_range_f64 (contract lo <= v < hi, precondition lo < hi and hi - lo finite = rand's panic conditions), RV3 a type annotation, RV4 the private field longest_valid_segment_fraction made pub (visibility only), R20 f64::EPSILON / NEG_INFINITY as named constants; EXACT axioms ax_eps_pos, ax_sub_pos_le, ax_add_pos_ge, ax_lt_not_nan, ax_gt_asym, ax_le_not_gt, ax_neg_inf_lt_inf audited by the Layer-0 harnesses ax_eps_pos / ax_sub_add_pos / ax_order_misc; f64 +, -, * are uninterpreted deterministic functions (laws are equalities of the same expression)"],
        not_covered=["constant speed d(a, interp(a,b,t)) == t d(a,b), end points, reversal symmetry on every space"+BT, "SO(3) SLERP / NLERP: unit norm of the result, switch continuity"+BT],
    ),
    "C11": dict(
        k_harnesses=True, v_units=["rv_space"], level="proof",
        explanation="Verus unit V-rvspace on the real RealVectorStateSpace for EVERY dimension and every constructible (wf) space: enforce_bounds replaces EVERY coordinate by clamp(x_i, lower_i, upper_i) and nothing else (clamp cannot panic: lower < upper), the enforced state satisfies the bounds, enforcing again is the identity bit for bit (NaN coordinates stay NaN and are accepted by the check); satisfies_bounds accepts exactly the states whose every coordinate passes the EPSILON-widened interval test (no coordinate skipped); sample_uniform returns Ok only with one coordinate per dimension, each in [lower, upper), and every such state satisfies the bounds (lemma from a - e <= a <= a + e); the sampler's random_range call cannot panic (lo < hi and hi - lo finite are established by the guards) and the only errors are the documented ones. Kani/CBMC harnesses on the real enforce_bounds / satisfies_bounds. SO(2) — complete over all well-formed bounds and all states in the rem_euclid model domain: after enforce the check accepts the state, the value is numerically inside [lo,hi], a second enforce is the identity bit for bit, a canonical satisfying state is left unchanged, and any value in [lo,hi) (random_range contract) satisfies the bounds. RealVector — BOUNDED to dimension 2: same clauses (enforce never panics on a constructible box). Compound (R^1 x SO(2)): component-wise and enforced ==> accepted (bounded layout).",
        assumptions=K_ASSUME + ["V-rvspace (Verus, every dimension): RealVectorStateSpace::distance / get_maximum_extent / get_longest_valid_segment_length are external_body (iterator adapters); unit rule RV5 `for (i, x) in v.iter_mut().enumerate() {` -> `for i in 0..v.len() { let x = &mut v[i];`; f64::clamp as an uninterpreted function with the EXACT axiom ax_clamp (audited by the Layer-0 harness ax_clamp); struct RealVectorState is unit text; unit rules: assert_eq! -> precondition-checked call, RV1 vec![x; n] -> vec_repeat, RV2 rng.random_range(lo..hi) -> rng_random_range_f64 (contract lo <= v < hi, precondition lo < hi and hi - lo finite = rand's panic conditions), RV3 a type annotation, RV4 the private field longest_valid_segment_fraction made pub (visibility only), R20 f64::EPSILON / NEG_INFINITY as named constants; EXACT axioms ax_eps_pos, ax_sub_pos_le, ax_add_pos_ge, ax_lt_not_nan, ax_gt_asym, ax_le_not_gt, ax_neg_inf_lt_inf audited by the Layer-0 harnesses ax_eps_pos / ax_sub_add_pos / ax_order_misc; f64 +, -, * are uninterpreted deterministic functions (laws are equalities of the same expression)"],
        not_covered=["SO(3) enforce_bounds / satisfies_bounds / sample_uniform (acos / sin reasoning; the rejection loop is unbounded)"+BT, "sample_uniform is not executed under CBMC: its guards and rand's contract are used instead"],
    ),
    "C12": dict(
        k_harnesses=True, v_units=["rv_space"], level="proof",
        explanation="Verus unit V-rvspace on the real RealVectorStateSpace::new for EVERY dimension: Ok ==> bounds.len() == dimension and every lower < upper (so no NaN), given bounds are stored unchanged, absent bounds become (-inf, +inf) per dimension; wrong length ==> Err, any pair with !(lower < upper) (incl. NaN) ==> Err, dimension 0 without bounds ==> Err. Kani/CBMC function contract on the real SO2StateSpace::new (complete over all Option<(f64,f64)>): Ok <==> both the given and the clamped interval are non-empty (NaN rejected), stored bounds satisfy -PI <= lo < hi <= PI, the error is InvalidBound; every returned space has a non-empty finite range and its bounds operations do not panic. SO3StateSpace::new (complete): Ok ==> 0 <= radius <= PI never NaN, Err <==> radius < 0. RealVectorStateSpace::new: BOUNDED (dimension 1 quick, <= 2 thorough). SO2State::new / normalise / SE2State::new: result in [-PI,PI] for all finite angles (range model) and congruent mod 2 PI (thorough, exact model domain). SO3State::normalise: Err(ZeroMagnitude) <==> norm < 1e-9, otherwise every component divided by the norm.",
        assumptions=K_ASSUME + ["V-rvspace (Verus, every dimension): RealVectorStateSpace::distance / get_maximum_extent / get_longest_valid_segment_length are external_body (iterator adapters); unit rule RV5 `for (i, x) in v.iter_mut().enumerate() {` -> `for i in 0..v.len() { let x = &mut v[i];`; f64::clamp as an uninterpreted function with the EXACT axiom ax_clamp (audited by the Layer-0 harness ax_clamp); struct RealVectorState is unit text; unit rules: assert_eq! -> precondition-checked call, RV1 vec![x; n] -> vec_repeat, RV2 rng.random_range(lo..hi) -> rng_random_range_f64 (contract lo <= v < hi, precondition lo < hi and hi - lo finite = rand's panic conditions), RV3 a type annotation, RV4 the private field longest_valid_segment_fraction made pub (visibility only), R20 f64::EPSILON / NEG_INFINITY as named constants; EXACT axioms ax_eps_pos, ax_sub_pos_le, ax_add_pos_ge, ax_lt_not_nan, ax_gt_asym, ax_le_not_gt, ax_neg_inf_lt_inf audited by the Layer-0 harnesses ax_eps_pos / ax_sub_add_pos / ax_order_misc; f64 +, -, * are uninterpreted deterministic functions (laws are equalities of the same expression)"],
        not_covered=["CompoundStateSpace::new has no validation to check (lengths are a precondition, listed under C08)", "unit norm of the normalised quaternion up to tolerance (needs an error bound on sqrt)"+BT, "SO2State / SE2State congruence modulo 2 PI for |angle| beyond the exact model domain"+BT],
    ),
    "C13": dict(
        k_harnesses=True, v_units=["compound_space"], level="proof",
        explanation="Verus unit V-compound on the real compound_state_space.rs, any_state_space.rs (blanket impl), se2_state_space.rs and se3_state_space.rs, for EVERY layout (any number and kind of components, any weights). CompoundStateSpace: distance == sqrt(sq_sum) where sq_sum is the left-to-right sum of (d_i * w_i)^2 over all components (spec fn `sq_sum`; float operations uninterpreted but the SAME operations, hence bit for bit), resolution == the same combination of the component resolutions, satisfies_bounds == conjunction of all component checks, interpolate / enforce_bounds relate EVERY output component to the component space's own result, sample_uniform draws every component from its own space in order; every index is in range and every per-component call receives a state of the component's type (no assert_eq! / downcast panic) provided the state has the layout of the space. Blanket impl of AnyStateSpace: each *_dyn method IS the concrete space's method on the downcast states (arguments in the same order) and the downcasts cannot fail for accepted states. SE2StateSpace / SE3StateSpace: every StateSpace method equals the inner compound space's method on the inner compound state, and `new` builds the compound [translation R^2 / R^3 from bounds[0..2] / [0..3], rotation SO(2) from bounds[2] / unbounded SO(3)] in this order with weights exactly [1, w] (Err when bounds.len() != 3). Plus Kani/CBMC harnesses that execute the real dyn dispatch / Any downcasts on concrete layouts: (bounded layouts, see coverage) component-wise bit-for-bit agreement with the real component spaces.",
        assumptions=K_ASSUME + ["V-compound: prelude spaces.rs replaces the DECLARATION of trait AnyStateSpace by the same declaration with a contract; std::any::Any downcasts are the spec function dc::<S>() (unit rules RD1/RD2: `(x as &dyn Any).downcast_ref::<S>()` -> downcast_state_ref::<S>(x), `(x as &mut dyn Any).downcast_mut::<S>().unwrap()` -> downcast_state_mut_unwrap::<S>(x) whose precondition is the unwrap's panic condition); unit rules RD3/RD4 name the `&mut` unsizing coercions (`&mut state.0` -> compound_as_dyn_mut, `rng` -> rng_as_dyn); axiom ax_dc_compound: downcasting an unsized &CompoundState gives it back",
                     "V-compound: component spaces R^n / SO(2) / SO(3) are opaque stubs (uninterpreted deterministic functions; constructors are the uninterpreted functions new_spec_*); sample_uniform_dyn of the blanket impl and all Clone impls are external; struct definitions CompoundState / SE2State / SE3State are prelude text",
                     "V-compound: Verus' semantics of `&mut *v[i]` on Vec<Box<dyn State>> (only element i changes); f64 +, *, powi(2), sqrt are uninterpreted functions of their arguments (the law is proved as equality of the SAME expression tree, hence bit for bit)",
                     "V-compound unit preprocessing: assert_eq!(a, b, msg) -> a call whose precondition is a == b (so the layout assertions are PROVED never to fire given state_ok); #[derive(Clone)] on CompoundStateSpace dropped; unit rule R19 (x += e -> x = x + e on f64), RD5 (a type annotation on `components`)",
                     "Verus 0.2026.09.13 / Z3"],
        not_covered=["that the component spaces themselves (R^n, SO(2), SO(3)) satisfy their own laws is C09-C12, not C13", "AnyStateSpace::sample_uniform_dyn of the blanket impl (RngWrapper adaptor) is trusted", "SE2State / SE3State constructors and accessors (states/se2_state.rs, se3_state.rs): Kani se2_state_new_yaw_canonical only"],
    ),
})
for _k in ("C09", "C10", "C11", "C12", "C13"):
    PENDING.pop(_k, None)

PROPS["C20"] = dict(
    v_units=["py_wrappers", "js_wrappers"], level="proof",
    explanation="Verus on the real wrapper bodies (oxmpl-py: 6 StateValidityChecker impls, PyGoal is_satisfied / distance_goal / sample_goal; oxmpl-js: call_is_valid + 6 impls, call_is_satisfied / call_distance_goal / call_sample_goal + 18 impls) against pyo3 / js-sys stubs that say only `a call returns an object or raises`, `extract::<bool>` / `as_bool` succeed only on a boolean. Proved: the predicate each wrapper implements (the trait's spec `valid` / `sat`, which is what every planner theorem is parametric in) IS the fail-closed function: true only if the callback returned the boolean True; a raising / ill-typed distance_goal yields +inf; a raising / ill-typed sample_goal yields Err(GoalRegionUnsatisfiable), never a state. Because the planner contracts are parametric in `valid` / `sat` and the wrappers are stateless, the planner's result is the one obtained with callbacks returning False on the failing states, and no returned path goes through a state on which the callback failed (C01 instantiated with this `valid`).",
    assumptions=["pyo3 stubs (verus/prelude/py.rs) and js-sys stubs (verus/prelude/js.rs): call1 / call_method / Function::call return Ok(obj) or Err; extract::<bool> / as_bool are Some only for a boolean; Py::new may fail",
                 "faithful Clone of the concrete oxmpl state types (they derive Clone)",
                 "the composition with the planner theorems is by instantiation of their `valid` / `sat` parameters (stated, not a discharged obligation)",
                 "Verus 0.2026.09.13 / Z3; rewrite rules R4, R12, R17 and the unit rules RJ1-RJ3 (hit counts in coverage.rewrite_rule_hits)"],
    not_covered=["the Python side of the FFI (CPython semantics of exceptions / truthiness) beyond the stub contracts", "the wasm build cannot be executed in this sandbox: oxmpl-js is verified as text only"],
)
PENDING.pop("C20", None)

LATTICE = "bounded: lattices of special values (0, +-PI, +-PI +- 1 ulp, multiples of PI/4, antipodal / near-identical / negated quaternions, magnitudes up to 1e6, R^n for n in {1,2,3,5,6,9}, 5 compound layouts x 5 weight vectors incl. 0 and 1e-17, SE(2)/SE(3) for 6 weights) plus seeded random states; tolerances 1e-9 (symmetry, diameter), 1e-6 (identity, reference agreement, triangle, speed; 2e-4 relative for SO(3) nlerp), bit equality for component-wise laws"
for _k in ("C09", "C10", "C11", "C12", "C13"):
    PROPS[_k]["bounded_scenarios"] = LATTICE
    PROPS[_k]["explanation"] += " BOUNDED stand-in (never counted as proved): the native lattice family of this property (replay/src/spaces.rs) runs the real spaces on the lattice described under coverage.bounded_checks; it is what reaches the SO(3) clauses (acos / sin) and the tolerance relations, and it attaches a concrete failing input to a violation."

PROPS["C20"]["bounded_scenarios"] = "bounded: the real oxmpl_py extension module (built from the tree under check) under the real CPython; 4 planners x R^2 problem; validity callback failing on a band of states in 6 ways (raise, None, 1, 'valid', [True], 1.0); goal.is_satisfied failing in 4 ways; each compared with the run whose callback returns False on the same states (same seed); oxmpl-js cannot be executed here (no wasm target)"
PROPS["C20"]["explanation"] += " BOUNDED stand-in (never counted as proved): replay/py/c20_scenarios.py drives the REAL bindings with failing Python callbacks and compares with the run whose callbacks return False on the same states; it attaches concrete failing inputs to violations of the Python half."

PROPS["C19"] = dict(
    v_units=["py_bindings", "py_rrt", "py_rrt_connect", "py_rrt_star", "py_prm"], level="proof",
    design_ref="DESIGN.md section 6, C19 (as built)",
    technique="contract-based deductive verification: Verus (Z3) on the mechanically extracted real oxmpl-py wrapper bodies with spliced DELEGATION contracts; the oxmpl core is a set of uninterpreted deterministic functions",
    explanation="Verus on the real oxmpl-py wrapper bodies (state wrappers, state conversion, planner config, R^n / SO(2) / SO(3) / SE(2) / SE(3) space wrappers, ProblemDefinition.from_*, Path conversions, and new / setup / solve [/ construct_roadmap] of the RRT, RRT-Connect, RRT* and PRM wrappers for all six problem variants) against DELEGATION contracts. The core is modelled as uninterpreted deterministic functions of its arguments (prelude pybind.rs), so what is proved is exactly the differential claim at the wrapper level: every wrapper returns what the core function returns on exactly the wrapped arguments (same values, same order, same objects) -- state constructors / getters, distance, extent, resolution setter; a space constructor raises ValueError exactly when the core constructor returns an error and otherwise wraps the core's space; a problem definition holds a snapshot of the wrapped space, exactly the wrapped start state and the given goal object; a planner wrapper constructs the core planner of the variant of its problem with exactly (parameters.., config.seed), setup hands it the stored problem and a checker around exactly the given callback, solve passes the timeout on and returns the core's path unchanged (state for state: the same OxmplPath value) or raises Exception exactly when the core returns an error; wrapping and unwrapping states are lossless inverses. Together with C07 (seeded determinism of the core), C20 (the callback wrappers implement exactly the Python callbacks) and C01-C03 for PRM this is the statement of C19 modulo the pyo3 argument-conversion glue.",
    assumptions=["verus/prelude/pybind.rs: the oxmpl core as uninterpreted deterministic functions (constructors, distance, extent, setters, accessors, planner new / setup / solve / construct_roadmap); faithful Clone of core state and space types; Arc / Rc as transparent boxes",
                 "pyo3: the attribute macros (#[pyclass], #[pymethods], #[new], #[getter], #[staticmethod], #[classmethod], #[pyo3(signature)]) are dropped: the generated argument-conversion glue (Python float -> f64 / f32, list -> Vec, object -> PyRef) is NOT verified; PyValueError / PyException constructors only record the exception kind",
                 "std Mutex / RefCell as a two-state view per wrapper call (content on entry / on return); poisoning, re-entrant borrows (BorrowMutError) and calls from Python callbacks back into the same planner are not modelled",
                 "unit rules PB1 (`e.to_string()`), PB2-PB5 (`.lock().unwrap()`, `.borrow()`, `.borrow_mut()` -> named cell accessors), PB6 (closure parameter pattern -> variable + let), R12 (closure header), R15; `__repr__`, Path.from_*_states and Path.states (pyo3 list API, iterator adapters) are external_body with blanked bodies; the names of core types follow the files' dropped `use .. as ..` blocks (type aliases in the unit text)",
                 "the wrapper struct invariant `planner variant == problem variant` is established by the only constructor (private fields) and is a precondition of setup",
                 "Verus 0.2026.09.13 / Z3"],
    not_covered=["the pyo3 glue itself and CPython (the executed extension module is NOT compared with the core here: that would be a differential test, a different family; the bounded Python family of C20 exercises the real module but checks fail-closed behaviour only)",
                 "CompoundState / CompoundStateSpace wrappers (constructors and component access use the pyo3 extraction / list API)",
                 "Duration::from_secs_f32 panics for a negative / non-finite timeout (surfaces as PanicException in Python): not modelled",
                 "`bit-identical arithmetic in the callbacks` is the user's side of the comparison"],
)

PROPS["C19"]["bounded_scenarios"] = "bounded differential: the real oxmpl_py module (built from the tree under check, real CPython) against the core's own answers (`oxmpl-replay pyref`): RRT / RRT-Connect / RRT* x {R^2 box world, SO(2) arc world} x goal_bias {0, 0.05} x 3 seeds, paths compared state for state and bit for bit (callbacks use comparisons and the core's distance only; the goal sampler is deterministic); distances / extents / canonicalised angles on a few values; constructor ValueError lattice (R^1, SO(2) bounds over 10 special values incl. NaN / inf, dimension / length mismatches, SO(3) radius, SE(2) / SE(3) bound counts)"
PROPS["C19"]["explanation"] += " BOUNDED stand-in (never counted as proved; it is a differential test, not a contract): replay/py/c19_scenarios.py compares the executed extension module with the core on mirrored problems; this is what covers the pyo3 glue that the delegation contracts cannot see."
