#!/usr/bin/env python3
"""Record, for the UNCHANGED tree, how many loops / closures of every function of every Verus unit carry no annotation
(vf/shapes.json, committed).  check.py compares the shapes of the tree under check with this baseline: a function that has
gained a loop or a closure without an annotation cannot be decided by the existing contracts (tool limit -> undecided)."""
import json
import os
import sys

sys.path.insert(0, os.path.dirname(os.path.abspath(__file__)))
import extract      # noqa: E402
import verus_run    # noqa: E402

UNITS = ["rrt", "rrt_connect", "rrt_star", "prm", "py_wrappers", "js_wrappers", "compound_space", "rv_space", "so_spaces", "py_bindings", "py_rrt", "py_rrt_connect", "py_rrt_star", "py_prm"]
out = {}
for u in UNITS:
    g = extract.build_unit(verus_run.load_unit(u))
    out[u] = g.shapes
json.dump(out, open(os.path.join(os.path.dirname(os.path.abspath(__file__)), "shapes.json"), "w"), indent=1, sort_keys=True)
print({u: sum(len(v) for v in out[u].values()) for u in out})
