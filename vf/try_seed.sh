#!/bin/bash
# try_seed.sh <patch.diff> <prop> [more props...]: apply to /repo, run the quick checks, undo.  Prints the verdict lines.
PATCH=$1; shift
cd /verif
git -C /repo apply $PATCH || { echo "patch does not apply to /repo"; exit 9; }
for p in "$@"; do
  python3 vf/check.py $p > /tmp/w/try_$p.log 2>&1; rc=$?
  echo "[$p] exit=$rc :: $(grep -E '^VIOLATION|^UNDECIDED' /tmp/w/try_$p.log | head -3 | cut -c1-230 | tr '\n' '|') $(tail -1 /tmp/w/try_$p.log)"
done
git -C /repo checkout -- .
