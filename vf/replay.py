"""Replay: attach a concrete failing input (found by the directed scenario families of /verif/replay, run natively
against the real library built from /repo's working tree) to a failed or undecided obligation.  Never decides a property."""
import json
import os
import shutil
import subprocess
import sys
import tempfile

HERE = os.path.dirname(os.path.abspath(__file__))
VERIF = os.path.dirname(HERE)
REPO = os.environ.get("VERIF_REPO", "/repo")
SCENARIO_PROPS = {"C01", "C02", "C03", "C04", "C05", "C06", "C07", "C08", "C09", "C10", "C11", "C12", "C13", "C14", "C15", "C16", "C17", "C18", "C19", "C20"}
_cache = {}


def run_scenarios(pid, seed, budget=45.0):
    """returns (list of hit dicts, note).  The family is run with the caller's seed and, when that finds nothing, with seed 0 as
    well (the seeded changes of /verif/seeded were all tried with seed 0: a different VERIF_SEED must not lose those)."""
    hits, note = _run_scenarios(pid, seed, budget)
    if not hits and seed != 0 and "does not build" not in note:
        hits, note2 = _run_scenarios(pid, 0, budget)
        note = note + "; second run with seed 0: " + note2
    return hits, note


def _run_scenarios(pid, seed, budget=45.0):
    """returns (list of hit dicts, note)"""
    key = (pid, seed)
    if key in _cache:
        return _cache[key]
    if pid not in SCENARIO_PROPS:
        _cache[key] = ([], "no scenario family for this property")
        return _cache[key]
    if pid == "C20":
        _cache[key] = run_py_scenarios(seed)
        return _cache[key]
    if pid == "C19":
        _cache[key] = run_py_differential(seed)
        return _cache[key]
    d = tempfile.mkdtemp(prefix="vr-")
    try:
        shutil.copytree(os.path.join(VERIF, "replay", "src"), os.path.join(d, "src"))
        open(os.path.join(d, "Cargo.toml"), "w").write(
            '[package]\nname = "oxmpl-replay"\nversion = "0.1.0"\nedition = "2021"\n\n[dependencies]\noxmpl = { path = "%s/oxmpl" }\nrand = "0.9.1"\n\n[workspace]\n' % REPO)
        shutil.copy(os.path.join(REPO, "Cargo.lock"), os.path.join(d, "Cargo.lock"))
        env = dict(os.environ)
        env["CARGO_NET_OFFLINE"] = "true"
        env["CARGO_TARGET_DIR"] = os.path.join(d, "target")
        b = subprocess.run(["cargo", "build", "--offline", "-q"], cwd=d, env=env, capture_output=True, text=True, timeout=600)
        if b.returncode != 0:
            _cache[key] = ([], "replay crate does not build against this tree: " + b.stderr[-400:])
            return _cache[key]
        try:
            r = subprocess.run([os.path.join(d, "target", "debug", "oxmpl-replay"), pid, str(seed), str(budget)], capture_output=True, text=True, timeout=budget * 6 + 60)
            out = r.stdout
            note = "scenario families ran (exit %d)" % r.returncode
        except subprocess.TimeoutExpired as e:
            out = (e.stdout or b"").decode("utf8", "replace") if isinstance(e.stdout, bytes) else (e.stdout or "")
            note = "scenario run did not return within its watchdog (a planner call may not terminate)"
            out += '\n{"scenario":"watchdog","seed":%d,"what":"the scenario run hung: a planner call did not return"}\n' % seed
        hits = []
        for ln in out.splitlines():
            ln = ln.strip()
            if ln.startswith('{"scenario"'):
                try:
                    hits.append(json.loads(ln))
                except Exception:
                    pass
        _cache[key] = (hits, note)
        return _cache[key]
    finally:
        shutil.rmtree(d, ignore_errors=True)


def build_replay_crate(d):
    """build /verif/replay against the tree under check in directory d; returns (binary path or None, note)"""
    shutil.copytree(os.path.join(VERIF, "replay", "src"), os.path.join(d, "src"))
    open(os.path.join(d, "Cargo.toml"), "w").write(
        '[package]\nname = "oxmpl-replay"\nversion = "0.1.0"\nedition = "2021"\n\n[dependencies]\noxmpl = { path = "%s/oxmpl" }\nrand = "0.9.1"\n\n[workspace]\n' % REPO)
    shutil.copy(os.path.join(REPO, "Cargo.lock"), os.path.join(d, "Cargo.lock"))
    env = dict(os.environ)
    env["CARGO_NET_OFFLINE"] = "true"
    env["CARGO_TARGET_DIR"] = os.path.join(d, "target")
    b = subprocess.run(["cargo", "build", "--offline", "-q"], cwd=d, env=env, capture_output=True, text=True, timeout=900)
    if b.returncode != 0:
        return None, "replay crate does not build against this tree: " + b.stderr[-400:]
    return os.path.join(d, "target", "debug", "oxmpl-replay"), "ok"


def run_py_differential(seed):
    """C19 (bounded): the core's answers (`oxmpl-replay pyref`) against the real oxmpl_py module on mirrored problems"""
    d = tempfile.mkdtemp(prefix="vrdf-")
    try:
        binp, note = build_replay_crate(d)
        if binp is None:
            return [], note
        r = subprocess.run([binp, "pyref", str(seed)], capture_output=True, text=True, timeout=600)
        ref = os.path.join(d, "pyref.jsonl")
        open(ref, "w").write("\n".join(l for l in r.stdout.splitlines() if l.startswith("{")) + "\n")
        return run_py_scenarios(seed, script="c19_scenarios.py", extra=[ref])
    finally:
        shutil.rmtree(d, ignore_errors=True)


def run_py_scenarios(seed, script="c20_scenarios.py", extra=()):
    """C20: build the REAL oxmpl-py extension module from the tree under check and run replay/py/c20_scenarios.py under the
    real CPython (the interpreter pyo3 builds against is the `python3` on PATH)."""
    d = tempfile.mkdtemp(prefix="vrpy-")
    try:
        env = dict(os.environ)
        env["CARGO_NET_OFFLINE"] = "true"
        env["CARGO_TARGET_DIR"] = os.path.join(d, "target")
        b = subprocess.run(["cargo", "build", "-p", "oxmpl-py", "--offline", "-q"], cwd=REPO, env=env, capture_output=True, text=True, timeout=1500)
        so = os.path.join(d, "target", "debug", "liboxmpl_py.so")
        if b.returncode != 0 or not os.path.exists(so):
            return [], "oxmpl-py does not build against this tree: " + b.stderr[-400:]
        os.makedirs(os.path.join(d, "mod"))
        shutil.copy(so, os.path.join(d, "mod", "oxmpl_py.so"))
        env["PYTHONPATH"] = os.path.join(d, "mod")
        try:
            r = subprocess.run(["python3", os.path.join(VERIF, "replay", "py", script), str(seed)] + list(extra), capture_output=True, text=True, timeout=600, env=env, cwd=os.path.join(d, "mod"))
            out, note = r.stdout, "python scenario family ran against the real oxmpl_py module (exit %d)" % r.returncode
            if r.returncode not in (0, 1):
                return [], "python scenario family did not run: " + r.stderr[-300:]
        except subprocess.TimeoutExpired:
            return [dict(scenario="watchdog", seed=seed, what="the python scenario run hung")], "python scenario run did not return within its watchdog"
        hits = []
        for ln in out.splitlines():
            if ln.startswith('{"scenario"'):
                try:
                    hits.append(json.loads(ln))
                except Exception:
                    pass
        return hits, note
    finally:
        shutil.rmtree(d, ignore_errors=True)


def attach_scenario(pid, unit, fl, rec, seed=0):
    hits, note = run_scenarios(pid, seed)
    rec["replay_note"] = note
    if hits:
        rec["failing_inputs"] = hits[:5]
        rec["how_to_replay"] = "python3 vf/check.py %s --replay <this file>   (rebuilds /verif/replay against /repo and re-runs scenario family %s with seed %d)" % (pid, pid, seed)
        rec["seed"] = seed
        return True
    return False


def run_replay(pid, path):
    rec = json.load(open(path))
    seed = rec.get("seed", 0)
    hits, note = run_scenarios(pid, seed)
    print("obligation:", rec.get("obligation"))
    print(note)
    if hits:
        for h in hits[:10]:
            print("REPRODUCED:", json.dumps(h))
        return 1
    print("no scenario exhibits a violation on the current tree (the obligation itself is re-checked by the quick command)")
    return 0
