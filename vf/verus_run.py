"""Run Verus on a generated unit and map its diagnostics back to named clauses / repo lines."""
import importlib
import json
import os
import re
import shutil
import subprocess
import sys
import tempfile
import time

sys.path.insert(0, os.path.dirname(os.path.abspath(__file__)))
import extract  # noqa: E402
from rsscan import Src  # noqa: E402

VERUS = shutil.which("verus") or "/usr/local/bin/verus"


def load_unit(name):
    return importlib.import_module("units." + name)


class Failure:
    """one failed obligation"""

    def __init__(self):
        self.message = ""
        self.fn = None            # function in the generated file
        self.clauses = []         # named clauses hit by any span: list of (clause id, tags, text)
        self.repo_sites = []      # (file, line, text) of real-code spans
        self.other = []           # prelude / vstd spans without a marker
        self.primary = None       # description of primary span
        self.gen_lines = []

    def key(self):
        return (self.fn, tuple(c[0] for c in self.clauses), tuple((f, t.strip()) for f, _, t in self.repo_sites))

    def to_json(self):
        return dict(message=self.message, fn=self.fn,
                    clauses=[dict(id=c[0], tags=c[1], text=c[2].strip()) for c in self.clauses],
                    repo_sites=[dict(file=f, line=l, text=x.strip()) for f, l, x in self.repo_sites],
                    other=self.other)


class UnitResult:
    def __init__(self, name):
        self.name = name
        self.status = "error"     # ok | failures | undecided
        self.reason = ""
        self.failures = []
        self.verified = 0
        self.errors = 0
        self.wall_s = 0.0
        self.smt_s = 0.0
        self.gen = None
        self.canary_failed = False
        self.raw_tail = ""
        self.fn_times = {}
        self.version = ""


def _fn_at(gen_src_fns, line_starts, line):
    for f in gen_src_fns:
        if f['l0'] <= line <= f['l1']:
            return f['name']
    return None


def run_unit(name, keep_dir=None, seed=None, rlimit=None, extra_args=()):
    if rlimit is None:
        rlimit = 40
    res = UnitResult(name)
    t0 = time.time()
    try:
        unit = load_unit(name)
        gen = extract.build_unit(unit)
    except extract.ExtractError as e:
        res.status = "undecided"
        res.reason = str(e)
        return res
    res.gen = gen
    if gen.fatal:
        res.status = "undecided"
        res.reason = gen.fatal
        return res
    d = keep_dir or tempfile.mkdtemp(prefix="vf-%s-" % name)
    os.makedirs(d, exist_ok=True)
    path = os.path.join(d, name.replace('-', '_') + ".rs")
    open(path, "w").write(gen.text)
    cmd = [VERUS, path, "--output-json", "--time", "--multiple-errors", "40"]
    if rlimit:
        cmd += ["--rlimit", str(rlimit)]
    if seed is not None:
        cmd += ["--smt-option", "smt.random_seed=%d" % (seed % 1000)]
    cmd += list(extra_args)
    cmd += ["--", "--error-format=json"]
    res.cmd = " ".join(cmd)
    try:
        pr = subprocess.run(cmd, capture_output=True, text=True, timeout=1500, cwd=d)
    except subprocess.TimeoutExpired:
        res.status = "undecided"
        res.reason = "verus timed out"
        return res
    finally:
        pass
    res.wall_s = time.time() - t0
    out, err = pr.stdout, pr.stderr
    res.raw_tail = (err[-4000:] if err else "")
    # JSON summary is on stdout
    summary = None
    try:
        k = out.index('{\n')
        summary = json.loads(out[k:])
    except Exception:
        summary = None
    # diagnostics: rustc-style JSON lines on stderr (with --output-json they are JSON objects)
    diags = []
    for ln in (err + "\n" + out).splitlines():
        ln = ln.strip()
        if ln.startswith('{') and '"message"' in ln:
            try:
                diags.append(json.loads(ln))
            except Exception:
                pass
    src = Src(gen.text)
    fns = []
    for f in src.functions():
        fns.append(dict(name=f['name'], l0=src.line_of(f['line_start']), l1=src.line_of(f['close'])))
    base = os.path.basename(path)
    hard_errors = []
    for dg in diags:
        if dg.get('level') not in ('error',):
            continue
        msg = dg.get('message', '')
        if msg.startswith('aborting due to'):
            continue
        fl = Failure()
        fl.message = msg
        spans = list(dg.get('spans', []))
        for ch in dg.get('children', []):
            spans += ch.get('spans', [])
        is_verif = any(k in msg for k in ('unable to prove', 'post-condition', 'not satisfied', 'assertion failed', 'possible', 'decreases not', 'might', 'invariant', 'precondition', 'postcondition', 'recommendation', 'cannot show', 'failed'))
        for sp in spans:
            fname = os.path.basename(sp.get('file_name', ''))
            l = sp.get('line_start')
            if fname != base:
                fl.other.append("%s:%s %s" % (sp.get('file_name'), l, sp.get('label') or ''))
                continue
            o = gen.origin(l)
            fl.gen_lines.append(l)
            if o is None:
                continue
            if fl.fn is None and o['kind'] in ('repo', 'ann'):
                fl.fn = gen.fn_of(o)
            # a span may cover several lines (a multi-line clause): look for a marker on any of them
            hit = None
            for ll in range(l, (sp.get('line_end') or l) + 1):
                oo = gen.origin(ll)
                if oo and oo.get('marked'):
                    hit = oo
                    break
            if hit is None and o['kind'] == 'ann':
                hit = o
            if hit is not None and 'clause' in hit:
                ent = (hit['clause'], hit.get('tags', []), hit['text'], bool(hit.get('marked')))
                if ent not in fl.clauses:
                    fl.clauses.append(ent)
            elif o['kind'] == 'repo':
                ent = (o['file'], o['line'], o['text'])
                if ent not in fl.repo_sites:
                    fl.repo_sites.append(ent)
            elif o['kind'] == 'prelude':
                fl.other.append("prelude %s:%d %s" % (o['file'], o['line'], o['text'].strip()))
        if not is_verif or (not spans):
            hard_errors.append((dg.get('rendered') or msg)[:1500] + " :: " + "; ".join("%s:%s" % (os.path.basename(s.get('file_name', '')), s.get('line_start')) for s in spans[:3]))
            continue
        res.failures.append(fl)
    if summary and 'verification-results' in summary:
        vr = summary['verification-results']
        res.verified = vr.get('verified', 0)
        res.errors = vr.get('errors', 0)
        res.version = summary.get('verus', {}).get('version', '') if isinstance(summary.get('verus'), dict) else ''
        tm = summary.get('times-ms', {})
        try:
            res.smt_s = tm.get('smt', {}).get('smt-run', 0) / 1000.0
            for m in tm.get('smt', {}).get('smt-run-module-times', []):
                for fb in m.get('function-breakdown', []):
                    res.fn_times[fb.get('function')] = fb.get('time', 0) / 1000.0
        except Exception:
            pass
    if 'panicked at' in err or 'internal error' in err:
        res.status = "undecided"
        res.reason = "verus crashed (internal error): " + err[err.find('panicked at'):][:400]
        if not keep_dir:
            shutil.rmtree(d, ignore_errors=True)
        return res
    if summary is None or 'verification-results' not in (summary or {}):
        # the front end rejected the file: every error diagnostic is a tool / construct problem
        for fl in res.failures:
            hard_errors.append(fl.message + " @ " + "; ".join("%s:%s" % (f, l) for f, l, _ in fl.repo_sites[:2]) + " " + "; ".join(c[0] for c in fl.clauses[:2]))
        res.failures = []
    if hard_errors or summary is None or 'verification-results' not in (summary or {}):
        res.status = "undecided"
        res.reason = "verus front-end error (unsupported construct or tool failure): " + " | ".join(hard_errors[:5])
        if summary is None and not hard_errors:
            res.reason += " no JSON summary; stderr tail: " + err[-600:]
        if not keep_dir:
            shutil.rmtree(d, ignore_errors=True)
        return res
    # canary
    real = []
    for fl in res.failures:
        if any(c[0].endswith('.canary') for c in fl.clauses):
            res.canary_failed = True
        else:
            real.append(fl)
    res.failures = real
    if not res.canary_failed:
        res.status = "undecided"
        res.reason = "vacuity canary verified: axioms or preconditions are contradictory"
    elif any('rlimit' in f.message or 'resource limit' in f.message.lower() or 'timed out' in f.message.lower() for f in res.failures):
        res.status = "undecided"
        res.reason = "resource limit: " + "; ".join(f.message for f in res.failures if 'limit' in f.message.lower())
    else:
        res.status = "failures" if res.failures else "ok"
    if not keep_dir:
        shutil.rmtree(d, ignore_errors=True)
    return res


if __name__ == "__main__":
    name = sys.argv[1]
    keep = sys.argv[2] if len(sys.argv) > 2 else None
    r = run_unit(name, keep_dir=keep)
    print("unit", name, "status", r.status, r.reason)
    print("verified", r.verified, "errors", r.errors, "wall %.1fs smt %.1fs" % (r.wall_s, r.smt_s))
    if r.gen:
        print("rule hits", {k: v for k, v in r.gen.rule_hits.items() if v})
    for f in r.failures:
        print("-", f.message, "| fn", f.fn)
        for c in f.clauses:
            print("     clause", c[0], c[1], "own" if c[3] else "inherited", "::", c[2].strip()[:110])
        for s in f.repo_sites:
            print("     repo  %s:%d :: %s" % (s[0], s[1], s[2].strip()[:110]))
        for o in f.other[:3]:
            print("     other", o[:140])
    if r.status == "undecided":
        print(r.raw_tail[-3000:])
