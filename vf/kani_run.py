"""Engine K: Kani / CBMC on a scratch copy of the real oxmpl crate with injected contracts.

scratch copy = rsync of /repo/oxmpl (+ /repo/Cargo.lock) outside /repo and /verif, with three purely
additive, mechanical edits:
  1. Cargo.toml: `version.workspace = true` -> literal version, `[workspace]` table, check-cfg lint entry
  2. contract attributes (`#[cfg_attr(kani, kani::requires/ensures(..))]`) inserted above the `fn`
     lines listed in kani/contracts.py (unique regex per function)
  3. `#[cfg(kani)] mod verif_kani_<x> { use super::*; include!("<abs path>/kani/<file>.rs"); }` appended
     to the source file that owns the private items the harnesses need
No function body is touched; harnesses call the real functions.
"""
import json
import os
import re
import resource
import shutil
import subprocess
import sys
import tempfile
import time

HERE = os.path.dirname(os.path.abspath(__file__))
VERIF = os.path.dirname(HERE)
REPO = os.environ.get("VERIF_REPO", "/repo")
sys.path.insert(0, os.path.join(VERIF, "kani"))


class KaniSetupError(Exception):
    pass


def prepare_scratch():
    import contracts
    d = tempfile.mkdtemp(prefix="vk-")
    crate = os.path.join(d, "oxmpl")
    shutil.copytree(os.path.join(REPO, "oxmpl"), crate, ignore=shutil.ignore_patterns("target", "tests", "examples", "benches"))
    shutil.copy(os.path.join(REPO, "Cargo.lock"), os.path.join(crate, "Cargo.lock"))
    ws = open(os.path.join(REPO, "Cargo.toml")).read()
    mv = re.search(r'package\.version\s*=\s*"([^"]+)"', ws)
    version = mv.group(1) if mv else "0.0.0"
    ct = open(os.path.join(crate, "Cargo.toml")).read()
    ct = ct.replace("version.workspace = true", 'version = "%s"' % version)
    ct = re.sub(r'readme\s*=\s*"[^"]*"\n', '', ct)
    ct += '\n[workspace]\n\n[lints.rust]\nunexpected_cfgs = { level = "allow", check-cfg = ["cfg(kani)"] }\n'
    open(os.path.join(crate, "Cargo.toml"), "w").write(ct)
    os.makedirs(os.path.join(crate, ".cargo"), exist_ok=True)
    open(os.path.join(crate, ".cargo", "config.toml"), "w").write("[net]\noffline = true\n")
    injected = []
    # 2. contracts
    for rel, fn_regex, attrs, cid in contracts.CONTRACTS:
        path = os.path.join(crate, rel)
        src = open(path).read()
        ms = list(re.finditer(fn_regex, src, re.M))
        if len(ms) != 1:
            raise KaniSetupError("lost anchor: contract %s: /%s/ matches %d times in %s" % (cid, fn_regex, len(ms), rel))
        ls = src.rfind("\n", 0, ms[0].start()) + 1
        indent = re.match(r"\s*", src[ls:]).group(0)
        text = "".join(indent + a.strip() + "\n" for a in attrs.strip().splitlines() if a.strip())
        src = src[:ls] + text + src[ls:]
        open(path, "w").write(src)
        injected.append(cid)
    # 3. harness modules
    for rel, hfile in contracts.HARNESS_MODULES:
        path = os.path.join(crate, rel)
        modname = "verif_kani_" + re.sub(r"\W", "_", os.path.splitext(hfile)[0])
        with open(path, "a") as f:
            f.write('\n#[cfg(kani)]\nmod %s {\n    #![allow(unused_imports, dead_code)]\n    use super::*;\n    include!("%s");\n}\n' % (modname, os.path.join(VERIF, "kani", hfile)))
    # crate-level feature gates for contracts
    lib = os.path.join(crate, "src", "lib.rs")
    s = open(lib).read()
    open(lib, "w").write("#![cfg_attr(kani, feature(stmt_expr_attributes, proc_macro_hygiene))]\n" + s)
    return d, crate, injected


def _limits(mem_gb):
    def f():
        try:
            resource.setrlimit(resource.RLIMIT_AS, (mem_gb * 1024 ** 3, mem_gb * 1024 ** 3))
        except Exception:
            pass
    return f


def _kani_cmd(extra=()):
    return ["cargo", "kani", "-Z", "function-contracts", "-Z", "stubbing", "--output-format", "regular"] + list(extra)


def run_harnesses(crate, hs, jobs=8, mem_gb=24, playback=True):
    """hs: list of (name, timeout_s).  One `cargo kani --harness` process per harness, `jobs` at a time, after one
    shared code generation.  returns (dict name -> result, raw output text)"""
    import concurrent.futures as cf
    env = dict(os.environ)
    env["CARGO_NET_OFFLINE"] = "true"
    env["CARGO_TARGET_DIR"] = os.path.join(os.path.dirname(crate), "target")
    t0 = time.time()
    pr = subprocess.run(_kani_cmd(["--only-codegen"]), cwd=crate, env=env, capture_output=True, text=True, timeout=1800)
    build_out = pr.stdout + "\n" + pr.stderr
    if pr.returncode != 0:
        return {n: dict(status="missing", time_s=None, failed_checks=[], cover_unsat=0, playback=None, full=n) for n, _ in hs}, "BUILD FAILED\n" + build_out

    def one(item):
        n, tmo = item
        cmd = _kani_cmd(["--harness", n, "--exact"] if False else ["--harness", n])
        if playback:
            cmd += ["-Z", "concrete-playback", "--concrete-playback=print"]
        # own process group, so that a timeout also kills the cbmc grandchildren
        pp = subprocess.Popen(cmd, cwd=crate, env=env, stdout=subprocess.PIPE, stderr=subprocess.STDOUT, text=True, start_new_session=True)
        try:
            so, _ = pp.communicate(timeout=tmo)
            return n, so, False
        except subprocess.TimeoutExpired:
            import signal
            try:
                os.killpg(pp.pid, signal.SIGKILL)
            except Exception:
                pass
            try:
                so, _ = pp.communicate(timeout=10)
            except Exception:
                so = ""
            return n, so or "", True

    res = {}
    raw = [build_out[-2000:]]
    with cf.ThreadPoolExecutor(max_workers=jobs) as ex:
        for n, out, timed_out in ex.map(one, hs):
            r = parse_output(out, [n], timed_out, 0.0)
            # a harness name may be a suffix of several paths; take the exact short-name match
            res[n] = r.get(n) or dict(status="missing", time_s=None, failed_checks=[], cover_unsat=0, playback=None, full=n)
            raw.append("==== %s\n%s" % (n, out[-6000:]))
    return res, "\n".join(raw)


def parse_output(out, names, timed_out, wall):
    res = {}
    # sections start with "Checking harness <path>..."
    parts = re.split(r"(?m)^Checking harness ", out)
    for part in parts[1:]:
        hm = re.match(r"([\w:<> ,&\[\]]+?)\.\.\.", part)
        if not hm:
            continue
        full = hm.group(1).strip()
        short = full.split("::")[-1]
        st = None
        if "VERIFICATION:- SUCCESSFUL" in part:
            st = "pass"
        elif "VERIFICATION:- FAILED" in part:
            st = "fail"
        tm = re.search(r"Verification Time: ([0-9.]+)s", part)
        failed = re.findall(r"(?m)^Failed Checks: (.*)$", part)
        # Kani's optional float diagnostics ("NaN on division", "arithmetic overflow on floating-point ...") are neither
        # panics nor undefined behaviour in Rust: they do not make a harness fail here.
        real_failed = [f for f in failed if not (f.startswith("NaN on ") or f.startswith("arithmetic overflow on floating-point"))]
        if st == "fail" and failed and not real_failed:
            st = "pass"
        # an unwinding assertion is not a property failure: the loop bound of the harness is too small for this code
        if st == "fail" and real_failed and all("unwinding assertion" in f for f in real_failed):
            st = "unknown"
        failed = real_failed
        cover_unsat = re.findall(r'(?m)^Check \d+: .*cover.*\n\s+- Status: (UNSATISFIABLE|UNREACHABLE)', part)
        playback = None
        pm = re.search(r"Concrete playback unit test for `[^`]*`:\n```\n(.*?)```", part, re.S)
        if pm:
            playback = pm.group(1)
        res[short] = dict(status=st or "unknown", time_s=float(tm.group(1)) if tm else None, failed_checks=failed[:8],
                          cover_unsat=len(cover_unsat), playback=playback, full=full)
    for n in names:
        if n not in res:
            res[n] = dict(status="timeout" if timed_out else "missing", time_s=None, failed_checks=[], cover_unsat=0, playback=None, full=n)
    return res


def run_property(pid, P, tier, seed):
    import contracts
    import harnesses
    hs = [h for h in harnesses.HARNESSES if pid in h["props"] and (tier == "thorough" or h.get("tier", "quick") == "quick")]
    out = dict(undecided=[], violations=[], known=[], obligations=0, discharged=0, samples=[], functions=[], trusted=list(harnesses.TRUSTED),
               solver_s=0.0, bounded=[], harness_table=[])
    if not hs:
        return out
    kfs = json.load(open(os.path.join(VERIF, "known_findings.json"))).get("findings", [])
    try:
        d, crate, injected = prepare_scratch()
    except KaniSetupError as e:
        out["undecided"].append("K: " + str(e))
        return out
    try:
        res, raw = run_harnesses(crate, [(h["name"], h.get("timeout", 300)) for h in hs], jobs=8)
        if all(r["status"] in ("missing",) for r in res.values()):
            out["undecided"].append("K: cargo kani produced no harness results: " + raw[-1500:])
            return out
        for h in hs:
            r = res[h["name"]]
            row = dict(harness=h["name"], status=r["status"], time_s=r["time_s"], kind=h["kind"], scope=h["scope"], claim=h["claim"], functions=h["functions"])
            out["harness_table"].append(row)
            out["solver_s"] += r["time_s"] or 0.0
            for f in h["functions"]:
                if f not in out["functions"]:
                    out["functions"].append(f)
            expect_kf = h.get("known_finding")
            if r["status"] in ("timeout", "missing", "unknown"):
                if expect_kf and not h.get("optional"):
                    # the harness of a LISTED finding did not finish: the finding stays listed (it is only removed by a run
                    # in which the harness passes); this is not an undecided obligation of the property
                    kf = next((k for k in kfs if k["id"] == expect_kf and k["property"] == pid), None)
                    if kf:
                        out["known"].append((kf, dict(obligation="kani harness %s did not finish (%s): finding not re-confirmed in this run" % (h["name"], r["status"]), harness=h["name"])))
                        continue
                if h.get("optional"):
                    out.setdefault("optional_undecided", []).append("%s: %s within %ds (optional deep harness: not decided, not counted)" % (h["name"], r["status"], h.get("timeout", 300)))
                else:
                    out["undecided"].append("K: harness %s: %s" % (h["name"], r["status"]))
                continue
            if r["status"] == "pass" and r["cover_unsat"]:
                out["undecided"].append("K: harness %s: vacuity cover unsatisfiable (preconditions contradictory)" % h["name"])
                continue
            if h["scope"].startswith("bounded"):
                out["bounded"].append(dict(harness=h["name"], bound=h["scope"], status=r["status"]))
            if r["status"] == "pass":
                if expect_kf:
                    # a listed finding no longer reproduces (e.g. the defect was repaired): simply discharged
                    pass
                if not h["scope"].startswith("bounded"):
                    out["obligations"] += 1
                    out["discharged"] += 1
                if len(out["samples"]) < 6:
                    out["samples"].append(dict(harness=h["name"], claim=h["claim"], scope=h["scope"], status="SUCCESSFUL", time_s=r["time_s"]))
            else:
                kf = None
                if expect_kf:
                    kf = next((k for k in kfs if k["id"] == expect_kf and k["property"] == pid), None)
                desc = dict(obligation="kani harness %s (%s): %s" % (h["name"], h["scope"], h["claim"]), failed_checks=r["failed_checks"], playback=r["playback"], harness=h["name"])
                if kf:
                    out["known"].append((kf, desc))
                else:
                    if not h["scope"].startswith("bounded"):
                        out["obligations"] += 1
                    out["violations"].append(desc)
    finally:
        shutil.rmtree(d, ignore_errors=True)
    return out


if __name__ == "__main__":
    # debugging aid: python3 vf/kani_run.py harness1 harness2 ...   (keeps nothing)
    import harnesses
    names = sys.argv[1:] or [h["name"] for h in harnesses.HARNESSES]
    d, crate, inj = prepare_scratch()
    print("scratch", d, "contracts injected:", inj)
    try:
        tmo = int(os.environ.get("K_TIMEOUT", "900"))
        res, raw = run_harnesses(crate, [(n, tmo) for n in names], jobs=int(os.environ.get("K_JOBS", "8")))
        for n in names:
            r = res[n]
            print("%-40s %-8s %s %s" % (n, r["status"], r["time_s"], "; ".join(r["failed_checks"])[:200]))
            if r["playback"] and os.environ.get("K_PLAYBACK"):
                print(r["playback"])
        if os.environ.get("K_RAW"):
            open(os.environ["K_RAW"], "w").write(raw)
        if all(r["status"] == "missing" for r in res.values()):
            print(raw[-3000:])
    finally:
        shutil.rmtree(d, ignore_errors=True)
