#!/bin/bash
# try_seed_wt.sh <scratch worktree of /repo> <patch.diff> <prop> [more props...]: apply the patch in the WORKTREE (never in /repo),
# run the quick checks against it (VERIF_REPO), undo.  Prints the verdict lines.
WT=$1; PATCH=$2; shift; shift
cd /verif
git -C $WT checkout -q -- . ; git -C $WT apply $PATCH || { echo "patch does not apply"; exit 9; }
T=$(basename $(dirname $PATCH))
for p in "$@"; do
  VERIF_REPO=$WT python3 vf/check.py $p > /tmp/w/try_${T}_$p.log 2>&1; rc=$?
  echo "[$T $p] exit=$rc :: $(grep -E '^VIOLATION|^UNDECIDED' /tmp/w/try_${T}_$p.log | head -3 | cut -c1-230 | tr '\n' '|') $(tail -1 /tmp/w/try_${T}_$p.log)"
done
git -C $WT checkout -q -- .
