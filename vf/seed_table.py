#!/usr/bin/env python3
"""Print the DESIGN.md section-14 table from seeded/<id>/meta.json and seeded/<id>/result.json (written by vf/seed_regress.py),
and store the verdict back into meta.json (`caught_by`)."""
import json
import os

VERIF = os.path.dirname(os.path.dirname(os.path.abspath(__file__)))
SEEDED = os.path.join(VERIF, "seeded")


def classify(res):
    kinds, hows = [], []
    for run in res.get("runs", []):
        if run["exit"] != 1:
            if run["exit"] == 2:
                hows.append("%s: undecided (exit 2): %s" % (run["property"], "; ".join(l for l in run["lines"] if l.startswith("UNDECIDED"))[:200]))
            continue
        for f in run["failed"]:
            u = f.get("unit") or ""
            ob = f.get("obligation") or ""
            if "side condition (syntactic)" in ob:
                k = "syntactic side condition"
            elif u == "S":
                k = "bounded native family"
            elif u == "replay" or ob.startswith("undecided:") or ob.startswith("scenario family"):
                k = "replay"
            else:
                k = "proof"
            if k not in kinds:
                kinds.append(k)
            ci = f.get("concrete_input")
            hows.append("%s %s: %s%s" % (run["property"], u, " ".join(ob.split())[:230], (" || concrete input: " + ci[:160]) if ci else ""))
    if not kinds:
        return "miss", " | ".join(hows) or "not detected"
    return "+".join(kinds), " | ".join(hows[:3])


def main():
    rows = []
    for sid in sorted(os.listdir(SEEDED)):
        d = os.path.join(SEEDED, sid)
        if not os.path.exists(os.path.join(d, "result.json")):
            continue
        meta = json.load(open(os.path.join(d, "meta.json")))
        res = json.load(open(os.path.join(d, "result.json")))
        kind, how = classify(res)
        meta["caught_by"] = dict(check=",".join(r["property"] for r in res.get("runs", [])), kind=kind, how=how)
        json.dump(meta, open(os.path.join(d, "meta.json"), "w"), indent=1)
        summ = " ".join((meta.get("summary") or "").split())[:170].replace("|", "/")
        rows.append("| %s | %s | %s | %s |" % (sid, summ, kind, how.replace("|", "/")[:520]))
    print("| id | change | caught by | how |\n|---|---|---|---|")
    print("\n".join(rows))


if __name__ == "__main__":
    main()
