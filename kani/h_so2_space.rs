include!("h_common.rs");

fn canon(v: f64) -> bool { v >= -PI && v <= PI }
fn any_so2_space() -> SO2StateSpace {
    let lo: f64 = kani::any();
    let hi: f64 = kani::any();
    kani::assume(lo < hi && lo >= -PI && hi <= PI);
    SO2StateSpace { bounds: (lo, hi), longest_valid_segment_fraction: 0.05 }
}

// ---------------------------------------------------------------- C12: constructor contract (loop-free: complete over all f64 pairs)
#[kani::proof_for_contract(SO2StateSpace::new)]
fn so2_new_contract() {
    let b: Option<(f64, f64)> = if kani::any() { Some((kani::any(), kani::any())) } else { None };
    let _ = SO2StateSpace::new(b);
}
// every space the constructor returns satisfies the precondition of rand's random_range (non-empty, finite
// range) and its bounds operations do not panic on any state in the model domain
#[kani::proof]
#[kani::stub(f64::rem_euclid, rem_euclid_model)]
fn so2_new_ok_usable() {
    let b: Option<(f64, f64)> = if kani::any() { Some((kani::any(), kani::any())) } else { None };
    if let Ok(sp) = SO2StateSpace::new(b) {
        kani::cover!(true);
        let (lo, hi) = sp.bounds;
        assert!(lo < hi && lo.is_finite() && hi.is_finite() && (hi - lo).is_finite());
        let mut s = SO2State { value: kani::any() };
        kani::assume(s.value.is_finite() && (s.value + PI).abs() < 4.0 * PI);
        let _ = sp.satisfies_bounds(&s);
        sp.enforce_bounds(&mut s);
    }
}
// C06 (d): the resolution fraction stays positive   (EXPECTED TO FAIL: fraction <= 0 stores 0 — known finding)
#[kani::proof_for_contract(SO2StateSpace::set_longest_valid_segment_fraction)]
fn so2_set_lvsf_contract() {
    let mut sp = any_so2_space();
    sp.set_longest_valid_segment_fraction(kani::any());
}

// ---------------------------------------------------------------- C11: enforce / satisfies / sample agree (complete over the model domain)
#[kani::proof]
#[kani::stub(f64::rem_euclid, rem_euclid_model)]
fn so2_enforce_then_satisfies() {
    let sp = any_so2_space();
    let mut s = SO2State { value: kani::any() };
    kani::assume(s.value.is_finite() && (s.value + PI).abs() < 4.0 * PI);
    kani::cover!(true);
    sp.enforce_bounds(&mut s);
    assert!(sp.satisfies_bounds(&s));                       // the check accepts an enforced state
    assert!(s.value >= sp.bounds.0 && s.value <= sp.bounds.1);   // canonical: numerically inside the interval
    let once = s.value;
    sp.enforce_bounds(&mut s);
    assert!(s.value == once);                               // idempotent, bit for bit
}
#[kani::proof]
#[kani::stub(f64::rem_euclid, rem_euclid_model)]
fn so2_enforce_identity_on_satisfying() {
    let sp = any_so2_space();
    let mut s = SO2State { value: kani::any() };
    kani::assume(canon(s.value));
    kani::assume(sp.satisfies_bounds(&s));
    kani::cover!(true);
    let before = s.value;
    sp.enforce_bounds(&mut s);
    assert!(s.value.to_bits() == before.to_bits());
}
// a value drawn by random_range(lo..hi) (contract: lo <= v < hi) satisfies the bounds
#[kani::proof]
#[kani::stub(f64::rem_euclid, rem_euclid_model)]
fn so2_sample_range_satisfies() {
    let sp = any_so2_space();
    let v: f64 = kani::any();
    kani::assume(v >= sp.bounds.0 && v < sp.bounds.1);
    kani::cover!(true);
    assert!(sp.satisfies_bounds(&SO2State { value: v }));
}

// ---------------------------------------------------------------- C09: distance (complete over canonical inputs)
#[kani::proof]
#[kani::stub(f64::rem_euclid, rem_euclid_model)]
fn so2_dist_range_identity() {
    let sp = any_so2_space();
    let a = SO2State { value: kani::any() };
    let b = SO2State { value: kani::any() };
    kani::assume(canon(a.value) && canon(b.value));
    kani::cover!(true);
    let d = sp.distance(&a, &b);
    assert!(d >= 0.0 && d <= PI);          // non-negative, not NaN, never exceeds the diameter
    assert!(sp.distance(&a, &a) == 0.0);
}
// distance is the length of the SHORT arc: for |a-b| <= PI it is |a-b| up to 2 ulp(2 PI)
#[kani::proof]
#[kani::stub(f64::rem_euclid, rem_euclid_model)]
fn so2_dist_short_arc() {
    let sp = any_so2_space();
    let a = SO2State { value: kani::any() };
    let b = SO2State { value: kani::any() };
    kani::assume(canon(a.value) && canon(b.value));
    let d = sp.distance(&a, &b);
    let raw = (a.value - b.value).abs();
    if raw <= PI { assert!((d - raw).abs() <= 2e-15); } else { assert!((d - (2.0 * PI - raw)).abs() <= 2e-15); }
}

// ---------------------------------------------------------------- C10 / C04: interpolation
#[kani::proof]
#[kani::stub(f64::rem_euclid, rem_euclid_model)]
fn so2_interp_canonical() {
    let sp = any_so2_space();
    let a = SO2State { value: kani::any() };
    let b = SO2State { value: kani::any() };
    let t: f64 = kani::any();
    kani::assume(canon(a.value) && canon(b.value) && t >= 0.0 && t <= 1.0);
    kani::cover!(true);
    let mut o = a.clone();
    sp.interpolate(&a, &b, t, &mut o);
    assert!(canon(o.value));
}
#[kani::proof]
#[kani::stub(f64::rem_euclid, rem_euclid_model)]
fn so2_interp_endpoints() {
    let sp = any_so2_space();
    let a = SO2State { value: kani::any() };
    let b = SO2State { value: kani::any() };
    kani::assume(canon(a.value) && canon(b.value));
    let mut o = a.clone();
    sp.interpolate(&a, &b, 0.0, &mut o);
    assert!((o.value - a.value).abs() <= 1e-15 || (o.value - a.value).abs() >= 2.0 * PI - 1e-15);
}
// C04 premise for SO(2): interpolating between two in-bounds states stays in bounds
// (EXPECTED TO FAIL: the short arc may leave [lo, hi] — known finding)
#[kani::proof]
#[kani::stub(f64::rem_euclid, rem_euclid_model)]
fn so2_interp_convex() {
    let sp = any_so2_space();
    let a = SO2State { value: kani::any() };
    let b = SO2State { value: kani::any() };
    let t: f64 = kani::any();
    kani::assume(canon(a.value) && canon(b.value) && t >= 0.0 && t <= 1.0);
    kani::assume(sp.satisfies_bounds(&a) && sp.satisfies_bounds(&b));
    let mut o = a.clone();
    sp.interpolate(&a, &b, t, &mut o);
    assert!(o.value >= sp.bounds.0 - 1e-9 && o.value <= sp.bounds.1 + 1e-9);
}
// concrete witness of the known finding (no search): bounds (-3, 3), a = -2.9, b = 2.9, t = 0.5 -> the short arc passes through +-PI
#[kani::proof]
#[kani::stub(f64::rem_euclid, rem_euclid_model)]
fn so2_interp_convex_witness() {
    let sp = SO2StateSpace::new(Some((-3.0, 3.0))).unwrap();
    let a = SO2State { value: -2.9 };
    let b = SO2State { value: 2.9 };
    assert!(sp.satisfies_bounds(&a) && sp.satisfies_bounds(&b));
    let mut o = a.clone();
    sp.interpolate(&a, &b, 0.5, &mut o);
    assert!(sp.satisfies_bounds(&o));
}
// ... but it does hold when the interval spans less than a half circle and stays away from the +-PI seam
#[kani::proof]
#[kani::stub(f64::rem_euclid, rem_euclid_model)]
fn so2_interp_convex_half_circle() {
    let sp = any_so2_space();
    kani::assume(sp.bounds.1 - sp.bounds.0 <= 3.0 && sp.bounds.0 >= -3.0 && sp.bounds.1 <= 3.0);   // span < PI and away from the +-PI seam
    let a = SO2State { value: kani::any() };
    let b = SO2State { value: kani::any() };
    let t: f64 = kani::any();
    kani::assume(canon(a.value) && canon(b.value) && t >= 0.0 && t <= 1.0);
    kani::assume(sp.satisfies_bounds(&a) && sp.satisfies_bounds(&b));
    kani::cover!(true);
    let mut o = a.clone();
    sp.interpolate(&a, &b, t, &mut o);
    assert!(o.value >= sp.bounds.0 - 1e-9 && o.value <= sp.bounds.1 + 1e-9);
}

// ---------------------------------------------------------------- C10 on a lattice of special values (BOUNDED: the listed values only)
// seam crossings, exactly antipodal angles, multiples of PI/2, t in {0, 1/8, 1/2, 7/8, 1}: end points, distance law,
// canonical form and reversal symmetry interp(a,b,t) ~ interp(b,a,1-t)
fn ang_close(x: f64, y: f64) -> bool { let d = (x - y).abs(); d <= 1e-9 || (d - 2.0 * PI).abs() <= 1e-9 }
#[kani::proof]
#[kani::unwind(8)]
#[kani::stub(f64::rem_euclid, rem_euclid_model)]
fn so2_interp_lattice() {
    let sp = SO2StateSpace::new(None).unwrap();
    let vals = [0.0, PI / 2.0, -PI / 2.0, PI, -PI, 3.0, -3.0];
    let ts = [0.0, 0.125, 0.5, 0.875, 1.0];
    let i: usize = kani::any(); let j: usize = kani::any(); let k: usize = kani::any();
    kani::assume(i < 7 && j < 7 && k < 5);
    let (a, b, t) = (SO2State { value: vals[i] }, SO2State { value: vals[j] }, ts[k]);
    let mut o = a.clone();
    sp.interpolate(&a, &b, t, &mut o);
    assert!(canon(o.value));
    let dab = sp.distance(&a, &b);
    assert!((sp.distance(&a, &o) - t * dab).abs() <= 1e-9);               // distance from a is t * d(a,b)
    assert!((sp.distance(&o, &b) - (1.0 - t) * dab).abs() <= 1e-9);       // distance from b is (1-t) * d(a,b)
    let mut r = b.clone();
    sp.interpolate(&b, &a, 1.0 - t, &mut r);
    assert!(ang_close(o.value, r.value));                                  // same configuration from the other end
}
