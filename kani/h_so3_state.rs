include!("h_common.rs");
// the norm the real code computes is made observable: the sqrt stub returns the value chosen by the harness
static mut NORM: f64 = 0.0;
static mut SQRT_CALLS: u32 = 0;
fn sqrt_fixed(x: f64) -> f64 {
    unsafe {
        SQRT_CALLS += 1;
        kani::assume(x == x && x >= 0.0 && NORM >= 0.0 && (NORM == 0.0) == (x == 0.0) && NORM.is_finite() == x.is_finite());
        NORM
    }
}
// ---------------------------------------------------------------- C12: quaternion normalisation (sqrt / powi contract stubs)
#[kani::proof]
#[kani::stub(f64::sqrt, sqrt_fixed)]
#[kani::stub(f64::powi, powi_model)]
fn so3_normalise_zero_iff() {
    let mut q = SO3State { x: kani::any(), y: kani::any(), z: kani::any(), w: kani::any() };
    kani::assume(q.x.is_finite() && q.y.is_finite() && q.z.is_finite() && q.w.is_finite());
    unsafe { NORM = kani::any(); }
    let r = q.normalise();
    let norm = unsafe { NORM };
    assert!(unsafe { SQRT_CALLS } == 1);
    kani::cover!(r.is_ok());
    kani::cover!(r.is_err());
    match r {
        Err(StateError::ZeroMagnitude) => { assert!(norm < 1e-9); }
        Ok(_) => { assert!(!(norm < 1e-9)); }
    }
}
#[kani::proof]
#[kani::stub(f64::sqrt, sqrt_fixed)]
#[kani::stub(f64::powi, powi_model)]
fn so3_normalise_contract() {
    let mut q = SO3State { x: kani::any(), y: kani::any(), z: kani::any(), w: kani::any() };
    kani::assume(q.x.is_finite() && q.y.is_finite() && q.z.is_finite() && q.w.is_finite());
    unsafe { NORM = kani::any(); }
    let r = q.normalise();
    let norm = unsafe { NORM };
    assert!(unsafe { SQRT_CALLS } == 1);
    kani::cover!(r.is_ok());
    kani::cover!(r.is_err());
    match r {
        Err(StateError::ZeroMagnitude) => { assert!(norm < 1e-9); }
        Ok(u) => {
            assert!(!(norm < 1e-9));
            // parallel to the input: every component divided by the same positive norm
            assert!(u.x.to_bits() == (q.x / norm).to_bits() && u.y.to_bits() == (q.y / norm).to_bits() && u.z.to_bits() == (q.z / norm).to_bits() && u.w.to_bits() == (q.w / norm).to_bits());
        }
    }
}
