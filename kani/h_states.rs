include!("h_common.rs");

// ---------------------------------------------------------------- C12: SO(2) angle canonicalisation
#[kani::proof]
#[kani::stub(f64::rem_euclid, rem_euclid_model)]
fn so2_state_new_canonical() {
    let v: f64 = kani::any();
    kani::assume(v.is_finite() && (v + PI).abs() < 4.0 * PI);
    kani::cover!(true);
    let s = SO2State::new(v);
    assert!(s.value >= -PI && s.value <= PI);
    let mut m = SO2State { value: v };
    assert!(m.normalise().value.to_bits() == s.value.to_bits());
}
#[kani::proof]
#[kani::stub(f64::rem_euclid, rem_euclid_model)]
fn so2_state_new_congruent() {
    let v: f64 = kani::any();
    kani::assume(v.is_finite() && (v + PI).abs() < 4.0 * PI);
    let r = SO2State::new(v).value;
    let d = r - v;
    // congruent to the input modulo 2 PI (k in -2..=2 on this domain), up to rounding
    assert!(d.abs() <= 2e-15 || (d - 2.0 * PI).abs() <= 2e-15 || (d + 2.0 * PI).abs() <= 2e-15 || (d - 4.0 * PI).abs() <= 4e-15 || (d + 4.0 * PI).abs() <= 4e-15);
}
// all finite angles (tiny to 1e300): only the documented range of rem_euclid is used
#[kani::proof]
#[kani::stub(f64::rem_euclid, rem_euclid_range)]
fn so2_state_new_canonical_all_finite() {
    let v: f64 = kani::any();
    kani::assume(v.is_finite());
    let s = SO2State::new(v);
    assert!(s.value >= -PI && s.value <= PI);
}
