include!("h_common.rs");

fn fin(x: f64) -> bool { x.is_finite() && x.abs() <= 1.0e150 }
fn rv_space_2() -> RealVectorStateSpace {
    let l0: f64 = kani::any(); let h0: f64 = kani::any(); let l1: f64 = kani::any(); let h1: f64 = kani::any();
    kani::assume(l0 < h0 && l1 < h1);
    RealVectorStateSpace { dimension: 2, bounds: vec![(l0, h0), (l1, h1)], longest_valid_segment_fraction: 0.05 }
}

// ---------------------------------------------------------------- C12: constructor (BOUNDED: dimension and bounds length <= 2)
#[kani::proof]
#[kani::unwind(4)]
fn rv_new_contract_le2() {
    let dimension: usize = kani::any();
    kani::assume(dimension <= 2);
    let n: usize = kani::any();
    kani::assume(n <= 2);
    let b0: (f64, f64) = (kani::any(), kani::any());
    let b1: (f64, f64) = (kani::any(), kani::any());
    let some: bool = kani::any();
    let bounds = if some { Some(if n == 0 { vec![] } else if n == 1 { vec![b0] } else { vec![b0, b1] }) } else { None };
    let r = RealVectorStateSpace::new(dimension, bounds);
    kani::cover!(r.is_ok());
    kani::cover!(r.is_err());
    match r {
        Ok(sp) => {
            assert!(sp.dimension == dimension && sp.bounds.len() == dimension);
            let mut i = 0;
            while i < sp.bounds.len() { assert!(sp.bounds[i].0 < sp.bounds[i].1); i += 1; }   // lower strictly below upper, no NaN
            assert!(if some { n == dimension } else { dimension > 0 });
        }
        Err(StateSpaceError::DimensionMismatch { expected, found }) => { assert!(some && n != dimension && expected == dimension && found == n); }
        Err(StateSpaceError::ZeroDimensionUnbounded) => { assert!(!some && dimension == 0); }
        Err(StateSpaceError::InvalidBound { lower, upper }) => { assert!(some && n == dimension && !(lower < upper)); }
        Err(_) => { assert!(false); }
    }
}
#[kani::proof]
#[kani::unwind(4)]
fn rv_new_contract_d1() {
    let n: usize = kani::any();
    kani::assume(n <= 2);
    let b0: (f64, f64) = (kani::any(), kani::any());
    let b1: (f64, f64) = (kani::any(), kani::any());
    let bounds = Some(if n == 0 { vec![] } else if n == 1 { vec![b0] } else { vec![b0, b1] });
    let r = RealVectorStateSpace::new(1, bounds);
    kani::cover!(r.is_ok());
    match r {
        Ok(sp) => { assert!(n == 1 && sp.dimension == 1 && sp.bounds.len() == 1 && sp.bounds[0].0 < sp.bounds[0].1); }
        Err(StateSpaceError::DimensionMismatch { expected, found }) => { assert!(n != 1 && expected == 1 && found == n); }
        Err(StateSpaceError::InvalidBound { lower, upper }) => { assert!(n == 1 && !(lower < upper)); }
        Err(_) => { assert!(false); }
    }
}
// C06 (d)  (EXPECTED TO FAIL: fraction <= 0 stores 0 — known finding)
#[kani::proof]
#[kani::unwind(4)]
fn rv_set_lvsf_positive() {
    let mut sp = rv_space_2();
    sp.set_longest_valid_segment_fraction(kani::any());
    assert!(sp.longest_valid_segment_fraction > 0.0 && sp.longest_valid_segment_fraction <= 1.0);
}

// ---------------------------------------------------------------- C11 (BOUNDED: dimension 2)
#[kani::proof]
#[kani::unwind(4)]
fn rv_enforce_then_satisfies_d2() {
    let sp = rv_space_2();
    let v0: f64 = kani::any(); let v1: f64 = kani::any();
    kani::assume(v0 == v0 && v1 == v1);      // NaN coordinates stay NaN under clamp
    let mut s = RealVectorState { values: vec![v0, v1] };
    kani::cover!(true);
    sp.enforce_bounds(&mut s);                // must not panic (clamp requires lo <= hi, no NaN bound)
    assert!(sp.satisfies_bounds(&s));
    assert!(s.values[0] >= sp.bounds[0].0 && s.values[0] <= sp.bounds[0].1 && s.values[1] >= sp.bounds[1].0 && s.values[1] <= sp.bounds[1].1);
    let (o0, o1) = (s.values[0], s.values[1]);
    sp.enforce_bounds(&mut s);
    assert!(s.values[0].to_bits() == o0.to_bits() && s.values[1].to_bits() == o1.to_bits());   // idempotent
}
// enforce leaves a satisfying state unchanged   (EXPECTED TO FAIL: satisfies_bounds tolerates f64::EPSILON outside
// the box, enforce_bounds clamps exactly — known finding)
#[kani::proof]
#[kani::unwind(4)]
fn rv_enforce_identity_on_satisfying_d2() {
    let sp = rv_space_2();
    let v0: f64 = kani::any(); let v1: f64 = kani::any();
    kani::assume(v0 == v0 && v1 == v1);
    let mut s = RealVectorState { values: vec![v0, v1] };
    kani::assume(sp.satisfies_bounds(&s));
    sp.enforce_bounds(&mut s);
    assert!(s.values[0].to_bits() == v0.to_bits() && s.values[1].to_bits() == v1.to_bits());
}
// ... it does hold for states strictly inside the closed box
#[kani::proof]
#[kani::unwind(4)]
fn rv_enforce_identity_inside_box_d2() {
    let sp = rv_space_2();
    let v0: f64 = kani::any(); let v1: f64 = kani::any();
    kani::assume(v0 >= sp.bounds[0].0 && v0 <= sp.bounds[0].1 && v1 >= sp.bounds[1].0 && v1 <= sp.bounds[1].1);
    let mut s = RealVectorState { values: vec![v0, v1] };
    kani::cover!(true);
    assert!(sp.satisfies_bounds(&s));
    sp.enforce_bounds(&mut s);
    assert!(s.values[0].to_bits() == v0.to_bits() && s.values[1].to_bits() == v1.to_bits());
}
// a coordinate drawn by random_range(lo..hi) (contract lo <= v < hi) satisfies the bounds; and the guards of
// sample_uniform imply random_range's precondition for every dimension it reaches
#[kani::proof]
#[kani::unwind(4)]
fn rv_sample_range_satisfies_d2() {
    let sp = rv_space_2();
    let v0: f64 = kani::any(); let v1: f64 = kani::any();
    kani::assume(v0 >= sp.bounds[0].0 && v0 < sp.bounds[0].1 && v1 >= sp.bounds[1].0 && v1 < sp.bounds[1].1);
    kani::cover!(true);
    assert!(sp.satisfies_bounds(&RealVectorState { values: vec![v0, v1] }));
}

// ---------------------------------------------------------------- C09 (BOUNDED: dimension 2; sqrt / powi contract stubs)
#[kani::proof]
#[kani::unwind(6)]
#[kani::stub(f64::sqrt, sqrt_model)]
#[kani::stub(f64::powi, powi_model)]
fn rv_distance_d2() {
    let sp = rv_space_2();
    let a = RealVectorState { values: vec![kani::any(), kani::any()] };
    let b = RealVectorState { values: vec![kani::any(), kani::any()] };
    kani::assume(fin(a.values[0]) && fin(a.values[1]) && fin(b.values[0]) && fin(b.values[1]));
    kani::cover!(true);
    let d = sp.distance(&a, &b);
    assert!(d >= 0.0);                                   // non-negative, never NaN
    assert!(d.to_bits() == sp.distance(&b, &a).to_bits());   // symmetric, bit for bit
    assert!(sp.distance(&a, &a) == 0.0);
    // function against the spec function: sqrt(0 + (a0-b0)^2 + (a1-b1)^2) evaluated left to right
    let e = sqrt_model(0.0 + (a.values[0] - b.values[0]) * (a.values[0] - b.values[0]) + (a.values[1] - b.values[1]) * (a.values[1] - b.values[1]));
    assert!(d.to_bits() == e.to_bits());
}

// ---------------------------------------------------------------- C10 / C04
// (BOUNDED: dimension 2) interpolate computes a_i + (b_i - a_i) * t for every coordinate, bit for bit
#[kani::proof]
#[kani::unwind(4)]
fn rv_interp_formula_d2() {
    let sp = rv_space_2();
    let a = RealVectorState { values: vec![kani::any(), kani::any()] };
    let b = RealVectorState { values: vec![kani::any(), kani::any()] };
    let t: f64 = kani::any();
    kani::cover!(true);
    let mut o = RealVectorState { values: vec![0.0, 0.0] };
    sp.interpolate(&a, &b, t, &mut o);
    assert!(o.values[0].to_bits() == (a.values[0] + (b.values[0] - a.values[0]) * t).to_bits());
    assert!(o.values[1].to_bits() == (a.values[1] + (b.values[1] - a.values[1]) * t).to_bits());
}
// (complete) the scalar law at t = 0: a + (b - a) * 0.0 == a for all finite a, b (also when b - a overflows to +-inf? no: inf * 0 is NaN, hence the bound)
#[kani::proof]
fn scalar_lerp_t0() {
    let a: f64 = kani::any(); let b: f64 = kani::any();
    kani::assume(fin(a) && fin(b));
    assert!(a + (b - a) * 0.0 == a);
}
// (BOUNDED: dimension 1) distance on R^1: non-negative, never NaN, zero on equal states (sqrt / powi contract stubs)
#[kani::proof]
#[kani::unwind(6)]
#[kani::stub(f64::sqrt, sqrt_model)]
#[kani::stub(f64::powi, powi_model)]
fn rv_distance_d1() {
    let lo: f64 = kani::any(); let hi: f64 = kani::any();
    kani::assume(lo < hi);
    let sp = RealVectorStateSpace { dimension: 1, bounds: vec![(lo, hi)], longest_valid_segment_fraction: 0.05 };
    let a = RealVectorState { values: vec![kani::any()] };
    let b = RealVectorState { values: vec![kani::any()] };
    kani::assume(fin(a.values[0]) && fin(b.values[0]));
    kani::cover!(true);
    let d = sp.distance(&a, &b);
    assert!(d >= 0.0);
    assert!(sp.distance(&a, &a) == 0.0);
}
// (complete, scalar law used per coordinate) a + (b - a) * t is a at t = 0 and lies between a and the t = 1 value
// e = a + (b - a) for every t in [0,1] (monotone rounding): a convex box contains the segment up to the rounding of e
#[kani::proof]
fn scalar_lerp_monotone() {
    let a: f64 = kani::any(); let b: f64 = kani::any(); let t: f64 = kani::any();
    kani::assume(fin(a) && fin(b) && t >= 0.0 && t <= 1.0);
    assert!(a + (b - a) * 0.0 == a);
    let e = a + (b - a);
    let r = a + (b - a) * t;
    assert!(r >= a.min(e) && r <= a.max(e));
}

// ---------------------------------------------------------------- C09 on unit vectors (BOUNDED: dimension 5, coordinate axes)
// distinct states are at a positive distance and d(e,e) == 0, for every coordinate of a 5-dimensional space
#[kani::proof]
#[kani::unwind(8)]
#[kani::stub(f64::sqrt, sqrt_model)]
#[kani::stub(f64::powi, powi_model)]
fn rv_distance_axes_d5() {
    let i: usize = kani::any();
    kani::assume(i < 5);
    let sp = RealVectorStateSpace::new(5, None).unwrap();
    let x: f64 = kani::any();
    kani::assume(x.abs() >= 1.0e-100 && x.abs() <= 1.0e100);        // x * x neither underflows to 0 nor overflows
    let zero = RealVectorState { values: vec![0.0, 0.0, 0.0, 0.0, 0.0] };
    let mut e = RealVectorState { values: vec![0.0, 0.0, 0.0, 0.0, 0.0] };
    e.values[i] = x;
    let d = sp.distance(&zero, &e);
    assert!(d > 0.0);                                  // distinct states are not at distance 0
    assert!(sp.distance(&e, &e) == 0.0);
}
