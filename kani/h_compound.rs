include!("h_common.rs");
use crate::base::space::{RealVectorStateSpace, SO2StateSpace};
use crate::base::state::{RealVectorState, SO2State, State};
use std::any::Any;
use std::f64::consts::PI;

fn fin(x: f64) -> bool { x.is_finite() && x.abs() <= 1.0e100 }
fn r1() -> RealVectorStateSpace {
    let lo: f64 = kani::any(); let hi: f64 = kani::any();
    kani::assume(lo < hi);
    RealVectorStateSpace::new(1, Some(vec![(lo, hi)])).unwrap()
}
fn so2() -> SO2StateSpace {
    let lo: f64 = kani::any(); let hi: f64 = kani::any();
    kani::assume(lo < hi && lo >= -PI && hi <= PI);
    SO2StateSpace::new(Some((lo, hi))).unwrap()
}
fn st(x: f64, th: f64) -> CompoundState {
    CompoundState::new(vec![Box::new(RealVectorState::new(vec![x])), Box::new(SO2State { value: th })])
}
fn rv_of(s: &CompoundState) -> &RealVectorState { (&*s.components[0] as &dyn Any).downcast_ref::<RealVectorState>().unwrap() }
fn so2_of(s: &CompoundState) -> &SO2State { (&*s.components[1] as &dyn Any).downcast_ref::<SO2State>().unwrap() }

// C13 (BOUNDED in layout: R^1 x SO(2); symbolic weights, bounds and states): distance law
#[kani::proof]
#[kani::unwind(7)]
#[kani::stub(f64::sqrt, sqrt_model)]
#[kani::stub(f64::powi, powi_model)]
#[kani::stub(f64::rem_euclid, rem_euclid_model)]
fn compound_distance_law_r1_so2() {
    let (a_sp, b_sp) = (r1(), so2());
    let w0: f64 = kani::any(); let w1: f64 = kani::any();
    kani::assume(fin(w0) && fin(w1));
    let sp = CompoundStateSpace::new(vec![Box::new(a_sp.clone()), Box::new(b_sp.clone())], vec![w0, w1]);
    let (x0, t0, x1, t1): (f64, f64, f64, f64) = (kani::any(), kani::any(), kani::any(), kani::any());
    kani::assume(fin(x0) && fin(x1) && t0 >= -PI && t0 <= PI && t1 >= -PI && t1 <= PI);
    let (p, q) = (st(x0, t0), st(x1, t1));
    kani::cover!(true);
    let d = sp.distance(&p, &q);                       // real dyn dispatch + Any downcasts: must not panic
    let d0 = a_sp.distance(rv_of(&p), rv_of(&q));
    let d1 = b_sp.distance(so2_of(&p), so2_of(&q));
    let expect = sqrt_model(0.0 + (d0 * w0) * (d0 * w0) + (d1 * w1) * (d1 * w1));
    assert!(d.to_bits() == expect.to_bits());          // sqrt(sum (d_i * w_i)^2), left to right
    // resolution: the same weighted combination of the component resolutions
    let l = sp.get_longest_valid_segment_length();
    let (l0, l1) = (a_sp.get_longest_valid_segment_length(), b_sp.get_longest_valid_segment_length());
    assert!(l.to_bits() == sqrt_model(0.0 + (l0 * w0) * (l0 * w0) + (l1 * w1) * (l1 * w1)).to_bits());
}
// interpolation, bounds check and bounds enforcement act component by component
#[kani::proof]
#[kani::unwind(7)]
#[kani::stub(f64::rem_euclid, rem_euclid_model)]
fn compound_componentwise_r1_so2() {
    let (a_sp, b_sp) = (r1(), so2());
    let sp = CompoundStateSpace::new(vec![Box::new(a_sp.clone()), Box::new(b_sp.clone())], vec![1.0, 1.0]);
    let (x0, t0, x1, t1, t): (f64, f64, f64, f64, f64) = (kani::any(), kani::any(), kani::any(), kani::any(), kani::any());
    kani::assume(fin(x0) && fin(x1) && t0 >= -PI && t0 <= PI && t1 >= -PI && t1 <= PI && t >= 0.0 && t <= 1.0);
    let (p, q) = (st(x0, t0), st(x1, t1));
    kani::cover!(true);
    let mut o = st(0.0, 0.0);
    sp.interpolate(&p, &q, t, &mut o);
    let mut o0 = RealVectorState::new(vec![0.0]);
    a_sp.interpolate(rv_of(&p), rv_of(&q), t, &mut o0);
    let mut o1 = SO2State { value: 0.0 };
    b_sp.interpolate(so2_of(&p), so2_of(&q), t, &mut o1);
    assert!(rv_of(&o).values[0].to_bits() == o0.values[0].to_bits() && so2_of(&o).value.to_bits() == o1.value.to_bits());
    assert!(sp.satisfies_bounds(&p) == (a_sp.satisfies_bounds(rv_of(&p)) && b_sp.satisfies_bounds(so2_of(&p))));
    let mut e = st(x0, t0);
    sp.enforce_bounds(&mut e);
    let mut e0 = RealVectorState::new(vec![x0]);
    a_sp.enforce_bounds(&mut e0);
    let mut e1 = SO2State { value: t0 };
    b_sp.enforce_bounds(&mut e1);
    assert!(rv_of(&e).values[0].to_bits() == e0.values[0].to_bits() && so2_of(&e).value.to_bits() == e1.value.to_bits());
    assert!(sp.satisfies_bounds(&e));                   // C11 for the compound: enforced ==> accepted
}

// light version (BOUNDED layout R^1 x R^1): the bounds check is the conjunction of the component checks and the
// resolution is the weighted combination, through the real dyn dispatch
#[kani::proof]
#[kani::unwind(7)]
#[kani::stub(f64::sqrt, sqrt_model)]
#[kani::stub(f64::powi, powi_model)]
fn compound_satisfies_lvsl_r1_r1() {
    let (a_sp, b_sp) = (r1(), r1());
    let w0: f64 = kani::any(); let w1: f64 = kani::any();
    kani::assume(fin(w0) && fin(w1));
    let sp = CompoundStateSpace::new(vec![Box::new(a_sp.clone()), Box::new(b_sp.clone())], vec![w0, w1]);
    let (x0, x1): (f64, f64) = (kani::any(), kani::any());
    let p = CompoundState::new(vec![Box::new(RealVectorState::new(vec![x0])), Box::new(RealVectorState::new(vec![x1]))]);
    kani::cover!(true);
    let c0 = a_sp.satisfies_bounds(&RealVectorState::new(vec![x0]));
    let c1 = b_sp.satisfies_bounds(&RealVectorState::new(vec![x1]));
    assert!(sp.satisfies_bounds(&p) == (c0 && c1));
}

// lighter still: spaces built without the validating loop, unwind 4
fn r1_light() -> RealVectorStateSpace {
    let lo: f64 = kani::any(); let hi: f64 = kani::any();
    kani::assume(lo < hi);
    let mut sp = RealVectorStateSpace::new(1, None).unwrap();
    sp.bounds = vec![(lo, hi)];
    sp
}
#[kani::proof]
#[kani::unwind(4)]
fn compound_satisfies_r1_r1_light() {
    let (a_sp, b_sp) = (r1_light(), r1_light());
    let sp = CompoundStateSpace::new(vec![Box::new(a_sp.clone()), Box::new(b_sp.clone())], vec![1.0, 1.0]);
    let (x0, x1): (f64, f64) = (kani::any(), kani::any());
    let p = CompoundState::new(vec![Box::new(RealVectorState::new(vec![x0])), Box::new(RealVectorState::new(vec![x1]))]);
    kani::cover!(true);
    let c0 = a_sp.satisfies_bounds(&RealVectorState::new(vec![x0]));
    let c1 = b_sp.satisfies_bounds(&RealVectorState::new(vec![x1]));
    assert!(sp.satisfies_bounds(&p) == (c0 && c1));
}

// ---------------------------------------------------------------- C13 / C10 on concrete layouts (BOUNDED: the listed layouts and values)
fn lattice_spaces() -> (RealVectorStateSpace, RealVectorStateSpace, SO2StateSpace) {
    (RealVectorStateSpace::new(1, Some(vec![(-2.0, 2.0)])).unwrap(), RealVectorStateSpace::new(1, Some(vec![(-1.0e18, 1.0e18)])).unwrap(), SO2StateSpace::new(None).unwrap())
}
// three components R^1 x R^1 x SO(2) with unequal (also tiny) weights: the resolution follows the weighted-L2 law
// (the sqrt model is a memoised function: equal arguments give equal results, different arguments may differ)
#[kani::proof]
#[kani::unwind(6)]
#[kani::stub(f64::sqrt, sqrt_model)]
#[kani::stub(f64::powi, powi_model)]
fn compound_lvsl_lattice() {
    let (a_sp, b_sp, c_sp) = lattice_spaces();
    let ws = [[1.0, 2.0, 0.5], [1.0e-17, 1.0, 1.0], [3.0, 1.0e-17, 0.0]];
    let wi: usize = kani::any();
    kani::assume(wi < 3);
    let w = ws[wi];
    let sp = CompoundStateSpace::new(vec![Box::new(a_sp.clone()), Box::new(b_sp.clone()), Box::new(c_sp.clone())], vec![w[0], w[1], w[2]]);
    let (l0, l1, l2) = (a_sp.get_longest_valid_segment_length(), b_sp.get_longest_valid_segment_length(), c_sp.get_longest_valid_segment_length());
    let l = sp.get_longest_valid_segment_length();
    assert!(l.to_bits() == sqrt_model(0.0 + (l0 * w[0]) * (l0 * w[0]) + (l1 * w[1]) * (l1 * w[1]) + (l2 * w[2]) * (l2 * w[2])).to_bits());
}
// interpolation is component-wise and writes EVERY component of the output state (the output starts from an unrelated state;
// the first component does not move)
#[kani::proof]
#[kani::unwind(6)]
#[kani::stub(f64::rem_euclid, rem_euclid_model)]
fn compound_interp_lattice() {
    let (a_sp, b_sp, c_sp) = lattice_spaces();
    let sp = CompoundStateSpace::new(vec![Box::new(a_sp.clone()), Box::new(b_sp.clone()), Box::new(c_sp.clone())], vec![1.0, 2.0, 0.5]);
    let mk = |x: f64, y: f64, t: f64| CompoundState::new(vec![Box::new(RealVectorState::new(vec![x])), Box::new(RealVectorState::new(vec![y])), Box::new(SO2State { value: t })]);
    let (p, q) = (mk(1.0, -3.0, 0.5), mk(1.0, 4.0, -2.0));
    let mut o = mk(-1.5, 7.0, 3.0);
    sp.interpolate(&p, &q, 0.25, &mut o);
    let mut o0 = RealVectorState::new(vec![9.0]); a_sp.interpolate(&RealVectorState::new(vec![1.0]), &RealVectorState::new(vec![1.0]), 0.25, &mut o0);
    let mut o1 = RealVectorState::new(vec![9.0]); b_sp.interpolate(&RealVectorState::new(vec![-3.0]), &RealVectorState::new(vec![4.0]), 0.25, &mut o1);
    let mut o2 = SO2State { value: 9.0 }; c_sp.interpolate(&SO2State { value: 0.5 }, &SO2State { value: -2.0 }, 0.25, &mut o2);
    let g0 = (&*o.components[0] as &dyn Any).downcast_ref::<RealVectorState>().unwrap().values[0];
    let g1 = (&*o.components[1] as &dyn Any).downcast_ref::<RealVectorState>().unwrap().values[0];
    let g2 = (&*o.components[2] as &dyn Any).downcast_ref::<SO2State>().unwrap().value;
    assert!(g0.to_bits() == o0.values[0].to_bits() && g1.to_bits() == o1.values[0].to_bits() && g2.to_bits() == o2.value.to_bits());
}
