// Layer 0: audit of the EXACT f64 axioms used by the Verus units (verus/prelude/core.rs, mod fax).
// Loop-free harnesses over kani::any::<f64>(): complete over all 2^64 bit patterns of each argument.
fn nan(x: f64) -> bool { x != x }
#[kani::proof] fn ax_lt_irrefl() { let a: f64 = kani::any(); assert!(!(a < a)); }
#[kani::proof] fn ax_lt_trans() { let a: f64 = kani::any(); let b: f64 = kani::any(); let c: f64 = kani::any(); if a < b && b < c { assert!(a < c); } }
#[kani::proof] fn ax_lt_gt() { let a: f64 = kani::any(); let b: f64 = kani::any(); assert!((a < b) == (b > a)); }
#[kani::proof] fn ax_le_lt_trans() { let a: f64 = kani::any(); let b: f64 = kani::any(); let c: f64 = kani::any(); if a <= b && b < c { assert!(a < c); } if a < b && b <= c { assert!(a < c); } if a <= b && b <= c { assert!(a <= c); } }
#[kani::proof] fn ax_eq_sym() { let a: f64 = kani::any(); let b: f64 = kani::any(); assert!((a == b) == (b == a)); }
#[kani::proof] fn ax_total_non_nan() { let a: f64 = kani::any(); let b: f64 = kani::any(); if !nan(a) && !nan(b) { assert!(a < b || a == b || a > b); } else { assert!(a.partial_cmp(&b).is_none()); } }
#[kani::proof] fn ax_refl_and_bits() { let a: f64 = kani::any(); let b: f64 = kani::any(); if !nan(a) { assert!(a == a); if a.to_bits() == b.to_bits() { assert!(a == b); } } }
#[kani::proof] fn ax_partial_cmp_def() { let a: f64 = kani::any(); let b: f64 = kani::any();
    assert!((a < b) == (a.partial_cmp(&b) == Some(core::cmp::Ordering::Less)));
    assert!((a > b) == (a.partial_cmp(&b) == Some(core::cmp::Ordering::Greater)));
    assert!((a == b) == (a.partial_cmp(&b) == Some(core::cmp::Ordering::Equal))); }
#[kani::proof] fn ax_div_unit() { let m: f64 = kani::any(); let d: f64 = kani::any(); if 0.0 <= m && m < d { let t = m / d; assert!(0.0 <= t && t <= 1.0); } }
#[kani::proof] fn ax_add_mono() { let x: f64 = kani::any(); let y: f64 = kani::any(); if 0.0 <= x && 0.0 <= y { assert!(x <= x + y && 0.0 <= x + y); } }
#[kani::proof] fn ax_zero_refl() { assert!(0.0f64 == 0.0f64); }
// R1 helper: `x.ceil() as usize` saturates (NaN -> 0, negative -> 0, +inf -> usize::MAX)
#[kani::proof] fn ax_ceil_cast_saturates() { let x: f64 = kani::any(); let n = x.ceil() as usize; if nan(x) || x <= 0.0 { assert!(n == 0); } if x == f64::INFINITY { assert!(n == usize::MAX); } if x > 0.0 && x <= 1.0 { assert!(n == 1); } }
// axioms of the V-rvspace unit (vf/units/rv_space.py)
#[kani::proof] fn ax_eps_pos() { assert!(0.0 < f64::EPSILON && f64::EPSILON.is_finite()); assert!(f64::NEG_INFINITY < f64::INFINITY); }
#[kani::proof] fn ax_sub_add_pos() { let a: f64 = kani::any(); let e: f64 = kani::any(); if 0.0 < e && e.is_finite() && !nan(a) { assert!(a - e <= a); assert!(a <= a + e); } }
#[kani::proof] fn ax_order_misc() { let a: f64 = kani::any(); let b: f64 = kani::any();
    if a < b || a <= b { assert!(!nan(a) && !nan(b)); }      // ax_lt_not_nan
    if a < b { assert!(!(a > b)); }                           // ax_gt_asym
    if a <= b { assert!(!(a > b)); } }                        // ax_le_not_gt, ax_gt_not_le
#[kani::proof] fn ax_clamp() { let x: f64 = kani::any(); let lo: f64 = kani::any(); let hi: f64 = kani::any();
    if lo <= hi { let r = x.clamp(lo, hi); if nan(x) { assert!(nan(r)); } else { assert!(lo <= r && r <= hi); } if lo <= x && x <= hi { assert!(r.to_bits() == x.to_bits()); } } }
#[kani::proof] fn ax_nan_arith() { let a: f64 = kani::any(); let e: f64 = kani::any(); if nan(a) { assert!(nan(a - e) && nan(a + e)); } if a < e { assert!(a <= e); } }
#[kani::proof] fn ax_unit_range() { assert!(-1.0f64 < 1.0f64 && (1.0f64 - (-1.0f64)).is_finite()); }
