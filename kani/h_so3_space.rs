include!("h_common.rs");

fn unit(q: &SO3State) -> bool { let n = q.x * q.x + q.y * q.y + q.z * q.z + q.w * q.w; n >= 1.0 - 1e-9 && n <= 1.0 + 1e-9 }
fn any_quat() -> SO3State { SO3State { x: kani::any(), y: kani::any(), z: kani::any(), w: kani::any() } }

// ---------------------------------------------------------------- C12 (loop-free: complete over all arguments)
#[kani::proof]
fn so3_new_contract() {
    let some: bool = kani::any();
    let ang: f64 = kani::any();
    let c = any_quat();
    let r = SO3StateSpace::new(if some { Some((c, ang)) } else { None });
    kani::cover!(r.is_ok());
    kani::cover!(r.is_err());
    match r {
        Ok(sp) => { assert!(sp.bounds.1 >= 0.0 && sp.bounds.1 <= PI); assert!(!some || !(ang < 0.0)); }     // 0 <= stored radius <= PI, never NaN
        Err(StateSpaceError::InvalidAngularDistance { lower }) => { assert!(some && ang < 0.0 && lower == ang); }
        Err(_) => { assert!(false); }
    }
}
// the stored cone centre is a unit quaternion   (EXPECTED TO FAIL: any quaternion is accepted — known finding)
#[kani::proof]
fn so3_new_unit_centre() {
    let ang: f64 = kani::any();
    let c = any_quat();
    if let Ok(sp) = SO3StateSpace::new(Some((c, ang))) { assert!(unit(&sp.bounds.0)); }
}
// C06 (d)  (EXPECTED TO FAIL — known finding)
#[kani::proof]
fn so3_set_lvsf_positive() {
    let mut sp = SO3StateSpace::new(None).unwrap();
    sp.set_longest_valid_segment_fraction(kani::any());
    assert!(sp.longest_valid_segment_fraction > 0.0 && sp.longest_valid_segment_fraction <= 1.0);
}

// ---------------------------------------------------------------- C09 (acos contract stub)
#[kani::proof]
#[kani::stub(f64::acos, acos_model)]
fn so3_distance_range() {
    let sp = SO3StateSpace::new(None).unwrap();
    let a = any_quat(); let b = any_quat();
    kani::assume(a.x == a.x && a.y == a.y && a.z == a.z && a.w == a.w && b.x == b.x && b.y == b.y && b.z == b.z && b.w == b.w);
    let d = sp.distance(&a, &b);
    // the dot product may overflow to +-inf or be NaN (inf - inf) for huge components; whenever it is a number the result is in [0, PI]
    assert!(d != d || (d >= 0.0 && d <= PI));
}
#[kani::proof]
#[kani::stub(f64::acos, acos_model)]
fn so3_distance_unit_inputs() {
    let sp = SO3StateSpace::new(None).unwrap();
    let a = any_quat(); let b = any_quat();
    kani::assume(a.x.abs() <= 1.0 && a.y.abs() <= 1.0 && a.z.abs() <= 1.0 && a.w.abs() <= 1.0);
    kani::assume(b.x.abs() <= 1.0 && b.y.abs() <= 1.0 && b.z.abs() <= 1.0 && b.w.abs() <= 1.0);
    kani::cover!(true);
    let d = sp.distance(&a, &b);
    assert!(d >= 0.0 && d <= PI);                                    // never exceeds the diameter, never NaN
}
#[kani::proof]
#[kani::stub(f64::acos, acos_model)]
fn so3_distance_sym_antipodal() {
    let sp = SO3StateSpace::new(None).unwrap();
    let a = any_quat(); let b = any_quat();
    kani::assume(a.x.abs() <= 1.0 && a.y.abs() <= 1.0 && a.z.abs() <= 1.0 && a.w.abs() <= 1.0);
    kani::assume(b.x.abs() <= 1.0 && b.y.abs() <= 1.0 && b.z.abs() <= 1.0 && b.w.abs() <= 1.0);
    let d = sp.distance(&a, &b);
    assert!(d.to_bits() == sp.distance(&b, &a).to_bits());           // symmetric bit for bit
    let nb = SO3State { x: -b.x, y: -b.y, z: -b.z, w: -b.w };
    assert!(d.to_bits() == sp.distance(&a, &nb).to_bits());          // q and -q are the same rotation
}
