// shared models of libm functions CBMC does not model faithfully (probed: its `%`, powi and sqrt give
// counterexamples that do not reproduce on hardware).  Each model is an ASSUMPTION listed in the evidence.

/// f64::rem_euclid, exact for m > 0 and |x| < 2m (fmod is exact there and the additions are Sterbenz-exact
/// or correctly rounded exactly as in the real implementation: r = x % m; if r < 0 { r + m } else { r })
pub fn rem_euclid_model(x: f64, m: f64) -> f64 {
    kani::assume(m > 0.0 && x.abs() < 2.0 * m);
    let r = if x >= m { x - m } else if x <= -m { x + m } else { x };
    if r < 0.0 { r + m } else { r }
}
/// f64::rem_euclid for every finite x and m > 0: only the documented range 0 <= r <= m (r == m is possible by rounding)
pub fn rem_euclid_range(x: f64, m: f64) -> f64 {
    kani::assume(m > 0.0 && x.is_finite());
    let r: f64 = kani::any();
    kani::assume(r >= 0.0 && r <= m);
    r
}

/// memo table that turns a nondeterministic libm stub into a FUNCTION (equal arguments -> equal results)
static mut MEMO_IN: [u64; 4] = [0; 4];
static mut MEMO_OUT: [f64; 4] = [0.0; 4];
static mut MEMO_N: usize = 0;
fn memo_lookup(tag: u64, x: f64) -> Option<f64> {
    unsafe {
        let key = x.to_bits() ^ tag;
        let mut i = 0;
        while i < 4 {
            if i < MEMO_N && MEMO_IN[i] == key { return Some(MEMO_OUT[i]); }
            i += 1;
        }
        None
    }
}
fn memo_store(tag: u64, x: f64, r: f64) {
    unsafe { if MEMO_N < 4 { MEMO_IN[MEMO_N] = x.to_bits() ^ tag; MEMO_OUT[MEMO_N] = r; MEMO_N += 1; } }
}
/// f64::sqrt as a contract: NaN for negative / NaN input, otherwise r >= 0, r == 0 <==> x == 0, r finite <==> x finite, deterministic
pub fn sqrt_model(x: f64) -> f64 {
    if x != x || x < 0.0 { return f64::NAN; }
    if let Some(r) = memo_lookup(0x5151_0000_0000_0000, x) { return r; }
    let r: f64 = kani::any();
    kani::assume(r >= 0.0 && (r == 0.0) == (x == 0.0) && r.is_finite() == x.is_finite());
    kani::assume(if x >= 1.0 { r <= x && r >= 1.0 } else { r >= x && r <= 1.0 });
    memo_store(0x5151_0000_0000_0000, x, r);
    r
}
/// f64::powi for the only exponent oxmpl uses
pub fn powi_model(x: f64, n: i32) -> f64 {
    kani::assume(n == 2);
    x * x
}
/// f64::acos on [0, 1] as a contract: result in [0, PI/2], acos(1) == 0, deterministic (NaN outside [-1,1] / NaN)
pub fn acos_model(x: f64) -> f64 {
    if x != x || x > 1.0 || x < -1.0 { return f64::NAN; }
    if x == 1.0 { return 0.0; }
    if let Some(r) = memo_lookup(0xACAC_0000_0000_0000, x) { return r; }
    let r: f64 = kani::any();
    kani::assume(if x >= 0.0 { r >= 0.0 && r <= std::f64::consts::FRAC_PI_2 } else { r >= std::f64::consts::FRAC_PI_2 && r <= std::f64::consts::PI });
    memo_store(0xACAC_0000_0000_0000, x, r);
    r
}
