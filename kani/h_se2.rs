include!("h_common.rs");
use crate::base::state::{CompoundState, RealVectorState, SO2State, State};
use std::f64::consts::PI;
fn fin(x: f64) -> bool { x.is_finite() && x.abs() <= 1.0e100 }

// C13: an SE(2) space behaves exactly as the compound of R^2 and SO(2) with weights (1, w)
#[kani::proof]
#[kani::unwind(7)]
#[kani::stub(f64::sqrt, sqrt_model)]
#[kani::stub(f64::powi, powi_model)]
#[kani::stub(f64::rem_euclid, rem_euclid_model)]
fn se2_is_compound_r2_so2() {
    let w: f64 = kani::any();
    kani::assume(fin(w));
    let sp = SE2StateSpace::new(w, None).unwrap();
    let r2 = RealVectorStateSpace::new(2, None).unwrap();
    let so2 = SO2StateSpace::new(None).unwrap();
    let reference = CompoundStateSpace::new(vec![Box::new(r2), Box::new(so2)], vec![1.0, w]);
    let (x0, y0, t0, x1, y1, t1): (f64, f64, f64, f64, f64, f64) = (kani::any(), kani::any(), kani::any(), kani::any(), kani::any(), kani::any());
    kani::assume(fin(x0) && fin(y0) && fin(x1) && fin(y1) && t0 >= -PI && t0 <= PI && t1 >= -PI && t1 <= PI);
    let mk = |x: f64, y: f64, t: f64| SE2State(CompoundState { components: vec![Box::new(RealVectorState::new(vec![x, y])), Box::new(SO2State { value: t })] });
    let (p, q) = (mk(x0, y0, t0), mk(x1, y1, t1));
    kani::cover!(true);
    assert!(sp.distance(&p, &q).to_bits() == reference.distance(&p.0, &q.0).to_bits());
    assert!(sp.get_longest_valid_segment_length().to_bits() == reference.get_longest_valid_segment_length().to_bits());
    assert!(sp.satisfies_bounds(&p) == reference.satisfies_bounds(&p.0));
}
// C12: SE2State::new canonicalises the yaw; SE2StateSpace::new validates the bounds count and each component
#[kani::proof]
#[kani::unwind(7)]
#[kani::stub(f64::rem_euclid, rem_euclid_model)]
fn se2_state_new_yaw_canonical() {
    let yaw: f64 = kani::any();
    kani::assume(yaw.is_finite() && (yaw + PI).abs() < 4.0 * PI);
    let s = SE2State::new(kani::any(), kani::any(), yaw);
    assert!(s.get_yaw() >= -PI && s.get_yaw() <= PI);
}
