"""Contracts injected (as attributes, above the real `fn` line) into the scratch copy of oxmpl, and the
harness files appended as `#[cfg(kani)] mod` to the source file that owns the private items they need."""

S = "src/base/spaces/"
T = "src/base/states/"

# (source file, regex matching the fn line exactly once, attribute lines, contract id)
CONTRACTS = [
    (S + "so2_state_space.rs", r"^\s*pub fn new\(bounds_option: Option<\(f64, f64\)>\) -> Result<Self, StateSpaceError> \{", r"""
#[cfg_attr(kani, kani::ensures(|r: &Result<Self, StateSpaceError>| match r { Ok(sp) => sp.bounds.0 < sp.bounds.1 && sp.bounds.0 >= -PI && sp.bounds.1 <= PI && sp.longest_valid_segment_fraction == 0.05, Err(_) => true }))]
#[cfg_attr(kani, kani::ensures(|r: &Result<Self, StateSpaceError>| { let b = bounds_option.unwrap_or((-PI, PI)); r.is_err() == (!(b.0 < b.1) || !(b.0.max(-PI) < b.1.min(PI))) }))]
#[cfg_attr(kani, kani::ensures(|r: &Result<Self, StateSpaceError>| match r { Err(StateSpaceError::InvalidBound { .. }) => true, Err(_) => false, Ok(_) => true }))]
""", "so2.new"),
    (S + "so2_state_space.rs", r"^\s*pub fn set_longest_valid_segment_fraction\(&mut self, fraction: f64\) \{", r"""
#[cfg_attr(kani, kani::ensures(|_r: &()| self.longest_valid_segment_fraction > 0.0 && self.longest_valid_segment_fraction <= 1.0))]
#[cfg_attr(kani, kani::modifies(&self.longest_valid_segment_fraction))]
""", "so2.set_lvsf"),
]

# (source file, harness file under /verif/kani)
HARNESS_MODULES = [
    (S + "so2_state_space.rs", "h_so2_space.rs"),
    (S + "real_vector_state_space.rs", "h_rv_space.rs"),
    (S + "so3_state_space.rs", "h_so3_space.rs"),
    (T + "so2_state.rs", "h_states.rs"),
    (T + "so3_state.rs", "h_so3_state.rs"),
    (S + "compound_state_space.rs", "h_compound.rs"),
    (S + "se2_state_space.rs", "h_se2.rs"),
    ("src/lib.rs", "h_float.rs"),
]
