"""Harness table for Engine K.  scope: 'complete' (loop-free over the full symbolic domain stated in `claim`)
or 'bounded: <bound>' (never counted as proved)."""

TRUSTED = [
    "Kani 0.68 / CBMC 6.11 and its bit-precise model of IEEE-754 +,-,*,/,<,abs,min,max,clamp, casts",
    "kani/h_common.rs models of libm functions CBMC does not model faithfully: rem_euclid (exact piecewise model for |x| < 2m; range-only model otherwise), sqrt / powi / acos / sin (contract stubs)",
    "rand 0.9 Rng::random_range(lo..hi): requires lo < hi, both finite, hi - lo finite; returns lo <= v < hi (documented contract; sample_uniform is not executed under CBMC)",
]
SO2 = "oxmpl/src/base/spaces/so2_state_space.rs::"
H = []


def h(name, props, kind, scope, claim, functions, known_finding=None, tier="quick", timeout=900, optional=False):
    H.append(dict(name=name, props=props, kind=kind, scope=scope, claim=claim, functions=functions, known_finding=known_finding, tier=tier, timeout=timeout, optional=optional))


DOM_SO2 = "all well-formed bounds -PI <= lo < hi <= PI, all f64 states with |v + PI| < 4 PI (rem_euclid model domain)"
h("so2_new_contract", ["C12"], "contract", "complete", "SO2StateSpace::new: Ok(sp) ==> -PI <= lo < hi <= PI (no NaN); Err <==> !(b0 < b1) || !(max(b0,-PI) < min(b1,PI)); the error is InvalidBound; for ALL Option<(f64,f64)> arguments", [SO2 + "SO2StateSpace::new"])
h("so2_new_ok_usable", ["C12", "C11"], "proof", "complete", "every space new() returns has a non-empty finite range (precondition of random_range) and satisfies_bounds / enforce_bounds do not panic; " + DOM_SO2, [SO2 + "SO2StateSpace::new", SO2 + "satisfies_bounds", SO2 + "enforce_bounds"])
h("so2_set_lvsf_contract", ["C06"], "contract", "complete", "set_longest_valid_segment_fraction leaves 0 < fraction <= 1 for ALL f64 arguments", [SO2 + "SO2StateSpace::set_longest_valid_segment_fraction"], known_finding="KF-C06-lvsl-zero-so2")
h("so2_enforce_then_satisfies", ["C11"], "proof", "complete", "after enforce_bounds: satisfies_bounds holds, lo <= value <= hi, and a second enforce is the identity bit for bit; " + DOM_SO2, [SO2 + "enforce_bounds", SO2 + "satisfies_bounds"])
h("so2_enforce_identity_on_satisfying", ["C11"], "proof", "complete", "enforce_bounds leaves a canonical satisfying state unchanged bit for bit; all bounds, all canonical states", [SO2 + "enforce_bounds"])
h("so2_sample_range_satisfies", ["C11"], "proof", "complete", "any value in [lo, hi) (random_range contract) satisfies the bounds", [SO2 + "sample_uniform", SO2 + "satisfies_bounds"])
h("so2_dist_range_identity", ["C09"], "proof", "complete", "0 <= d(a,b) <= PI, never NaN; d(a,a) == 0; all canonical a, b", [SO2 + "distance"])
h("so2_dist_short_arc", ["C09"], "proof", "complete", "d(a,b) is the short arc |a-b| or 2PI-|a-b| within 2e-15 (independent reference); all canonical a, b", [SO2 + "distance"], tier="thorough", timeout=1200, optional=True)
h("so2_interp_canonical", ["C10"], "proof", "complete", "interpolate returns an angle in [-PI, PI]; all canonical a, b, all t in [0,1]", [SO2 + "interpolate"])
h("so2_interp_endpoints", ["C10"], "proof", "complete", "interpolate(a,b,0) is a up to 1e-15 (mod 2 PI); all canonical a, b", [SO2 + "interpolate"], tier="thorough", timeout=1200, optional=True)
h("so2_interp_convex_witness", ["C04"], "proof", "complete", "premise convex_ok for SO(2) at the concrete witness bounds (-3,3), a=-2.9, b=2.9, t=0.5: the interpolated state satisfies the bounds", [SO2 + "interpolate"], known_finding="KF-C04-so2-short-arc")
h("so2_interp_convex", ["C04"], "proof", "complete", "premise convex_ok for SO(2): in-bounds a, b, t in [0,1] ==> interpolate(a,b,t) in bounds (1e-9 slack)", [SO2 + "interpolate"], known_finding="KF-C04-so2-short-arc", tier="thorough", timeout=1200, optional=True)
h("so2_interp_convex_half_circle", ["C04"], "proof", "complete", "premise convex_ok for SO(2) intervals of span <= PI", [SO2 + "interpolate"], tier="thorough", timeout=1200, optional=True)

FL = "f64 operators (Layer 0)"
for n, c in [("ax_lt_irrefl", "!(a < a)"), ("ax_lt_trans", "a<b && b<c ==> a<c"), ("ax_lt_gt", "(a<b) == (b>a)"), ("ax_le_lt_trans", "<= / < transitivity mixes"),
             ("ax_eq_sym", "(a==b) == (b==a)"), ("ax_total_non_nan", "trichotomy without NaN; partial_cmp None with NaN"), ("ax_refl_and_bits", "a==a and bit-equal ==> == when not NaN"),
             ("ax_partial_cmp_def", "<, >, == agree with partial_cmp"), ("ax_div_unit", "0<=m<d ==> 0 <= m/d <= 1"), ("ax_add_mono", "x,y>=0 ==> x <= x+y, 0 <= x+y"),
             ("ax_zero_refl", "0.0 == 0.0"), ("ax_ceil_cast_saturates", "x.ceil() as usize saturates"),
             ("ax_eps_pos", "0 < f64::EPSILON finite, -inf < +inf"), ("ax_sub_add_pos", "finite e > 0, a not NaN ==> a - e <= a <= a + e (ax_sub_pos_le, ax_add_pos_ge)"),
             ("ax_order_misc", "a<b or a<=b ==> neither is NaN; a<b ==> !(a>b); a<=b ==> !(a>b)"),
             ("ax_clamp", "lo <= hi ==> clamp keeps NaN, else lo <= clamp(x) <= hi, and returns x bit for bit when lo <= x <= hi"), ("ax_nan_arith", "NaN - e, NaN + e are NaN; a < e ==> a <= e (ax_lt_le)"), ("ax_unit_range", "-1 < 1 and 1 - (-1) is finite")]:
    h(n, ["C09"], "proof", "complete", "EXACT axiom audit: " + c + "; all f64 bit patterns", [FL])


RV = "oxmpl/src/base/spaces/real_vector_state_space.rs::"
SO3 = "oxmpl/src/base/spaces/so3_state_space.rs::"
B2 = "bounded: dimension 2"
h("rv_new_contract_le2", ["C12"], "proof", "bounded: dimension <= 2, bounds length <= 2",  "RealVectorStateSpace::new: Ok ==> right count, every lower < upper (no NaN); DimensionMismatch / ZeroDimensionUnbounded / InvalidBound exactly as documented; all f64 bound values", [RV + "RealVectorStateSpace::new"], tier="thorough", timeout=1500, optional=True)
h("rv_new_contract_d1", ["C12"], "proof", "bounded: dimension 1, bounds length <= 2", "RealVectorStateSpace::new(1, ..): Ok ==> exactly one bound with lower < upper (no NaN); DimensionMismatch / InvalidBound exactly as documented; all f64 bound values", [RV + "RealVectorStateSpace::new"], timeout=600)
h("rv_set_lvsf_positive", ["C06"], "proof", "complete", "set_longest_valid_segment_fraction leaves 0 < fraction <= 1 for ALL f64 arguments", [RV + "set_longest_valid_segment_fraction"], known_finding="KF-C06-lvsl-zero-rv")
h("rv_enforce_then_satisfies_d2", ["C11", "C12"], "proof", B2, "enforce_bounds does not panic on any constructible box; afterwards satisfies_bounds holds, every coordinate is inside [lo,hi], a second enforce is the identity; all non-NaN states", [RV + "enforce_bounds", RV + "satisfies_bounds"])
h("rv_enforce_identity_on_satisfying_d2", ["C11"], "proof", B2, "enforce_bounds leaves a state that satisfies_bounds accepts unchanged", [RV + "enforce_bounds", RV + "satisfies_bounds"], known_finding="KF-C11-rv-epsilon-band")
h("rv_enforce_identity_inside_box_d2", ["C11"], "proof", B2, "enforce_bounds leaves a state inside the closed box unchanged bit for bit, and satisfies_bounds accepts it", [RV + "enforce_bounds", RV + "satisfies_bounds"])
h("rv_sample_range_satisfies_d2", ["C11"], "proof", B2, "coordinates in [lo,hi) (random_range contract) satisfy the bounds", [RV + "sample_uniform", RV + "satisfies_bounds"])
h("rv_distance_d1", ["C09"], "proof", "bounded: dimension 1; |coordinates| <= 1e150", "distance >= 0, never NaN, d(a,a) == 0 (sqrt/powi contract stubs)", [RV + "distance"], timeout=900)
h("scalar_lerp_t0", ["C10", "C04"], "proof", "complete", "scalar law: a + (b - a) * 0.0 == a; all finite |a|,|b| <= 1e150", [RV + "interpolate"])
h("rv_distance_d2", ["C09"], "proof", B2 + "; |coordinates| <= 1e150", "distance >= 0, never NaN, symmetric bit for bit, d(a,a) == 0, equals sqrt(sum of squared differences) evaluated left to right (sqrt/powi contract stubs)", [RV + "distance"], tier="thorough", timeout=2400, optional=True)
h("rv_interp_formula_d2", ["C10", "C04"], "proof", B2, "interpolate computes a_i + (b_i - a_i) * t for every coordinate bit for bit; all f64 values", [RV + "interpolate"], tier="thorough", timeout=2400, optional=True)
h("scalar_lerp_monotone", ["C10", "C04"], "proof", "complete", "scalar law: a + (b-a)*0 == a; for t in [0,1] the value lies between a and a + (b-a) (monotone rounding), so a box containing both ends contains the segment up to the rounding of the t = 1 value; all finite |a|,|b| <= 1e150", [RV + "interpolate"], tier="thorough", timeout=2400, optional=True)
h("so3_new_contract", ["C12"], "proof", "complete", "SO3StateSpace::new: Ok ==> 0 <= stored radius <= PI (never NaN); Err <==> radius < 0, InvalidAngularDistance; all arguments", [SO3 + "SO3StateSpace::new"])
h("so3_new_unit_centre", ["C12"], "proof", "complete", "the stored cone centre is a unit quaternion", [SO3 + "SO3StateSpace::new"], known_finding="KF-C12-so3-centre")
h("so3_set_lvsf_positive", ["C06"], "proof", "complete", "set_longest_valid_segment_fraction leaves 0 < fraction <= 1 for ALL f64 arguments", [SO3 + "set_longest_valid_segment_fraction"], known_finding="KF-C06-lvsl-zero-so3")
h("so3_distance_range", ["C09"], "proof", "complete", "d is NaN (overflowing dot product) or 0 <= d <= PI; all non-NaN quaternion components (acos contract stub)", [SO3 + "distance"], timeout=600)
h("so3_distance_unit_inputs", ["C09"], "proof", "complete", "0 <= d <= PI, never NaN; all components in [-1,1] (acos contract stub)", [SO3 + "distance"], timeout=600)
h("so3_distance_sym_antipodal", ["C09"], "proof", "complete", "d(a,b) == d(b,a) and d(a,b) == d(a,-b) bit for bit; all components in [-1,1]", [SO3 + "distance"], tier="thorough", timeout=1500, optional=True)
ST = "oxmpl/src/base/states/"
h("so2_state_new_canonical", ["C12"], "proof", "complete", "SO2State::new(v) and normalise() return an angle in [-PI,PI]; all v with |v + PI| < 4 PI (exact rem_euclid model)", [ST + "so2_state.rs::SO2State::new", ST + "so2_state.rs::SO2State::normalise"], timeout=900)
h("so2_state_new_congruent", ["C12"], "proof", "complete", "SO2State::new(v) is congruent to v modulo 2 PI up to 4e-15; all v with |v + PI| < 4 PI", [ST + "so2_state.rs::SO2State::new"], tier="thorough", timeout=1200, optional=True)
h("so2_state_new_canonical_all_finite", ["C12"], "proof", "complete", "SO2State::new(v) is in [-PI,PI] for ALL finite v (uses only 0 <= rem_euclid(x, m) <= m)", [ST + "so2_state.rs::SO2State::new"])
h("so3_normalise_zero_iff", ["C12"], "proof", "complete", "SO3State::normalise: Err(ZeroMagnitude) <==> norm < 1e-9 (the norm is the single sqrt the function computes); all finite quaternions", [ST + "so3_state.rs::SO3State::normalise"], timeout=900)
h("so3_normalise_contract", ["C12"], "proof", "complete", "SO3State::normalise: Err(ZeroMagnitude) <==> norm < 1e-9; otherwise every component divided by the norm (parallel); all finite quaternions (sqrt/powi contract stubs)", [ST + "so3_state.rs::SO3State::normalise"], tier="thorough", timeout=2400, optional=True)


CS = "oxmpl/src/base/spaces/compound_state_space.rs::"
AS = "oxmpl/src/base/spaces/any_state_space.rs::"
LAY = "bounded: layout R^1 x SO(2) (2 components); symbolic weights, bounds, states"
h("compound_distance_law_r1_so2", ["C13", "C09"], "proof", LAY, "compound distance == sqrt(0 + sum (d_i * w_i)^2) bit for bit through real Box<dyn AnyStateSpace> dispatch and Any downcasts (no panic); resolution is the same weighted combination", [CS + "distance", CS + "get_longest_valid_segment_length", AS + "distance_dyn", AS + "get_longest_valid_segment_length_dyn"], tier="thorough", timeout=3000, optional=True)
h("compound_componentwise_r1_so2", ["C13", "C10", "C11"], "proof", LAY, "interpolate / satisfies_bounds / enforce_bounds act component by component (each component equals the component space's own result bit for bit); enforced ==> accepted", [CS + "interpolate", CS + "satisfies_bounds", CS + "enforce_bounds", AS + "interpolate_dyn", AS + "satisfies_bounds_dyn", AS + "enforce_bounds_dyn"], tier="thorough", timeout=3000, optional=True)
SE2 = "oxmpl/src/base/spaces/se2_state_space.rs::"
h("se2_is_compound_r2_so2", ["C13"], "proof", "bounded: unbounded SE(2) (R^2 x SO(2)); symbolic weight and states", "SE2StateSpace(w) distance / resolution / bounds check equal the compound of R^2 and SO(2) with weights (1, w) bit for bit", [SE2 + "SE2StateSpace::new", SE2 + "distance", SE2 + "get_longest_valid_segment_length", SE2 + "satisfies_bounds"], tier="thorough", timeout=3000, optional=True)
h("compound_satisfies_r1_r1_light", ["C13"], "proof", "bounded: layout R^1 x R^1 (2 components); symbolic bounds and states", "compound satisfies_bounds == conjunction of the component checks, through real Box<dyn AnyStateSpace> dispatch and Any downcasts (no panic)", [CS + "satisfies_bounds", AS + "satisfies_bounds_dyn"], timeout=900)
h("compound_satisfies_lvsl_r1_r1", ["C13"], "proof", "bounded: layout R^1 x R^1 (2 components); symbolic weights, bounds, states", "same with validated constructors and symbolic weights", [CS + "satisfies_bounds", AS + "satisfies_bounds_dyn"], tier="thorough", timeout=1800, optional=True)
h("se2_state_new_yaw_canonical", ["C12"], "proof", "complete", "SE2State::new stores a yaw in [-PI,PI]; all yaw with |yaw + PI| < 4 PI", ["oxmpl/src/base/states/se2_state.rs::SE2State::new"], timeout=600)


h("so2_interp_lattice", ["C10"], "proof", "bounded: lattice of 7 special angles x 7 x 5 parameters", "on seam / antipodal / quarter-turn angles and t in {0,1/8,1/2,7/8,1}: canonical result, distance from a is t d(a,b), from b is (1-t) d(a,b), interp(b,a,1-t) is the same configuration (1e-9)", [SO2 + "interpolate", SO2 + "distance"], timeout=900)
h("rv_distance_axes_d5", ["C09"], "proof", "bounded: dimension 5, states 0 and x e_i with 1e-100 <= |x| <= 1e100", "states that differ in one coordinate are at a positive distance and d(e,e) == 0 for every coordinate of R^5 (sqrt/powi contract stubs)", [RV + "distance"], timeout=900)
h("compound_lvsl_lattice", ["C13"], "proof", "bounded: layout R^1 x R^1 x SO(2), three concrete weight vectors (incl. 1e-17 and 0)", "resolution == sqrt(0 + sum (l_i w_i)^2) bit for bit (also for tiny weights), through real dyn dispatch", [CS + "get_longest_valid_segment_length", AS + "get_longest_valid_segment_length_dyn"], tier="thorough", timeout=3000, optional=True)
h("compound_interp_lattice", ["C13", "C10"], "proof", "bounded: layout R^1 x R^1 x SO(2), one concrete state pair, t = 0.25", "interpolate equals the component spaces' results on every component bit for bit and overwrites an unrelated output state (also a component that does not move)", [CS + "interpolate", AS + "interpolate_dyn"], timeout=900)

HARNESSES = H
